"""tools/suite_check.py <textx checkout>: run the pinned test-suite command there and report which of the
baseline's stable_pass tests do not pass (exit 0 iff all 313 pass)."""
import json, os, subprocess, sys, tempfile
import xml.etree.ElementTree as ET
wt = os.path.abspath(sys.argv[1] if len(sys.argv) > 1 else "/repo")
base = json.load(open("/root/.vp/BASELINE.json"))
want = set(base["stable_pass"])
fd, x = tempfile.mkstemp(suffix=".xml"); os.close(fd)
env = dict(os.environ, PYTHONPATH=wt, PYTHONDONTWRITEBYTECODE="1"); env.pop("TEXTX_VERIF", None)
subprocess.run(["/venv/bin/python", "-m", "pytest", "-ra", "-q", "-p", "no:cacheprovider", "--timeout=900",
                "--continue-on-collection-errors", "--junitxml=" + x], cwd=wt, env=env,
               stdout=subprocess.DEVNULL, stderr=subprocess.DEVNULL)
passed = set()
for tc in ET.parse(x).getroot().iter("testcase"):
    if not any(ch.tag in ("failure", "error", "skipped") for ch in tc):
        passed.add("%s::%s" % (tc.get("classname"), tc.get("name")))
os.remove(x)
missing = sorted(want - passed)
print("suite: %d/%d baseline tests pass" % (len(want) - len(missing), len(want)))
for m in missing[:20]:
    print("  NOT PASSING:", m)
sys.exit(1 if missing else 0)
