#!/bin/sh
# tools/mutall.sh [TAG...]: run every seeded change (seeded/TAG) against its property's quick check in private
# worktrees (/tmp/mut/verif, /tmp/mut/repo at the current main commits), so /verif and /repo stay usable meanwhile.
# Result lines go to /tmp/mut/result.log:  TAG property detected|MISSED|noapply  <first violation line>
rm -rf /tmp/mut/verif /tmp/mut/repo; git -C /verif worktree prune; git -C /repo worktree prune; mkdir -p /tmp/mut
git -C /verif worktree add -q --detach /tmp/mut/verif HEAD || exit 2
git -C /repo worktree add -q --detach /tmp/mut/repo HEAD || exit 2
cd /tmp/mut/verif; export TEXTX_REPO=/tmp/mut/repo VERIF_NPROC=${VERIF_NPROC:-8}
./setup.sh >/tmp/mut/setup.log 2>&1
TAGS="$*"; [ -n "$TAGS" ] || TAGS=$(ls /verif/seeded)
: > /tmp/mut/result.log
for t in $TAGS; do
  pid=$(/venv/bin/python -c "import json;print(json.load(open('/verif/seeded/$t/meta.json'))['property'])")
  [ -f tools/props/$(echo $pid | tr A-Z a-z).py ] || { echo "$t $pid nocheck" >> /tmp/mut/result.log; continue; }
  if ! git -C $TEXTX_REPO apply /verif/seeded/$t/patch.diff 2>/dev/null; then echo "$t $pid noapply" >> /tmp/mut/result.log; continue; fi
  ./check $pid --tier quick > /tmp/mut/run_$t.log 2>&1; rc=$?
  git -C $TEXTX_REPO checkout -q -- .
  v=$(grep -m1 '^VIOLATION' /tmp/mut/run_$t.log)
  if [ $rc = 1 ] && [ -n "$v" ]; then echo "$t $pid detected $v" >> /tmp/mut/result.log; else echo "$t $pid MISSED rc=$rc $(tail -1 /tmp/mut/run_$t.log)" >> /tmp/mut/result.log; fi
done
echo done >> /tmp/mut/result.log
