"""Regenerate MANIFEST.json from tools/claims.json (one entry per claimed property)."""
import json
import os

ROOT = os.path.dirname(os.path.dirname(os.path.abspath(__file__)))
claims = json.load(open(os.path.join(ROOT, "tools", "claims.json")))
_cd = os.path.join(ROOT, "tools", "claims.d")
if os.path.isdir(_cd):  # one file per property (written by whoever builds that property's check)
    for _f in sorted(os.listdir(_cd)):
        if _f.endswith(".json"):
            claims.update(json.load(open(os.path.join(_cd, _f))))
_hold = os.path.join(ROOT, "tools", "hold.json")   # {"CNN": "reason"}: claims temporarily withdrawn (check being adapted)
if os.path.exists(_hold):
    for _p, _r in json.load(open(_hold)).items():
        if _p in claims:
            claims[_p] = dict(claims[_p], claimed=False, reason=_r)
props = [json.loads(l) for l in open(os.path.join(ROOT, "properties.jsonl"))]
checks, na = [], []
for p in props:
    pid = p["id"]
    c = claims.get(pid)
    if c and c.get("claimed", True):
        checks.append({
            "property_id": pid,
            "quick_cmd": "./check %s --tier quick" % pid,
            "thorough_cmd": "./check %s --tier thorough" % pid,
            "evidence_file": "evidence/%s.json" % pid,
            "replay_cmd_template": "./check %s --replay {path}" % pid,
            "engine": "coq-model+correspondence",
            "level_claimed": {"category": "proof", "text": c["text"], "design_ref": c.get("design_ref", "DESIGN.md section 6, " + pid)},
            "level_note": c["note"],
            "technique": c.get("technique", "machine-checked proof in Coq 8.16.1 about an executable model tied to /repo by translator and/or correspondence"),
        })
    else:
        na.append({"property_id": pid, "reason": (c or {}).get("reason", "no model/theorem for this property is committed yet; nothing is claimed for it at this commit")})
m = {
    "version": 1,
    "setup_cmd": "./setup.sh",
    "hooks": {"guard": "TEXTX_VERIF", "enable": "none needed: the checks observe /repo from outside (public API, monkeypatching in the runner processes); the guard name is reserved and unused",
              "baseline_off_cmd": "cd /repo && /venv/bin/python -m pytest -ra -q -p no:cacheprovider --timeout=900 --continue-on-collection-errors",
              "source_commits": [], "add_only": True},
    "engines": [{"name": "coq-model+correspondence", "path": "check", "serves_properties": [c["property_id"] for c in checks],
                 "kind_free_text": "Coq 8.16.1 development (coq/Core, Model, Proofs, Props) + translators (tools/translate -> coq/Gen) + differential correspondence (tools/impl runs /repo, model evaluated by vm_compute)"}],
    "checks": checks,
    "not_applicable": na,
    "notes": "See DESIGN.md. ./check CNN [--tier quick|thorough]; evidence in evidence/CNN.json; known findings in KNOWN_FINDINGS.txt.",
}
json.dump(m, open(os.path.join(ROOT, "MANIFEST.json"), "w"), indent=1)
print("claimed", len(checks), "not_applicable", len(na))
