"""./check CNN [--tier quick|thorough] [--replay FILE]"""
import argparse
import importlib
import json
import os
import sys

sys.path.insert(0, os.path.dirname(os.path.dirname(os.path.abspath(__file__))))
from vt import core  # noqa: E402


def decide(chk, impl_failures, disagreements, corr_name="correspondence"):
    """impl_failures: list of dict(case=..., tags=[...], what=...) observed on the implementation.
    disagreements: list of dict(case=..., impl=..., model=...)."""
    unattributed = []
    for f in impl_failures:
        if chk.attribute(f.get("tags", [])) is None:
            unattributed.append(f)
    for f in unattributed[:3]:
        chk.violation({"kind": "impl-violation", "case": f.get("case"), "what": f.get("what"),
                       "tags": f.get("tags", []), "impl_outcome": f.get("impl"), "model_outcome": f.get("model")})
    chk.cov["disagreements_checked"] = chk.cov.get("disagreements_checked", 0)
    chk.cov["impl_property_failures"] = len(impl_failures)
    chk.cov["model_impl_disagreements"] = len(disagreements)
    if not unattributed:
        broken = []
        if chk.proof_ok is False:
            broken.append({"what": "proof obligation", "detail": chk.proof_failure_text()})
        if disagreements:
            broken.append({"what": corr_name + " disagrees on %d case(s)" % len(disagreements),
                           "cases": disagreements[:5]})
        if broken:
            chk.violation({"kind": "unproved", "broken": broken,
                           "note": "the property is no longer shown to hold; the search over model and "
                                   "implementation found no input on which the implementation violates it"},
                          no_input=True, name="unproved.json")


def main():
    ap = argparse.ArgumentParser()
    ap.add_argument("pid")
    ap.add_argument("--tier", default=os.environ.get("VERIF_TIER", "quick"))
    ap.add_argument("--replay")
    a = ap.parse_args()
    seed = int(os.environ.get("VERIF_SEED", "20260921"))
    tier = a.tier if a.tier in ("quick", "thorough") else "quick"
    mod = importlib.import_module("props." + a.pid.lower())
    if a.replay:
        rep = json.load(open(a.replay))
        sys.exit(mod.replay(rep) if hasattr(mod, "replay") else print(json.dumps(rep, indent=1)) or 0)
    chk = core.Check(a.pid, tier, seed)
    try:
        mod.run(chk)
    except Exception as ex:  # the machinery itself failed: fail closed
        import traceback
        tb = traceback.format_exc()
        chk.violation({"kind": "unproved", "broken": [{"what": "check machinery raised", "detail": tb[-4000:]}]},
                      no_input=True, name="unproved.json")
        sys.stderr.write(tb)
    sys.exit(chk.finish())


if __name__ == "__main__":
    main()
