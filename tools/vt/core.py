"""Shared machinery of the textX verification checks.

One check run = translate -> prove -> correspond -> observe -> decide -> evidence.
Everything here is stdlib only and runs under /venv/bin/python.
"""
import fcntl
import hashlib
import json
import os
import re
import shutil
import subprocess
import sys
import tempfile
import time

VERIF = os.path.dirname(os.path.dirname(os.path.dirname(os.path.abspath(__file__))))
REPO = os.environ.get("TEXTX_REPO", "/repo")
PY = os.environ.get("TEXTX_PY", "/venv/bin/python")
COQ = os.path.join(VERIF, "coq")
GEN = os.path.join(COQ, "Gen")
BUILD = os.path.join(VERIF, "build")
OUT = os.path.join(VERIF, "out")
NPROC = int(os.environ.get("VERIF_NPROC") or os.cpu_count() or 4)

ALLOWED_AXIOMS = set()  # the development is expected to be closed


def sh(cmd, timeout=600, cwd=None, env=None, input=None):
    p = subprocess.run(cmd, shell=isinstance(cmd, str), cwd=cwd, env=env, input=input,
                       stdout=subprocess.PIPE, stderr=subprocess.STDOUT, timeout=timeout,
                       text=True, errors="replace")
    return p.returncode, p.stdout


class Lock:
    def __init__(self, name="coq"):
        os.makedirs(BUILD, exist_ok=True)
        self.path = os.path.join(BUILD, "." + name + ".lock")

    def __enter__(self):
        self.f = open(self.path, "w")
        fcntl.flock(self.f, fcntl.LOCK_EX)
        return self

    def __exit__(self, *a):
        fcntl.flock(self.f, fcntl.LOCK_UN)
        self.f.close()


def write_if_changed(path, text):
    os.makedirs(os.path.dirname(path), exist_ok=True)
    try:
        with open(path) as f:
            if f.read() == text:
                return False
    except OSError:
        pass
    tmp = path + ".tmp%d" % os.getpid()
    with open(tmp, "w") as f:
        f.write(text)
    os.replace(tmp, path)
    return True


# ---------------------------------------------------------------- PRNG
class Rng:
    """Deterministic splittable PRNG (SHA-256 counter mode); one state per check run."""

    def __init__(self, seed, path=""):
        self.key = ("%s/%s" % (seed, path)).encode()
        self.n = 0
        self.buf = b""

    def split(self, label):
        return Rng(self.key.decode(), str(label))

    def _bytes(self, k):
        while len(self.buf) < k:
            self.buf += hashlib.sha256(self.key + b":" + str(self.n).encode()).digest()
            self.n += 1
        r, self.buf = self.buf[:k], self.buf[k:]
        return r

    def below(self, n):
        if n <= 1:
            return 0
        return int.from_bytes(self._bytes(8), "big") % n

    def range(self, a, b):
        return a + self.below(b - a + 1)

    def chance(self, p):
        return self.below(1000000) < int(p * 1000000)

    def choice(self, xs):
        return xs[self.below(len(xs))]

    def weighted(self, pairs):
        tot = sum(w for _, w in pairs)
        r = self.below(tot)
        for x, w in pairs:
            if r < w:
                return x
            r -= w
        return pairs[-1][0]

    def shuffle(self, xs):
        xs = list(xs)
        for i in range(len(xs) - 1, 0, -1):
            j = self.below(i + 1)
            xs[i], xs[j] = xs[j], xs[i]
        return xs

    def sample(self, xs, k):
        return self.shuffle(xs)[:k]


# ---------------------------------------------------------------- Coq side
def coq_str(s):
    """Python str -> Coq term of type list N (code points)."""
    return "[" + ";".join("%d" % ord(c) for c in s) + "]%N"


def coq_list(items):
    return "[" + "; ".join(items) + "]"


def coq_bool(b):
    return "true" if b else "false"


def coq_opt(x):
    return "None" if x is None else "(Some %s)" % x


def canon_text(s):
    """Canonical printable form of a text, mirrored by Core/Show.v show_str."""
    out = []
    for c in s:
        o = ord(c)
        if 32 <= o < 127 and c not in '\\"':
            out.append(c)
        else:
            out.append("\\%d;" % o)
    return "".join(out)


def _project_files():
    files = []
    for d in ("Core", "Gen", "Model", "Proofs", "Props"):
        p = os.path.join(COQ, d)
        if os.path.isdir(p):
            for f in sorted(os.listdir(p)):
                if f.endswith(".v"):
                    files.append("%s/%s" % (d, f))
    return files


def coq_refresh_makefile():
    files = _project_files()
    text = "-Q . TxV\n-arg -w -arg -notation-overridden,-deprecated-hint-without-locality,-deprecated-instance-without-locality\n" + "\n".join(files) + "\n"
    changed = write_if_changed(os.path.join(COQ, "_CoqProject"), text)
    if changed or not os.path.exists(os.path.join(COQ, "Makefile.coq")):
        rc, out = sh("coq_makefile -f _CoqProject -o Makefile.coq", cwd=COQ)
        if rc != 0:
            raise RuntimeError("coq_makefile failed: " + out)


def coq_make(targets, timeout=1500, jobs=None):
    """Full .vo build of the given targets (relative to coq/). Returns (ok, log)."""
    with Lock("coq"):
        coq_refresh_makefile()
        cmd = "timeout %d make -f Makefile.coq -j%d %s 2>&1" % (timeout, jobs or NPROC, " ".join(targets))
        rc, out = sh(cmd, cwd=COQ, timeout=timeout + 30)
    return rc == 0, out


THM_RE = re.compile(r"^\s*(?:Theorem|Lemma|Corollary|Example|Fact|Proposition)\s+([A-Za-z0-9_']+)", re.M)


def coq_props(pid, timeout=600):
    """make Props/<pid>.vo's dependencies, then always recompile Props/<pid>.v itself and
    parse its Print Assumptions output.  Returns dict(ok, log, theorems, assumptions, failed)."""
    target = "Props/%s.vo" % pid
    src = os.path.join(COQ, "Props", pid + ".v")
    res = {"ok": False, "log": "", "theorems": [], "assumptions": {}, "failed": None}
    if not os.path.exists(src):
        res["log"] = "missing " + src
        res["failed"] = target
        return res
    ok, log = coq_make([target], timeout=timeout)
    res["log"] = log
    if not ok:
        m = re.search(r'File "\./([^"]+)", line (\d+)', log)
        res["failed"] = (m.group(1) + ":" + m.group(2)) if m else target
        res["error"] = log[-3000:]
        return res
    with Lock("coq"):
        rc, out = sh("timeout %d coqc -q -Q . TxV -w -notation-overridden Props/%s.v 2>&1" % (timeout, pid),
                     cwd=COQ, timeout=timeout + 30)
    res["log"] += out
    if rc != 0:
        res["failed"] = target
        res["error"] = out[-3000:]
        return res
    text = open(src).read()
    thms = THM_RE.findall(text)
    res["theorems"] = thms
    # Print Assumptions output blocks, in order of appearance
    blocks = re.split(r"(?=Closed under the global context|Axioms:)", out)
    results = [b for b in blocks if b.startswith("Closed under") or b.startswith("Axioms:")]
    printed = re.findall(r"Print Assumptions\s+([A-Za-z0-9_']+)", text)
    bad = []
    for i, name in enumerate(printed):
        if i >= len(results):
            bad.append((name, "no Print Assumptions output"))
            continue
        b = results[i]
        if b.startswith("Closed under"):
            res["assumptions"][name] = []
        else:
            axs = re.findall(r"^([A-Za-z0-9_.']+)\s*:", b[len("Axioms:"):], re.M)
            res["assumptions"][name] = axs
            extra = [a for a in axs if a not in ALLOWED_AXIOMS]
            if extra:
                bad.append((name, "axioms: " + ",".join(extra)))
    missing = [t for t in thms if t not in printed]
    for t in missing:
        bad.append((t, "theorem without Print Assumptions"))
    if bad:
        res["failed"] = "; ".join("%s (%s)" % b for b in bad)
        res["error"] = res["failed"]
        return res
    res["ok"] = True
    return res


EVAL_RE = re.compile(r"^\s+= (.*)$")


def _unquote_coq(s):
    s = s.strip()
    if s.startswith('"') and s.endswith('"'):
        return s[1:-1].replace('""', '"')
    if s.endswith("%string"):
        return _unquote_coq(s[: -len("%string")])
    return s


def _parse_coq_string_list(out):
    """Parse the `= ["a"; "b"]` printed by Eval for a list of strings."""
    k = out.find("= [")
    if k < 0:
        if re.search(r"=\s*\[\s*\]", out):
            return []
        return None
    i = k + 3
    vals = []
    n = len(out)
    while i < n:
        c = out[i]
        if c == '"':
            i += 1
            buf = []
            while i < n:
                if out[i] == '"':
                    if i + 1 < n and out[i + 1] == '"':
                        buf.append('"')
                        i += 2
                        continue
                    i += 1
                    break
                buf.append(out[i])
                i += 1
            vals.append("".join(buf))
        elif c == "]":
            break
        else:
            i += 1
    return vals


def coq_eval(tag, imports, exprs, shard=None, timeout=900, defs=""):
    """Evaluate Coq expressions of type string with vm_compute (one Eval per shard over the
    list of all its expressions); returns (list of Python str or None, list of error texts)."""
    if not exprs:
        return [], []
    mods = sorted(set(re.findall(r"\b((?:Core|Gen|Model|Proofs|Props)\.[A-Za-z0-9_]+)", imports)))
    if mods:
        ok, log = coq_make([m.replace(".", "/") + ".vo" for m in mods])
        if not ok:
            return [None] * len(exprs), ["model does not build: " + log[-1500:]]
    d = os.path.join(BUILD, "cases", tag + "_%d" % os.getpid())
    shutil.rmtree(d, ignore_errors=True)
    os.makedirs(d)
    per = max(1, min(shard or 400, -(-len(exprs) // NPROC)))
    shards = [exprs[i:i + per] for i in range(0, len(exprs), per)]
    names = []
    for k, sh_exprs in enumerate(shards):
        name = "cases_%s_%d" % (re.sub(r"\W", "_", tag), k)
        lines = [imports, "Set Printing Width 2000000000.", "Set Printing Depth 2000000000.", defs,
                 "Definition the_cases : list string := ["]
        lines.append(";\n".join("(%s)" % e for e in sh_exprs))
        lines.append("]%list.")
        lines.append("Eval vm_compute in the_cases.")
        with open(os.path.join(d, name + ".v"), "w") as f:
            f.write("\n".join(lines) + "\n")
        names.append(name)
    pending = list(enumerate(names))
    running = []
    outs = {}
    while pending or running:
        while pending and len(running) < NPROC:
            k, name = pending.pop(0)
            p = subprocess.Popen("ulimit -s unlimited 2>/dev/null; timeout %d coqc -q -Q %s TxV -w -notation-overridden %s.v" % (timeout, COQ, name),
                                 shell=True, cwd=d, stdout=subprocess.PIPE, stderr=subprocess.STDOUT, text=True, errors="replace")
            running.append((k, p))
        k, p = running.pop(0)
        out, _ = p.communicate()
        outs[k] = (p.returncode, out)
    errors = []
    results = []
    for k, sh_exprs in enumerate(shards):
        rc, out = outs[k]
        vals = _parse_coq_string_list(out) if rc == 0 else None
        if vals is None or len(vals) != len(sh_exprs):
            errors.append("shard %d rc=%s got %s/%d: %s" % (k, rc, None if vals is None else len(vals), len(sh_exprs), out[-1500:]))
            vals = [None] * len(sh_exprs)
        results.extend(vals)
    shutil.rmtree(d, ignore_errors=True)
    return results, errors


# ---------------------------------------------------------------- implementation side
def impl_env():
    env = dict(os.environ)
    env["PYTHONPATH"] = REPO
    env["PYTHONHASHSEED"] = "0"
    env["PYTHONDONTWRITEBYTECODE"] = "1"
    env.pop("TEXTX_VERIF", None)
    return env


def run_impl(script, payload, timeout=900, cwd=None):
    """Run tools/impl/<script>.py with the payload as JSON on stdin; returns parsed JSON."""
    path = os.path.join(VERIF, "tools", "impl", script + ".py")
    p = subprocess.run([PY, "-B", path], input=json.dumps(payload), env=impl_env(), cwd=cwd or tempfile.gettempdir(),
                       stdout=subprocess.PIPE, stderr=subprocess.PIPE, text=True, timeout=timeout)
    if p.returncode != 0:
        raise RuntimeError("impl runner %s failed rc=%d\n%s" % (script, p.returncode, p.stderr[-3000:]))
    return json.loads(p.stdout)


def run_impl_parallel(script, payloads, timeout=900):
    """Run several runner processes concurrently; returns list of parsed JSON."""
    path = os.path.join(VERIF, "tools", "impl", script + ".py")
    procs = []
    for pl in payloads:
        p = subprocess.Popen([PY, "-B", path], stdin=subprocess.PIPE, stdout=subprocess.PIPE, stderr=subprocess.PIPE,
                             env=impl_env(), cwd=tempfile.gettempdir(), text=True)
        procs.append((p, json.dumps(pl)))
    outs = []
    for p, data in procs:
        try:
            o, e = p.communicate(data, timeout=timeout)
        except subprocess.TimeoutExpired:
            p.kill()
            raise
        if p.returncode != 0:
            raise RuntimeError("impl runner %s failed rc=%d\n%s" % (script, p.returncode, e[-3000:]))
        outs.append(json.loads(o))
    return outs


# ---------------------------------------------------------------- known findings
def known_findings(pid):
    """KNOWN_FINDINGS.txt: 'finding: property=CNN id=<slug> classifier=<name> witness=<path> :: text'
    and 'fixed: property=CNN <commit> <text>' (fixed lines suppress nothing)."""
    res = []
    paths = [os.path.join(VERIF, "KNOWN_FINDINGS.txt")]
    fd = os.path.join(VERIF, "findings.d")   # committed per-property parts of the same list
    if os.path.isdir(fd):
        paths += [os.path.join(fd, f) for f in sorted(os.listdir(fd)) if f.endswith(".txt")]
    lines = []
    for path in paths:
        if os.path.exists(path):
            lines += open(path).read().splitlines()
    for line in lines:
        line = line.strip()
        if not line.startswith("finding:"):
            continue
        head, _, text = line[len("finding:"):].partition("::")
        kv = dict(x.split("=", 1) for x in head.split() if "=" in x)
        if kv.get("property") == pid:
            kv["text"] = text.strip()
            res.append(kv)
    return res


# ---------------------------------------------------------------- check context
class Check:
    def __init__(self, pid, tier, seed):
        self.pid = pid
        self.tier = tier
        self.seed = seed
        self.rng = Rng(seed, pid)
        self.t0 = time.time()
        self.outdir = os.path.join(OUT, pid)
        shutil.rmtree(self.outdir, ignore_errors=True)
        os.makedirs(self.outdir, exist_ok=True)
        self.violations = []       # (replay path, no_input)
        self.known_hits = {}       # finding id -> text
        self.findings = known_findings(pid)
        self.cov = {"evaluations": 0, "distinct_nontrivial": 0, "rule": "", "samples": [],
                    "obligations": 0, "discharged": 0, "checker_cmd": "", "trusted_base": [],
                    "disagreements_checked": 0}
        self.assumptions = []
        self._seen = set()
        self.nviol = 0
        self.notes = []
        self.proof_ok = None
        self.proof_info = None

    thorough = property(lambda self: self.tier == "thorough")

    # -- coverage bookkeeping
    def count(self, case_key, nontrivial=True):
        self.cov["evaluations"] += 1
        if nontrivial:
            h = hashlib.sha1(repr(case_key).encode()).digest()[:10]
            if h not in self._seen:
                self._seen.add(h)
                self.cov["distinct_nontrivial"] += 1

    def sample(self, x, limit=4):
        if len(self.cov["samples"]) < limit:
            self.cov["samples"].append(x)

    def stat(self, key, inc=1):
        d = self.cov.setdefault("distribution", {})
        d[key] = d.get(key, 0) + inc

    # -- proving
    def prove(self, translators=()):
        """Run translators (callables returning list of error strings) and build Props/<pid>.vo."""
        terrs = []
        for t in translators:
            try:
                e = t()
                if e:
                    terrs.extend(e)
            except Exception as ex:  # fail closed
                terrs.append("%s: %s: %s" % (getattr(t, "__name__", "translator"), type(ex).__name__, ex))
        info = coq_props(self.pid)
        self.proof_info = info
        n_thm = len(info.get("theorems", []))
        self.cov["obligations"] = max(n_thm, 1)
        self.cov["discharged"] = n_thm if info["ok"] else 0
        self.cov["checker_cmd"] = "make -f Makefile.coq Props/%s.vo && coqc -Q . TxV Props/%s.v (coq 8.16.1, full .vo build, Print Assumptions parsed)" % (self.pid, self.pid)
        self.cov["theorems"] = info.get("theorems", [])
        axs = sorted({a for v in info.get("assumptions", {}).values() for a in v})
        self.cov["trusted_base"] = ["Coq 8.16.1 kernel (coqc, vm_compute)"] + (["axioms: " + ", ".join(axs)] if axs else ["Print Assumptions: Closed under the global context for every theorem of Props/%s.v" % self.pid])
        self.translator_errors = terrs
        self.proof_ok = info["ok"] and not terrs
        if terrs:
            self.cov["translator_errors"] = terrs
        return self.proof_ok

    def proof_failure_text(self):
        parts = []
        if getattr(self, "translator_errors", None):
            parts.append("translator-failed: " + "; ".join(self.translator_errors))
        if self.proof_info and not self.proof_info["ok"]:
            parts.append("obligation failed at %s: %s" % (self.proof_info.get("failed"), (self.proof_info.get("error") or "")[-1500:]))
        return " | ".join(parts)

    # -- verdicts
    def replay_path(self, name):
        return os.path.join(self.outdir, name)

    def violation(self, replay, no_input=False, name=None):
        self.nviol += 1
        name = name or ("%s_%d.json" % ("unproved" if no_input else "fail", self.nviol))
        path = self.replay_path(name)
        replay = dict(replay)
        replay.setdefault("property", self.pid)
        replay.setdefault("seed", self.seed)
        with open(path, "w") as f:
            json.dump(replay, f, indent=1, default=str)
        self.violations.append((path, no_input))

    def attribute(self, case_tags):
        """Return the known finding whose classifier is among case_tags, else None."""
        for f in self.findings:
            if f.get("classifier") in case_tags:
                self.known_hits[f["id"]] = f
                return f
        return None

    def finish(self):
        wall = time.time() - self.t0
        for fid, f in sorted(self.known_hits.items()):
            print("KNOWN-FINDING: property=%s %s (%s)" % (self.pid, f["text"], fid))
        self.cov["known_findings_reproduced"] = sorted(self.known_hits)
        if not self.cov.get("discharged"):
            # schema: a proof-level file needs discharged >= 1; a failed run records the failure instead
            self.cov["discharged_none"] = True
            self.cov.pop("discharged", None)
        ev = {
            "property_id": self.pid, "tier": self.tier, "seed": self.seed, "level": "proof",
            "coverage": self.cov, "assumptions": self.assumptions, "wall_s": round(wall, 2),
            "violations": len(self.violations),
        }
        if self.notes:
            ev["coverage"]["notes"] = self.notes
        os.makedirs(os.path.join(VERIF, "evidence"), exist_ok=True)
        path = os.path.join(VERIF, "evidence", self.pid + ".json")
        tmp = path + ".tmp"
        with open(tmp, "w") as f:
            json.dump(ev, f, indent=1, default=str)
        os.replace(tmp, path)
        seen = set()
        for path, no_input in self.violations[:5]:
            rel = os.path.relpath(path, VERIF)
            print("VIOLATION property=%s replay=%s%s" % (self.pid, rel, " no-failing-input-found" if no_input else ""))
        print("%s %s tier=%s seed=%s obligations=%d/%d evaluations=%d distinct=%d wall=%.1fs" % (
            "FAIL" if self.violations else "OK", self.pid, self.tier, self.seed,
            self.cov.get("discharged", 0), self.cov["obligations"], self.cov["evaluations"],
            self.cov["distinct_nontrivial"], wall))
        return 1 if self.violations else 0
