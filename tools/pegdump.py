"""pegdump: walk a LIVE textX model parser and emit it as a Coq term of Model/PegSyntax.v.

This is the per-case "translator" of the PEG core: the parser model that `$TEXTX_REPO` builds for
a grammar text + metamodel options (`metamodel._parser_blueprint.parser_model` and
`.comments_model`) is dumped node by node (fail closed on anything it does not recognise), so the
grammar compiler itself is not modelled.  Regular expressions are not interpreted in Coq: for a
concrete input `oracle_table` computes, with Python's own `re`, the matched length of every
regex terminal (and of every ignore_case StrMatch) at every position.

Must run with PYTHONPATH=$TEXTX_REPO (it imports arpeggio/textx of the tree under test).
stdlib + the tree under test only.

    python tools/pegdump.py GRAMMAR.tx [--input FILE] [--memo] [-o key=value ...]

API (used by tools/impl/*.py runners and tools/props/*.py checks):
    dump_parser(parser)          -> Dump (nodes, top, comments, config, oracles, cache_alias)
    dump_metamodel(mm)           -> Dump of mm._parser_blueprint
    Dump.coq_grammar()/coq_config()/to_json()
    Dump.oracle_table(text)      -> [[oid, pos, len], ...]
    canon_tree(dump, node)       -> canonical text of an arpeggio parse tree (= PegShow.show_res)
    parse_outcome(dump, parser, text) -> canonical outcome "P:<tree>" | "E:<pos>" | "X:<exc>"
    from_json / coq_* helpers     -> rebuild Coq text on the checker side (no textX needed)
"""
import json
import sys


class Unsupported(Exception):
    pass


KINDS = ["KSeq", "KChoice", "KOpt", "KStar", "KPlus", "KUnord", "KAnd", "KNot", "KEmpty", "KEOF", "KStr", "KRegex"]


def _kind_of(n):
    import arpeggio as A
    t = type(n)
    table = {A.Sequence: "KSeq", A.OrderedChoice: "KChoice", A.Optional: "KOpt", A.ZeroOrMore: "KStar",
             A.OneOrMore: "KPlus", A.UnorderedGroup: "KUnord", A.And: "KAnd", A.Not: "KNot", A.Empty: "KEmpty",
             A.EndOfFile: "KEOF", A.StrMatch: "KStr", A.RegExMatch: "KRegex"}
    if t not in table:
        raise Unsupported("parsing expression of type %s.%s" % (t.__module__, t.__name__))
    return table[t]


class Dump:
    """nodes: list of dict(kind, kids, sep, eolterm, rule, root, suppress, ws, skipws, text, oid)"""

    def __init__(self):
        self.nodes = []
        self.top = None
        self.comments = None
        self.skipws = True
        self.ws = "\t\n\r "
        self.memoization = False
        self.idmap = {}          # id(python node) -> nid   (only on the dumping side)
        self.objs = []           # python nodes by nid       (only on the dumping side)
        self.oracles = []        # oid -> ("re", pattern, flags) | ("istr", text)
        self._regex = []         # oid -> compiled regex or None (dumping side)
        self.cache_alias = []    # groups of memoizable node ids whose arpeggio _result_cache is ONE dict
                                 # object (the Coq model gives every node its own cache; must be empty)

    # ---------------------------------------------------------------- walking
    def _walk(self, n):
        if id(n) in self.idmap:
            return self.idmap[id(n)]
        kind = _kind_of(n)
        nid = len(self.nodes)
        self.idmap[id(n)] = nid
        d = {"kind": kind, "kids": [], "sep": None, "eolterm": False, "rule": n.rule_name or "",
             "root": bool(n.root), "suppress": bool(n.suppress), "ws": None, "skipws": None,
             "text": None, "oid": None}
        self.nodes.append(d)
        self.objs.append(n)
        if not isinstance(n.rule_name, str):
            raise Unsupported("rule_name is not a string")
        if kind in ("KSeq", "KChoice"):
            ws = getattr(n, "ws", None)
            sk = getattr(n, "skipws", None)
            if ws is not None and not isinstance(ws, str):
                raise Unsupported("rule-level ws is not a string")
            if sk is not None and not isinstance(sk, bool):
                raise Unsupported("rule-level skipws is not a bool")
            d["ws"], d["skipws"] = ws, sk
        if kind in ("KStar", "KPlus", "KUnord", "KOpt"):
            d["eolterm"] = bool(getattr(n, "eolterm", False))
            sep = getattr(n, "sep", None)
        else:
            sep = None
        if kind == "KStr":
            if not isinstance(n.to_match, str):
                raise Unsupported("StrMatch.to_match is not a string")
            d["text"] = n.to_match
            if n.ignore_case:
                d["oid"] = len(self.oracles)
                self.oracles.append(["istr", n.to_match])
                self._regex.append(None)
        elif kind == "KRegex":
            rx = getattr(n, "regex", None)
            if rx is None:
                raise Unsupported("RegExMatch not compiled")
            d["oid"] = len(self.oracles)
            self.oracles.append(["re", rx.pattern, int(rx.flags)])
            self._regex.append(rx)
            d["text"] = n.to_match
        kids = list(n.nodes) if kind not in ("KStr", "KRegex", "KEOF") else []
        if kind == "KUnord":
            # list.remove() in UnorderedGroup._parse compares with ==, and StrMatch.__eq__ compares texts:
            # two members that compare equal would make `remove` drop the wrong one. Not modelled: refuse.
            for i, a in enumerate(kids):
                for b in kids[i + 1:]:
                    try:
                        eq = (a == b) or (b == a)
                    except Exception:
                        eq = True
                    if eq:
                        raise Unsupported("unordered group with members that compare equal")
        d["kids"] = [self._walk(c) for c in kids]
        if sep is not None:
            d["sep"] = self._walk(sep)
        if kind in ("KOpt", "KStar", "KPlus") and len(d["kids"]) < 1:
            raise Unsupported("repetition without element")
        return nid

    # ---------------------------------------------------------------- oracle
    def oracle_table(self, text):
        import re
        tbl = []
        n = len(text)
        for oid, o in enumerate(self.oracles):
            if o[0] == "re":
                rx = self._regex[oid] if oid < len(self._regex) and self._regex[oid] is not None else re.compile(o[1], o[2])
                for p in range(n + 1):
                    m = rx.match(text, p)
                    if m:
                        tbl.append([oid, p, len(m.group())])
            else:
                t = o[1]
                for p in range(n + 1):
                    if text[p:p + len(t)].lower() == t.lower():
                        tbl.append([oid, p, len(t)])
        return tbl

    # ---------------------------------------------------------------- output
    def to_json(self):
        return {"nodes": self.nodes, "top": self.top, "comments": self.comments, "skipws": self.skipws,
                "ws": self.ws, "memoization": self.memoization, "oracles": self.oracles,
                "cache_alias": self.cache_alias}

    def coq_grammar(self):
        return coq_grammar(self.to_json())

    def coq_config(self):
        return coq_config(self.to_json())


def from_json(j):
    d = Dump()
    d.nodes, d.top, d.comments = j["nodes"], j["top"], j["comments"]
    d.skipws, d.ws, d.memoization, d.oracles = j["skipws"], j["ws"], j.get("memoization", False), j["oracles"]
    d._regex = [None] * len(d.oracles)
    d.cache_alias = j.get("cache_alias", [])
    return d


def dump_parser(parser):
    d = Dump()
    d.top = d._walk(parser.parser_model)
    cm = getattr(parser, "comments_model", None)
    d.comments = d._walk(cm) if cm is not None else None
    if not isinstance(parser.skipws, bool) or not isinstance(parser.ws, str):
        raise Unsupported("parser skipws/ws of unexpected type")
    if getattr(parser, "_eolterm", False) or parser._real_ws != parser._ws:
        raise Unsupported("parser not in its initial whitespace state")
    if getattr(parser, "reduce_tree", False) or getattr(parser, "in_lex_rule", False):
        raise Unsupported("reduce_tree / lexical rules are not modelled")
    d.skipws, d.ws = parser.skipws, parser.ws
    d.memoization = bool(parser.memoization)
    # packrat caches: the model keys the cache by (node id, position), i.e. one table per node.
    # Two distinct memoizable expressions sharing one _result_cache dict (e.g. a shallow copy of an
    # expression) would read each other's entries; record it so that the checks can report it.
    by_cache = {}
    for nid, n in enumerate(d.objs):
        if d.nodes[nid]["kind"] in ("KStr", "KRegex", "KEOF"):
            continue
        c = getattr(n, "_result_cache", None)
        if not isinstance(c, dict):
            raise Unsupported("expression without a _result_cache dict")
        by_cache.setdefault(id(c), []).append(nid)
    d.cache_alias = sorted(g for g in by_cache.values() if len(g) > 1)
    return d


def dump_metamodel(mm):
    return dump_parser(mm._parser_blueprint)


# ---------------------------------------------------------------- Coq text (checker side, pure)
def coq_str(s):
    return "[" + ";".join("%d" % ord(c) for c in s) + "]%N"


def coq_nats(xs):
    return "[" + ";".join("%d" % x for x in xs) + "]"


def coq_node(d):
    if d["kind"] == "KStr":
        kind = "(KStr %s %s)" % (coq_str(d["text"]), "None" if d["oid"] is None else "(Some %d)" % d["oid"])
    elif d["kind"] == "KRegex":
        kind = "(KRegex %d)" % d["oid"]
    else:
        kind = d["kind"]
    return "mkNode %s %s %s %s %s %s %s %s %s" % (
        kind, coq_nats(d["kids"]), "None" if d["sep"] is None else "(Some %d)" % d["sep"],
        "true" if d["eolterm"] else "false", coq_str(d["rule"]), "true" if d["root"] else "false",
        "true" if d["suppress"] else "false", "None" if d["ws"] is None else "(Some %s)" % coq_str(d["ws"]),
        "None" if d["skipws"] is None else "(Some %s)" % ("true" if d["skipws"] else "false"))


def coq_grammar(j):
    return "(mkGrammar [%s] %d %s)" % (";\n  ".join(coq_node(d) for d in j["nodes"]), j["top"],
                                      "None" if j["comments"] is None else "(Some %d)" % j["comments"])


def coq_config(j):
    return "(mkConfig %s %s)" % ("true" if j["skipws"] else "false", coq_str(j["ws"]))


def coq_table(tbl):
    if not tbl:
        return "(@nil ((nat * nat) * nat))"
    return "[" + ";".join("((%d,%d),%d)" % (o, p, l) for o, p, l in tbl) + "]"


# ---------------------------------------------------------------- canonical parse trees (dumping side)
def canon_tree(dump, node):
    """Mirror of Model/PegShow.v show_res for arpeggio parse tree nodes (and None / lists)."""
    import arpeggio as A
    if node is None:
        return "None"
    if isinstance(node, A.NonTerminal):
        nid = dump.idmap.get(id(node.rule))
        if nid is None:
            raise Unsupported("NonTerminal of an undumped rule")
        return "n%d(%s)" % (nid, ",".join(canon_tree(dump, c) for c in node))
    if isinstance(node, A.Terminal):
        if isinstance(node.rule, A.EndOfFile):
            head = "eof"
        else:
            nid = dump.idmap.get(id(node.rule))
            if nid is None:
                raise Unsupported("Terminal of an undumped rule")
            head = "t%d" % nid
        return "%s@%d+%d%s" % (head, node.position, len(node.value), "-" if node.suppress else "")
    if isinstance(node, list):
        return "[" + ",".join(canon_tree(dump, c) for c in node) + "]"
    raise Unsupported("parse result of type %s" % type(node).__name__)


def parse_outcome(dump, parser, text):
    """Run parser.parse(text) (Arpeggio level) and canonicalise: P:<tree> | E:<pos> | X:<exception class>."""
    import arpeggio as A
    from textx.exceptions import TextXSyntaxError
    try:
        tree = parser.parse(text)
    except TextXSyntaxError as e:
        c = e.__cause__
        if isinstance(c, A.NoMatch):
            return "E:%d" % c.position
        return "X:TextXSyntaxError"
    except A.NoMatch as e:
        return "E:%d" % e.position
    except RecursionError:
        return "X:RecursionError"
    except Exception as e:  # interpreter crash (modelled as Abort 1)
        return "X:%s" % type(e).__name__
    return "P:" + canon_tree(dump, tree)


def main(argv):
    import argparse
    ap = argparse.ArgumentParser()
    ap.add_argument("grammar")
    ap.add_argument("--input")
    ap.add_argument("-o", action="append", default=[])
    ap.add_argument("--json", action="store_true")
    a = ap.parse_args(argv)
    from textx import metamodel_from_str
    opts = {}
    for kv in a.o:
        k, v = kv.split("=", 1)
        opts[k] = json.loads(v)
    mm = metamodel_from_str(open(a.grammar).read(), **opts)
    d = dump_metamodel(mm)
    if a.json:
        print(json.dumps(d.to_json(), indent=1))
    else:
        print("Definition the_grammar : grammar := %s." % d.coq_grammar())
        print("Definition the_config : config := %s." % d.coq_config())
    if a.input:
        text = open(a.input).read()
        print("Definition the_input : list N := %s." % coq_str(text))
        print("Definition the_table := %s." % coq_table(d.oracle_table(text)))
        for memo in (False, True):
            p = mm._parser_blueprint.clone()
            p.memoization = memo
            print("(* memoization=%s: %s *)" % (memo, parse_outcome(d, p, text)))


if __name__ == "__main__":
    main(sys.argv[1:])
