#!/bin/sh
# tools/merge_builder.sh <TAG>: bring a builder's branches into /verif and /repo main.
#  /verif: git merge w-TAG ; /repo: cherry-pick the branch's commits (all must be 'fix:' commits) and rewrite the
#  short hashes mentioned under findings.d design claims.d corpus to the new ones.
T="$1"; cd /verif || exit 2
git add evidence 2>/dev/null; git commit -qm "evidence of the latest runs" -- evidence 2>/dev/null
[ -z "$(git status --porcelain)" ] || { echo "/verif not clean"; exit 2; }
[ -z "$(git -C /repo status --porcelain --untracked-files=no)" ] || { echo "/repo not clean"; exit 2; }
git merge -q --no-edit -X theirs "w-$T" || { echo "verif merge conflict"; exit 3; }
for c in $(git -C /repo rev-list --reverse main.."w-$T"); do
  s=$(git -C /repo log -1 --format=%s $c)
  case "$s" in fix:*) ;; *) echo "SKIP non-fix commit $c: $s"; continue;; esac
  if git -C /repo log main --format=%s | grep -qxF "$s"; then echo "already on main: $s"; continue; fi
  if ! git -C /repo cherry-pick -x $c >/dev/null 2>&1; then echo "CONFLICT cherry-picking $c ($s) - resolve in /repo, git cherry-pick --continue, then re-run"; exit 4; fi
  o=$(git -C /repo rev-parse --short $c); n=$(git -C /repo rev-parse --short HEAD)
  echo "picked $o -> $n  $s"
  grep -rl "$o" findings.d design tools/claims.d corpus KNOWN_FINDINGS.txt 2>/dev/null | xargs -r sed -i "s/$o/$n/g"
done
/venv/bin/python tools/mkmanifest.py
git add -A; git commit -qm "merge builder $T: hashes of cherry-picked fixes, manifest" 2>/dev/null
echo merged $T
