"""textx/lang.py + textx/metamodel.py: the facts the C23 theorems depend on -> Gen/SrcFront.v

Extracted with `ast` (fail closed: an unrecognised shape raises TranslateError):
  * visit_rule_params: the accepted parameter names, the class raised for other names, the class
    raised for a bad `split`, and whether a non-string `ws` value is rejected before `"\\" in value`;
  * visit_re_match: which exception the handler around regex.compile() catches, which class it
    raises and whether the handler body subscripts `node`;
  * visit_str_match: whether UnicodeDecodeError of decode_escapes is caught and what is raised;
  * language_from_str: the NoMatch handler around parser.parse;
  * _resolve_cls: the KeyError handler around metamodel[cls.cls_name];
  * visit_repeatable_expr: whether the `#` branch guards the read of expr.nodes by isinstance(expr, RuleCrossRef);
  * _resolve_rule: whether the alias chain is tracked and a rule found in its own chain raises;
  * metamodel.py: whether TextXMetaMetaModel defines __getitem__; the names of the __base__ classes;
    BASE_TYPE_NAMES = keys of BASE_TYPE_RULES (all __base__ classes but OBJECT).
"""
import ast
from .common import parse_file, find_func, need, emit, coq_codes, TranslateError

TX = {"TextXSyntaxError": "CSyntax", "TextXSemanticError": "CSemantic", "TextXError": "CPlain",
      "TextXRegistrationError": "CRegistration"}


def raised_class(stmts):
    """the TextX class raised by the single `raise` among stmts (ignoring assignments)"""
    raises = [s for s in stmts if isinstance(s, ast.Raise)]
    need(len(raises) == 1, "expected exactly one raise")
    r = raises[0]
    need(isinstance(r.exc, ast.Call) and isinstance(r.exc.func, ast.Name) and r.exc.func.id in TX,
         "raise of an unknown class: " + ast.unparse(r)[:80])
    return TX[r.exc.func.id]


def body_safe(stmts, allowed_calls):
    """A handler body is 'safe' when it only assigns from the allowed calls / attribute reads and raises:
    no subscripts on node, no other calls."""
    for s in stmts:
        for n in ast.walk(s):
            if isinstance(n, ast.Subscript):
                return False
            if isinstance(n, ast.Call):
                f = ast.unparse(n.func)
                if f not in allowed_calls:
                    return False
    return True


def type_names(t):
    """class names an `except` clause catches (last component of dotted names: re.error -> error)"""
    need(t is not None, "bare except clause")
    elts = t.elts if isinstance(t, ast.Tuple) else [t]
    out = []
    for e in elts:
        need(isinstance(e, (ast.Name, ast.Attribute)), "unrecognised exception type: " + ast.unparse(e))
        out.append(e.id if isinstance(e, ast.Name) else e.attr)
    return out


def unsafe_exception(stmts):
    """the exception class a handler body raises by itself before reaching its raise statement, or None:
    subscripting (`node[1]` on a Terminal) -> TypeError; any other call outside SAFE_CALLS -> Exception"""
    for st in stmts:
        for n in ast.walk(st):
            if isinstance(n, ast.Subscript):
                return "TypeError"
            if isinstance(n, ast.Call) and ast.unparse(n.func) not in SAFE_CALLS:
                return "Exception"
    return None


def clause_coq(h, swallow=None):
    """one except clause -> Coq `clause`; swallow = list of statement texts of a body that does not raise"""
    names = "[%s]" % "; ".join(coq_codes(n) for n in type_names(h.type))
    if swallow is not None and [ast.unparse(x) for x in h.body] == swallow:
        return "{| cl_types := %s; cl_action := ASwallow |}" % names
    u = unsafe_exception(h.body)
    return "{| cl_types := %s; cl_action := ARaise %s %s |}" % (names, "None" if u is None else "(Some %s)" % coq_codes(u), raised_class(h.body))


def clauses_coq(handlers, swallow=None):
    return "[%s]" % "; ".join(clause_coq(h, swallow) for h in handlers)


SAFE_CALLS = {"self.grammar_parser.pos_to_linecol", "grammar_parser.pos_to_linecol", "TextXSyntaxError", "TextXSemanticError",
              "str", "e.eval_attrs"}


def try_of(fn, what):
    ts = [n for n in ast.walk(fn) if isinstance(n, ast.Try)]
    need(len(ts) == 1, "%s: expected one try statement, found %d" % (what, len(ts)))
    return ts[0]


def translate():
    tree, _ = parse_file("textx/lang.py")
    # ---- visit_rule_params
    fn = find_func(tree, "visit_rule_params", "TextXVisitor")
    loops = [n for n in fn.body if isinstance(n, ast.For)]
    need(len(loops) == 1 and ast.unparse(loops[0].target) == "(name, value)" and ast.unparse(loops[0].iter) == "children",
         "visit_rule_params loop changed")
    body = loops[0].body
    need(isinstance(body[0], ast.If) and isinstance(body[0].test, ast.Compare) and ast.unparse(body[0].test.left) == "name"
         and isinstance(body[0].test.ops[0], ast.NotIn) and isinstance(body[0].test.comparators[0], ast.List),
         "parameter name test changed")
    names = [e.value for e in body[0].test.comparators[0].elts]
    need(all(isinstance(x, str) for x in names), "parameter names are not strings")
    param_cls = raised_class(body[0].body)
    need(not body[0].orelse, "parameter name test has an else")
    i = 1
    split_cls = None
    want = ["name == 'split' and (not isinstance(value, str))", "name == 'split' and len(value) == 0"]
    for w in want:
        need(isinstance(body[i], ast.If) and ast.unparse(body[i].test) == w and not body[i].orelse, "split check changed: " + w)
        c = raised_class(body[i].body)
        need(split_cls in (None, c), "split checks raise different classes")
        split_cls = c
        i += 1
    ws_guard = "None"
    if isinstance(body[i], ast.If) and ast.unparse(body[i].test) == "name == 'ws' and (not isinstance(value, str))":
        need(not body[i].orelse and isinstance(body[i].body[-1], ast.Raise), "ws guard does not raise")
        ws_guard = "(Some %s)" % raised_class(body[i].body)
        i += 1
    need(isinstance(body[i], ast.If) and ast.unparse(body[i].test) == "name == 'ws' and '\\\\' in value", "ws escape handling changed: " + ast.unparse(body[i].test))
    need(ast.unparse(body[i + 1]) == "params[name] = value" and len(body) == i + 2, "visit_rule_params tail changed")
    # ---- visit_re_match
    fn = find_func(tree, "visit_re_match", "TextXVisitor")
    t = try_of(fn, "visit_re_match")
    need(len(t.body) == 1 and ast.unparse(t.body[0]) == "regex.compile()" and len(t.handlers) == 1 and not t.orelse and not t.finalbody,
         "visit_re_match try changed")
    h = t.handlers[0]
    re_clauses = clauses_coq(t.handlers)
    # ---- visit_str_match
    fn = find_func(tree, "visit_str_match", "TextXVisitor")
    t = [n for n in fn.body if isinstance(n, ast.Try)]
    need(len(t) == 1, "visit_str_match try changed")
    t = t[0]
    need("decode_escapes(to_match)" in ast.unparse(t.body) and not t.orelse and not t.finalbody, "visit_str_match try body changed")
    types = [ast.unparse(h.type) for h in t.handlers]
    need("IndexError" in types and ast.unparse(t.handlers[types.index("IndexError")].body) == "to_match = ''", "IndexError handler changed")
    str_clauses = clauses_coq(t.handlers, swallow=["to_match = ''"])
    # decode_escapes only calls codecs.decode(..., 'unicode-escape')
    fn = find_func(tree, "decode_escapes")
    need("codecs.decode(match.group(0), 'unicode-escape')" in ast.unparse(fn), "decode_escapes changed")
    # ---- language_from_str
    fn = find_func(tree, "language_from_str")
    t = try_of(fn, "language_from_str")
    need(len(t.body) == 1 and ast.unparse(t.body[0]) == "parse_tree = parser.parse(language_def, file_name)", "parse call changed")
    nomatch_clauses = clauses_coq(t.handlers)
    src = ast.unparse(fn)
    need("visit_parse_tree(parse_tree, TextXVisitor(parser, metamodel))" in src, "visitor call changed")
    # ---- _resolve_cls
    fn = find_func(tree, "_resolve_cls")
    t = try_of(fn, "_resolve_cls")
    need(len(t.body) == 1 and ast.unparse(t.body[0]) == "cls = metamodel[cls.cls_name]", "class lookup changed")
    keyerror_clauses = clauses_coq(t.handlers)
    # ---- visit_repeatable_expr: the `#` branch
    fn = find_func(tree, "visit_repeatable_expr", "TextXVisitor")
    ugs = [n for n in ast.walk(fn) if isinstance(n, ast.Assign) and ast.unparse(n.value).startswith("UnorderedGroup(")]
    need(1 <= len(ugs) <= 2, "UnorderedGroup construction changed")
    reads_nodes = [n for n in ugs if ast.unparse(n.value) == "UnorderedGroup(nodes=expr.nodes)"]
    need(len(reads_nodes) == 1, "UnorderedGroup(nodes=expr.nodes) not found")
    ug_guard = False
    for n in ast.walk(fn):
        if isinstance(n, ast.If) and ast.unparse(n.test) == "isinstance(expr, RuleCrossRef)":
            # the read of expr.nodes must be on the else side only
            inside = [m for s in n.body for m in ast.walk(s)]
            need(reads_nodes[0] not in inside, "expr.nodes read under the RuleCrossRef test")
            need(any(reads_nodes[0] in list(ast.walk(s)) for s in n.orelse), "expr.nodes read is not in the else branch of the RuleCrossRef test")
            need(len(n.body) == 1 and ast.unparse(n.body[0]) == "rule = UnorderedGroup(nodes=[expr])", "RuleCrossRef branch changed")
            ug_guard = True
    need(ug_guard or len(ugs) == 1, "unrecognised UnorderedGroup branches")
    # ---- _resolve_rule: alias chain
    fn = find_func(tree, "_resolve_rule")
    args = [a.arg for a in fn.args.args]
    rec = [n for n in ast.walk(fn) if isinstance(n, ast.Call) and ast.unparse(n.func) == "_resolve_rule"]
    alias_guard = "None"
    if args == ["rule"]:
        need(all(len(c.args) == 1 for c in rec), "_resolve_rule calls changed")
    else:
        need(args == ["rule", "alias_chain"] and ast.unparse(fn.args.defaults[0]) == "()", "_resolve_rule signature changed")
        alias_calls = [c for c in rec if len(c.args) == 2]
        need(len(alias_calls) == 1 and ast.unparse(alias_calls[0].args[1]) == "(*alias_chain, rule_name)", "alias chain is not extended by the rule name")
        need(all(len(c.args) in (1, 2) and not c.keywords for c in rec), "_resolve_rule calls changed")
        # the guard: `if rule_name in alias_chain: raise ...` immediately before the alias call, in the same block
        found = False
        for n in ast.walk(fn):
            if isinstance(n, ast.If) and ast.unparse(n.test) == "isinstance(rule, RuleCrossRef)":
                b = n.body
                for k, s in enumerate(b):
                    if isinstance(s, ast.If) and ast.unparse(s.test) == "rule_name in alias_chain" and not s.orelse and isinstance(s.body[-1], ast.Raise):
                        later = [m for s2 in b[k + 1:] for m in ast.walk(s2)]
                        earlier = [m for s2 in b[:k] for m in ast.walk(s2)]
                        if alias_calls[0] in later and alias_calls[0] not in earlier:
                            need(body_safe(s.body, SAFE_CALLS), "alias guard body is not safe")
                            alias_guard = "(Some %s)" % raised_class(s.body)
                            found = True
        need(found, "alias chain passed but never tested")
    # the unexisting-rule error
    need("raise TextXSemanticError(f'Unexisting rule" in ast.unparse(fn), "unexisting rule error changed")
    # ---- metamodel.py
    mtree, _ = parse_file("textx/metamodel.py")
    mmm = [n for n in ast.walk(mtree) if isinstance(n, ast.ClassDef) and n.name == "TextXMetaMetaModel"]
    need(len(mmm) == 1, "TextXMetaMetaModel not found")
    gi = [s for s in mmm[0].body if isinstance(s, ast.FunctionDef) and s.name == "__getitem__"]
    mmm_getitem = False
    if gi:
        need(ast.unparse(gi[0].body[-1]) == "return self.metamodel[name]", "TextXMetaMetaModel.__getitem__ changed")
        mmm_getitem = True
    init = find_func(mtree, "__init__", "TextXMetaModel")
    base = []
    seen_enter = False
    for s in init.body:
        u = ast.unparse(s)
        if u == "self._enter_namespace('__base__')":
            seen_enter = True
        elif seen_enter and u == "self._leave_namespace()":
            break
        elif seen_enter:
            calls = [n for n in ast.walk(s) if isinstance(n, ast.Call) and ast.unparse(n.func) == "self._new_class"]
            need(len(calls) == 1 and isinstance(calls[0].args[0], ast.Constant), "__base__ class creation changed: " + u[:60])
            base.append(calls[0].args[0].value)
    need(base and "OBJECT" in base, "__base__ classes not found")
    # BASE_TYPE_NAMES = every __base__ class except OBJECT
    btr = [n for n in tree.body if isinstance(n, ast.Assign) and ast.unparse(n.targets[0]) == "BASE_TYPE_RULES"]
    need(len(btr) == 1 and isinstance(btr[0].value, ast.DictComp), "BASE_TYPE_RULES changed")
    bt_names = [e.id for e in btr[0].value.generators[0].iter.elts]
    need(sorted(bt_names) == sorted(x for x in base if x != "OBJECT"), "BASE_TYPE_NAMES differ from the __base__ classes without OBJECT")
    need(any(ast.unparse(n) == "BASE_TYPE_NAMES = list(BASE_TYPE_RULES.keys())" for n in tree.body), "BASE_TYPE_NAMES changed")
    # ---- TextXMetaModel.__contains__ / __getitem__
    ct = find_func(mtree, "__contains__", "TextXMetaModel")
    body = [x for x in ct.body if not (isinstance(x, ast.Expr) and isinstance(x.value, ast.Constant))]
    if len(body) == 1 and isinstance(body[0], ast.Try):
        t = body[0]
        need([ast.unparse(x) for x in t.body] == ["self[name]", "return True"] and not t.orelse and not t.finalbody,
             "TextXMetaModel.__contains__ changed")
        contains_clauses = clauses_coq(t.handlers, swallow=["return False"])
    else:
        # no try statement at all: whatever the lookup raises leaves `rule_name in metamodel`
        need(not any(isinstance(n, ast.Try) for n in ast.walk(ct)), "TextXMetaModel.__contains__: unrecognised try statement")
        contains_clauses = "[]"
    gi = find_func(mtree, "__getitem__", "TextXMetaModel")
    src = ast.unparse(gi)
    for w in ["namespace, name = name.rsplit('.', 1)", "if namespace in self.referenced_languages:",
              "referenced_metamodel = metamodel_for_language(language)", "return referenced_metamodel[name]",
              "return self.namespaces[namespace][name]", "raise KeyError("]:
        need(w in src, "TextXMetaModel.__getitem__ changed; missing: " + w)
    # ---- _determine_rule_type: where the class of an alias target comes from
    fn = find_func(tree, "_determine_rule_type")
    tg = [n for n in ast.walk(fn) if isinstance(n, ast.Assign) and ast.unparse(n.targets[0]) == "target_cls"]
    need(len(tg) == 1, "_determine_rule_type: target_cls assignment changed")
    v = ast.unparse(tg[0].value)
    need(v in ("rule._tx_class", "metamodel[rule.rule_name]"), "_determine_rule_type: unknown source of target_cls: " + v)
    ruletype_by_class = v == "rule._tx_class"
    # ---- visit_textx_rule: `?=` attribute that can collect several values
    fn = find_func(tree, "visit_textx_rule", "TextXVisitor")
    loops = [n for n in fn.body if isinstance(n, ast.For) and ast.unparse(n.iter) == "cls._tx_attrs.values()"]
    boolmany = "None"
    if loops:
        need(len(loops) == 1 and len(loops[0].body) == 1 and isinstance(loops[0].body[0], ast.If), "bool/many check changed")
        test = ast.unparse(loops[0].body[0].test)
        need(test == "attr.bool_assignment and attr.mult in [MULT_ZEROORMORE, MULT_ONEORMORE]", "bool/many test changed: " + test)
        need(body_safe(loops[0].body[0].body, SAFE_CALLS), "bool/many check body is not safe")
        boolmany = "(Some %s)" % raised_class(loops[0].body[0].body)
        # it must come after the multiplicity walk
        idx = fn.body.index(loops[0])
        need(any(ast.unparse(x) == "_update_attr_multiplicities(root_rule, set())" for x in fn.body[:idx]), "bool/many check precedes the multiplicity walk")
    need("raise TextXSemanticError(" in ast.unparse(fn) and "Can't use bool assignment " in ast.unparse(fn), "bool assignment in repetition check changed")
    # ---- user classes: visit_rule_name / validate_user_classes
    fn = find_func(tree, "visit_rule_name", "TextXVisitor")
    src = ast.unparse(fn)
    need("cls = self.metamodel.user_classes.get(rule_name)" in src, "visit_rule_name: user class lookup changed")
    ifs = [n for n in ast.walk(fn) if isinstance(n, ast.If) and ast.unparse(n.test) == "rule_name in self.metamodel._used_rule_names_for_user_classes"]
    need(len(ifs) == 1 and not ifs[0].orelse, "visit_rule_name: used-rule-name test changed")
    user_redef = raised_class(ifs[0].body)
    need("self.metamodel._used_rule_names_for_user_classes.add(rule_name)" in src, "visit_rule_name: used rule names are not recorded")
    vu = find_func(mtree, "validate_user_classes", "TextXMetaModel")
    loops = [n for n in vu.body if isinstance(n, ast.For)]
    need(len(loops) == 1 and ast.unparse(loops[0].iter) == "self.user_classes.values()" and len(loops[0].body) == 1
         and isinstance(loops[0].body[0], ast.If)
         and ast.unparse(loops[0].body[0].test) == "user_class.__name__ not in self._used_rule_names_for_user_classes",
         "validate_user_classes changed")
    user_unused = raised_class(loops[0].body[0].body)
    mfs = find_func(mtree, "metamodel_from_str")
    need("language_from_str(lang_desc, metamodel, file_name)" in ast.unparse(mfs) and "metamodel.validate_user_classes()" in ast.unparse(mfs),
         "metamodel_from_str changed")
    # _new_import assertion (the documented exception)
    ni = find_func(mtree, "_new_import", "TextXMetaModel")
    need(any(isinstance(s, ast.Assert) and ast.unparse(s.test) == "self.root_path is not None" for s in ni.body), "_new_import assertion changed")
    emit("SrcFront", "\n".join([
        "From TxV Require Import Core.Base Model.FrontDefs.",
        "Definition src_cfg : cfg := {|",
        "  c_params := [%s];" % "; ".join(coq_codes(n) for n in names),
        "  c_param_cls := %s; c_split_cls := %s; c_ws_guard := %s;" % (param_cls, split_cls, ws_guard),
        "  c_re_clauses := %s;" % re_clauses,
        "  c_str_clauses := %s;" % str_clauses,
        "  c_nomatch_clauses := %s;" % nomatch_clauses,
        "  c_keyerror_clauses := %s;" % keyerror_clauses,
        "  c_contains_clauses := %s;" % contains_clauses,
        "  c_ugroup_guard := %s; c_alias_guard := %s; c_mmm_getitem := %s;" % ("true" if ug_guard else "false", alias_guard, "true" if mmm_getitem else "false"),
        "  c_ruletype_by_class := %s; c_boolmany_check := %s;" % ("true" if ruletype_by_class else "false", boolmany),
        "  c_user_redef_cls := %s; c_user_unused_cls := %s;" % (user_redef, user_unused),
        "  c_base_names := [%s] |}." % "; ".join(coq_codes(n) for n in base),
    ]) + "\n")
    return []
