"""textx/model.py call_obj_processors -> Gen/SrcProc.v (`src_facts : walk_facts`)

Compares the text of call_obj_processors, statement by statement, with the shape
Model/Proc.v `walk` transcribes and extracts as facts what the model does not hard-code:
the early return for match rules, the `cont` guard, the tests guarding recursion
(`attr is not None`, `obj is not None`) and replacement (`result is not None`), the order of
the three blocks (attribute loop, own-class call, declared-class call), the conjuncts of the
own-class condition and the return policy.  Fail closed: every statement that is neither the
transcribed one nor one of the recognised variants is a TranslateError."""
import ast
from .common import parse_file, find_func, need, emit, TranslateError

U = ast.unparse


def _test(expr, var):
    """`var is not None` -> TNotNone, `var` -> TTruthy; anything else is unknown."""
    u = U(expr)
    if u == "%s is not None" % var:
        return "TNotNone"
    if u == var:
        return "TTruthy"
    raise TranslateError("unknown test on %s: %s" % (var, u))


def _guarded(stmts, var, what):
    """[`if <test var>: body`] -> (test, body); [body...] without a test -> (TAlways, body)."""
    if len(stmts) == 1 and isinstance(stmts[0], ast.If) and not stmts[0].orelse and var in U(stmts[0].test).split()[0:1]:
        return _test(stmts[0].test, var), stmts[0].body
    need(not any(isinstance(s, ast.If) and var == U(s.test).split()[0] for s in stmts), "unrecognised test in " + what)
    return "TAlways", stmts


def _recursion(stmt, arg):
    need(isinstance(stmt, ast.Assign) and U(stmt.targets[0]) == "result"
         and U(stmt.value) == "call_obj_processors(metamodel, %s, metaattr.cls)" % arg,
         "recursive call changed: " + U(stmt))


def _attr_loop(loop):
    """Returns (only_cont, attr_test, elem_test, repl_single, repl_list)."""
    need(U(loop.target) == "metaattr" and U(loop.iter) == "current_metaclass_of_obj._tx_attrs.values()" and not loop.orelse,
         "attribute loop header changed")
    body = loop.body
    if len(body) == 1 and isinstance(body[0], ast.If) and U(body[0].test) == "metaattr.cont" and not body[0].orelse:
        only_cont, body = True, body[0].body
    else:
        need(not any(isinstance(s, ast.If) and "metaattr" in U(s.test) and "mult" not in U(s.test) for s in body),
             "unrecognised guard of the attribute loop: " + U(body[0].test if isinstance(body[0], ast.If) else body[0])[:80])
        only_cont = False
    need(len(body) >= 1 and U(body[0]) == "attr = getattr(model_obj, metaattr.name)", "attribute value is not read with getattr")
    attr_test, inner = _guarded(body[1:], "attr", "attribute loop")
    need(len(inner) == 1 and isinstance(inner[0], ast.If) and U(inner[0].test) == "metaattr.mult in many",
         "list/single dispatch changed")
    many, single = inner[0].body, inner[0].orelse
    # list branch: for idx, obj in enumerate(attr): [if obj is not None:] result = ...; [if result is not None:] attr[idx] = result
    need(len(many) == 1 and isinstance(many[0], ast.For) and U(many[0].target) == "(idx, obj)"
         and U(many[0].iter) == "enumerate(attr)" and not many[0].orelse, "list elements are not enumerated over attr")
    elem_test, eb = _guarded(many[0].body, "obj", "list branch")
    need(len(eb) >= 2, "list branch changed")
    _recursion(eb[0], "obj")
    repl_list, rb = _guarded(eb[1:], "result", "list replacement")
    need(len(rb) == 1 and U(rb[0]) == "attr[idx] = result", "list replacement is not `attr[idx] = result`")
    # single branch
    need(len(single) >= 2, "single branch changed")
    _recursion(single[0], "attr")
    repl_single, sb = _guarded(single[1:], "result", "single replacement")
    need(len(sb) == 1 and U(sb[0]) == "setattr(model_obj, metaattr.name, result)", "single replacement is not setattr(model_obj, name, result)")
    return only_cont, attr_test, elem_test, repl_single, repl_list


def _own_call(stmt):
    """Returns (fqn conjunct present, name conjunct present)."""
    need(isinstance(stmt, ast.If) and not stmt.orelse, "own-class call is not a plain if")
    t = stmt.test
    conj = t.values if isinstance(t, ast.BoolOp) and isinstance(t.op, ast.And) else [t]
    us = [U(c) for c in conj]
    known = {"current_metaclass_of_obj._tx_fqn != metaclass_of_grammar_rule._tx_fqn": "fqn",
             "current_metaclass_of_obj.__name__ != metaclass_of_grammar_rule.__name__": "name",
             "metamodel.has_obj_processor(current_metaclass_of_obj.__name__)": "reg"}
    kinds = []
    for u in us:
        need(u in known, "unknown conjunct in the own-class condition: " + u)
        kinds.append(known[u])
    need(kinds.count("reg") == 1 and len(set(kinds)) == len(kinds), "own-class condition must test has_obj_processor once")
    need(len(stmt.body) == 1 and U(stmt.body[0]) ==
         "return_value_current = metamodel.process(model_obj, current_metaclass_of_obj.__name__, **get_location(model_obj))",
         "own-class call changed: " + U(stmt.body[0])[:100])
    return "fqn" in kinds, "name" in kinds


def _decl_call(stmt):
    need(isinstance(stmt, ast.If) and not stmt.orelse
         and U(stmt.test) == "metamodel.has_obj_processor(metaclass_of_grammar_rule.__name__)", "declared-class condition changed")
    b = stmt.body
    need(len(b) == 2 and isinstance(b[0], ast.If) and U(b[0].test) == "hasattr(model_obj, '_tx_position')"
         and U(b[0].body[0]) == "loc = get_location(model_obj)" and len(b[0].body) == 1
         and len(b[0].orelse) == 1 and U(b[0].orelse[0]).startswith("loc = {"), "location of the declared-class call changed")
    need(U(b[1]) == "return_value_grammar = metamodel.process(model_obj, metaclass_of_grammar_rule.__name__, **loc)",
         "declared-class call changed: " + U(b[1])[:100])


def translate():
    tree, _ = parse_file("textx/model.py")
    outer = find_func(tree, "parse_tree_to_objgraph")
    fns = [n for n in ast.walk(outer) if isinstance(n, ast.FunctionDef) and n.name == "call_obj_processors"]
    need(len(fns) == 1, "call_obj_processors not found")
    fn = fns[0]
    need(U(fn.args) == "metamodel, model_obj, metaclass_of_grammar_rule=None", "signature changed")
    body = [s for s in fn.body if not (isinstance(s, ast.Expr) and isinstance(s.value, ast.Constant))]
    # 1. root lookup
    need(isinstance(body[0], ast.Try) and U(body[0].body[0]) ==
         "if metaclass_of_grammar_rule is None:\n    metaclass_of_grammar_rule = metamodel[model_obj.__class__.__name__]"
         and len(body[0].body) == 1 and len(body[0].handlers) == 1 and U(body[0].handlers[0].type) == "KeyError"
         and isinstance(body[0].handlers[0].body[-1], ast.Raise), "root class lookup changed")
    i = 1
    # 2. early return for match rules
    match_skip = False
    if isinstance(body[i], ast.If) and "RULE_MATCH" in U(body[i].test):
        need(U(body[i].test) == "metaclass_of_grammar_rule._tx_type is RULE_MATCH" and not body[i].orelse
             and len(body[i].body) == 1 and U(body[i].body[0]) == "return", "match-rule early return changed")
        match_skip = True
        i += 1
    # 3. constants
    for want in ("many = [MULT_ONEORMORE, MULT_ZEROORMORE]", "return_value_grammar = None", "return_value_current = None"):
        need(U(body[i]) == want, "expected `%s`, found `%s`" % (want, U(body[i])[:80]))
        i += 1
    rest = body[i:]
    need(len(rest) == 3, "expected object block, declared-class call and return (in some order), found %d statements" % len(rest))
    need(isinstance(rest[2], (ast.If, ast.Return)), "the function does not end with the return selection")
    order = []
    facts = {}
    for st in rest[:2]:
        need(isinstance(st, ast.If), "unexpected statement: " + U(st)[:80])
        if U(st.test) == "model_obj.__class__.__name__ in metamodel":
            need(not st.orelse, "object block has an else")
            ob = st.body
            need(len(ob) == 4 and U(ob[0]).startswith("if hasattr(model_obj, '_tx_fqn'):\n    current_metaclass_of_obj = metamodel[model_obj._tx_fqn]\nelse:")
                 and U(ob[0].orelse[0]) == "current_metaclass_of_obj = metamodel[model_obj.__class__.__name__]"
                 and U(ob[1]) == "assert current_metaclass_of_obj is not None", "own meta-class lookup changed")
            for x in ob[2:]:
                if isinstance(x, ast.For):
                    need("WChildren" not in order, "two attribute loops")
                    (facts["only_cont"], facts["attr"], facts["elem"], facts["single"], facts["list"]) = _attr_loop(x)
                    order.append("WChildren")
                else:
                    need("WOwn" not in order, "two own-class calls")
                    facts["fqn"], facts["name"] = _own_call(x)
                    order.append("WOwn")
        else:
            _decl_call(st)
            order.append("WDecl")
    need(sorted(order) == ["WChildren", "WDecl", "WOwn"], "blocks found: %s" % order)
    # return selection
    r = rest[2]
    ru = U(r)
    if ru == "if return_value_current is not None:\n    return return_value_current\nelse:\n    return return_value_grammar":
        ret = "ROwnFirst"
    elif ru == "if return_value_grammar is not None:\n    return return_value_grammar\nelse:\n    return return_value_current":
        ret = "RDeclFirst"
    elif ru == "return return_value_current or return_value_grammar":
        ret = "ROwnTruthy"
    elif ru == "return return_value_grammar or return_value_current":
        ret = "RDeclTruthy"
    else:
        raise TranslateError("return selection changed: " + ru[:120])
    # no other assignment to the two result variables, no other return
    rets = [n for n in ast.walk(fn) if isinstance(n, ast.Return)]
    need(len(rets) == (1 if match_skip else 0) + (2 if isinstance(r, ast.If) else 1), "unexpected return statement")
    b = lambda x: "true" if x else "false"  # noqa: E731
    lines = ["From TxV Require Import Core.Base Model.Proc.",
             "Definition src_facts : walk_facts :=",
             "  WF %s %s %s %s %s %s [%s] %s %s %s." % (b(match_skip), b(facts["only_cont"]), facts["attr"], facts["elem"],
                                                       facts["single"], facts["list"], "; ".join(order),
                                                       b(facts["fqn"]), b(facts["name"]), ret)]
    emit("SrcProc", "\n".join(lines) + "\n")
    return []
