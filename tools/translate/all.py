"""Run every translator (used by setup.sh); prints errors, exit 1 if any failed."""
import importlib
import os
import sys

sys.path.insert(0, os.path.dirname(os.path.dirname(os.path.abspath(__file__))))
NAMES = [f[:-3] for f in sorted(os.listdir(os.path.dirname(os.path.abspath(__file__)))) if f.endswith("_tr.py")]


def main():
    bad = 0
    for n in NAMES:
        mod = importlib.import_module("translate." + n)
        try:
            errs = mod.translate()
        except Exception as ex:
            errs = ["%s: %s" % (type(ex).__name__, ex)]
        if errs:
            bad += 1
            print("translator %s: %s" % (n, errs))
    sys.exit(1 if bad else 0)


main()
