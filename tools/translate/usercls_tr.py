"""textx/model.py user-class instrumentation -> Gen/SrcUserCls.v

Extracts the method-name tuples of _replace_user_attr_methods_for_class and
_restore_user_attr_methods and checks (fail closed) the shape of the code the UserCls model
transcribes: per-parser bookkeeping of the replaced classes, the allocation bookkeeping, the
failure handlers and _end_model_construction."""
import ast
from .common import parse_file, find_func, need, emit, coq_codes, TranslateError


def _names_of_for(fn, what):
    loops = [n for n in ast.walk(fn) if isinstance(n, ast.For) and ast.unparse(n.target) == "a_name"]
    need(len(loops) == 1, "%s: expected one `for a_name in (...)` loop" % what)
    lp = loops[0]
    need(isinstance(lp.iter, ast.Tuple) and all(isinstance(e, ast.Constant) and isinstance(e.value, str) for e in lp.iter.elts),
         "%s: the loop does not range over a tuple of string literals" % what)
    return lp, [e.value for e in lp.iter.elts]


def _src(node):
    return ast.unparse(node)


def _has_seq(root, stmts):
    """some statement list under root contains the given consecutive statements"""
    for n in ast.walk(root):
        for field in ("body", "orelse", "finalbody"):
            lst = getattr(n, field, None)
            if isinstance(lst, list):
                us = [_src(x) for x in lst if isinstance(x, ast.stmt)]
                for i in range(len(us) - len(stmts) + 1):
                    if us[i:i + len(stmts)] == stmts:
                        return True
    return False


def translate():
    tree, _ = parse_file("textx/model.py")
    # ---- replace, one class
    f = find_func(tree, "_replace_user_attr_methods_for_class")
    lp, rep = _names_of_for(f, "_replace_user_attr_methods_for_class")
    body = [_src(x) for x in lp.body]
    need(body == ["real_name = f'__{a_name}__'", "cached_name = f'_tx_real_{a_name}'",
                  "setattr(user_class, cached_name, user_class.__dict__.get(real_name, None))",
                  "setattr(user_class, real_name, locals()[f'_{a_name}'])"],
         "replacement loop body changed: %r" % body)
    need(_src(f.body[-1]) == "user_class._tx_instrumented = 1", "replacement does not end with _tx_instrumented = 1")
    inner = {n.name for n in f.body if isinstance(n, ast.FunctionDef)}
    need(inner == {"_" + a for a in rep}, "replacement functions %r do not match the names %r" % (sorted(inner), rep))
    # the replacement functions themselves (transcribed as acting_set / acting_get / acting_del)
    want_fns = {
        "_getattribute": "def _getattribute(obj, name):\n    if name == '__dict__':\n        try:\n            return user_class._tx_obj_attrs[id(obj)]\n"
                         "        except KeyError:\n            pass\n    else:\n        try:\n            return user_class._tx_obj_attrs[id(obj)][name]\n"
                         "        except KeyError:\n            pass\n    real_getattribute = user_class._tx_real_getattribute\n"
                         "    if real_getattribute is not None and id(obj) not in user_class._tx_obj_attrs:\n        return real_getattribute(obj, name)\n"
                         "    return super(user_class, obj).__getattribute__(name)",
        "_setattr": "def _setattr(obj, name, value):\n    try:\n        user_class._tx_obj_attrs[id(obj)][name] = value\n    except KeyError:\n"
                    "        real_setattr = user_class._tx_real_setattr\n        if real_setattr is not None:\n            return real_setattr(obj, name, value)\n"
                    "        return super(user_class, obj).__setattr__(name, value)",
        "_delattr": "def _delattr(obj, name):\n    try:\n        user_class._tx_obj_attrs[id(obj)].pop(name)\n    except KeyError:\n"
                    "        real_delattr = user_class._tx_real_delattr\n        if real_delattr is not None:\n            return real_delattr(obj, name)\n"
                    "        return super(user_class, obj).__delattr__(name)",
    }
    for n in f.body:
        if isinstance(n, ast.FunctionDef):
            need(n.name in want_fns and _src(n) == want_fns[n.name], "replacement function %s changed" % n.name)
    # ---- replace, all classes of the metamodel
    f = find_func(tree, "_replace_user_attr_methods")
    want = ("for user_class in self.metamodel.user_classes.values():\n"
            "    if '_tx_instrumented' not in user_class.__dict__:\n"
            "        self._replace_user_attr_methods_for_class(user_class)\n"
            "    else:\n"
            "        user_class._tx_instrumented += 1\n"
            "    self._user_classes_replaced.append(user_class)")
    stmts = [x for x in f.body if not (isinstance(x, ast.Expr) and isinstance(x.value, ast.Constant))]
    need(len(stmts) == 1 and _src(stmts[0]) == want, "_replace_user_attr_methods changed")
    # ---- restore
    f = find_func(tree, "_restore_user_attr_methods")
    lp, res = _names_of_for(f, "_restore_user_attr_methods")
    stmts = [x for x in f.body if not (isinstance(x, ast.Expr) and isinstance(x.value, ast.Constant))]
    need(len(stmts) == 2 and _src(stmts[0]) == "user_classes, self._user_classes_replaced = (self._user_classes_replaced, [])",
         "_restore_user_attr_methods does not take and clear the parser's replaced classes first")
    outer = stmts[1]
    need(isinstance(outer, ast.For) and _src(outer.target) == "user_class" and _src(outer.iter) == "user_classes" and len(outer.body) == 1,
         "_restore_user_attr_methods loop changed")
    iff = outer.body[0]
    need(isinstance(iff, ast.If) and _src(iff.test) == "hasattr(user_class, '_tx_instrumented')" and not iff.orelse and len(iff.body) == 2
         and _src(iff.body[0]) == "user_class._tx_instrumented -= 1", "restore counter handling changed")
    zero = iff.body[1]
    need(isinstance(zero, ast.If) and _src(zero.test) == "user_class._tx_instrumented == 0" and not zero.orelse and len(zero.body) == 2
         and _src(zero.body[0]) == "delattr(user_class, '_tx_instrumented')" and zero.body[1] is lp, "restore at zero changed")
    body = [_src(x) for x in lp.body]
    need(body[:2] == ["cached_name = f'_tx_real_{a_name}'", "real_name = f'__{a_name}__'"] and len(body) == 3, "restore loop head changed: %r" % body[:2])
    has = lp.body[2]
    need(isinstance(has, ast.If) and _src(has.test) == "hasattr(user_class, cached_name)" and not has.orelse, "restore loop guard changed")
    hb = [_src(x) for x in has.body]
    need(hb[0] == "cached_meth = getattr(user_class, cached_name)" and hb[-1] == "delattr(user_class, cached_name)" and
         hb[-2] == "if cached_meth is not None:\n    setattr(user_class, real_name, cached_meth)\nelse:\n    delattr(user_class, real_name)",
         "restore of one method changed: %r" % hb)
    # ---- discard
    f = find_func(tree, "_discard_user_obj_attrs")
    stmts = [x for x in f.body if not (isinstance(x, ast.Expr) and isinstance(x.value, ast.Constant))]
    need(len(stmts) == 1 and _src(stmts[0]) == "for obj in self._user_class_alloc:\n    obj.__class__._tx_obj_attrs.pop(id(obj), None)",
         "_discard_user_obj_attrs changed")
    # ---- get_model_from_str: bookkeeping before try, order parse/replace/build, handler
    f = find_func(tree, "get_model_from_str")
    top = [x for x in f.body if not (isinstance(x, ast.Expr) and isinstance(x.value, ast.Constant))]
    srcs = [_src(x) for x in top]
    tries = [x for x in top if isinstance(x, ast.Try)]
    need(len(tries) == 1, "get_model_from_str: expected one try statement")
    t = tries[0]
    before = srcs[:top.index(t)]
    for w in ("self._user_classes_replaced = []", "self._user_class_alloc = []", "self._user_class_inst = []"):
        need(w in before, "get_model_from_str: `%s` must precede the try" % w)
    tb = [_src(x) for x in t.body]
    ip = [i for i, x in enumerate(tb) if x.startswith("self.parse(")]
    ir = [i for i, x in enumerate(tb) if x == "self._replace_user_attr_methods()"]
    ib = [i for i, x in enumerate(tb) if x.startswith("model = parse_tree_to_objgraph(")]
    need(len(ip) == len(ir) == len(ib) == 1 and ip[0] < ir[0] < ib[0], "get_model_from_str: parse / replace / build order changed")
    need(len(t.handlers) == 1 and t.handlers[0].type is None, "get_model_from_str: expected one bare except handler")
    hb = [_src(x) for x in t.handlers[0].body]
    need(hb == ["self._restore_user_attr_methods()", "self._discard_user_obj_attrs()", "raise"], "get_model_from_str failure handler changed: %r" % hb)
    # ---- allocation in process_node
    ptog = find_func(tree, "parse_tree_to_objgraph")
    src = _src(ptog)
    need(_has_seq(ptog, ["inst = user_class.__new__(user_class)", "user_class._tx_obj_attrs[id(inst)] = {}",
                         "parser._user_class_alloc.append(inst)"]), "allocation of user objects in process_node changed")
    need(src.count("_tx_obj_attrs") == 1, "parse_tree_to_objgraph touches _tx_obj_attrs elsewhere")
    need(_has_seq(ptog, ["if is_user:\n    parser._user_class_inst.append(inst)"]), "completion bookkeeping (_user_class_inst) changed")
    # ---- failure handlers of parse_tree_to_objgraph
    handlers = [[_src(x) for x in h.body] for h in ast.walk(ptog) if isinstance(h, ast.ExceptHandler) and h.type is None]
    need(sorted(handlers) == sorted([["remove_models_from_repositories(models, models)", "_abort_user_class_construction(parsers)", "raise"],
                                     ["_remove_all_affected_models_in_construction(model)", "raise"]]),
         "failure handlers of parse_tree_to_objgraph changed: %r" % handlers)
    need(_has_seq(ptog, ["for m in models:\n    _end_model_construction(m)"]), "end of construction loop changed")
    need(_has_seq(ptog, ["models = list(filter(lambda x: hasattr(x, '_tx_reference_resolver'), models))",
                         "parsers = [getattr(m, '_tx_parser', None) for m in models]", "resolved_count = 1"]),
         "the parsers of the models under construction are not captured before the resolution loop")
    f = find_func(tree, "_remove_all_affected_models_in_construction")
    stmts = [_src(x) for x in f.body if not (isinstance(x, ast.Expr) and isinstance(x.value, ast.Constant))]
    need(stmts[-2:] == ["remove_models_from_repositories(all_affected_models, models_to_be_removed)",
                        "_abort_user_class_construction([getattr(m, '_tx_parser', None) for m in models_to_be_removed])"],
         "_remove_all_affected_models_in_construction changed")
    f = find_func(tree, "_abort_user_class_construction")
    stmts = [_src(x) for x in f.body if not (isinstance(x, ast.Expr) and isinstance(x.value, ast.Constant))]
    need(stmts == ["for the_parser in parsers:\n    if the_parser is not None:\n"
                   "        the_parser._restore_user_attr_methods()\n        the_parser._discard_user_obj_attrs()"],
         "_abort_user_class_construction changed")
    # ---- _end_model_construction
    f = find_func(tree, "_end_model_construction")
    src = _src(f)
    i1 = src.find("the_parser._restore_user_attr_methods()")
    i2 = src.find("for obj in the_parser._user_class_inst:")
    i3 = src.find("attrs = obj.__class__._tx_obj_attrs.pop(id(obj))")
    i4 = src.find("attrs = {k: v for k, v in attrs.items() if k in obj.__class__._tx_attrs or k == 'parent'}")
    i5 = src.find("obj.__init__(**attrs)")
    need(0 <= i1 < i2 < i3 < i4 < i5, "_end_model_construction: restore / pop / filter / __init__ sequence changed")
    need(src.count("_tx_obj_attrs") == 1 and src.count("__init__(") == 1, "_end_model_construction touches storage or __init__ elsewhere")
    emit("SrcUserCls", "\n".join([
        "From TxV Require Import Core.Base.",
        "Definition replace_names : list (list N) := [%s]." % "; ".join(coq_codes(a) for a in rep),
        "Definition restore_names : list (list N) := [%s]." % "; ".join(coq_codes(a) for a in res),
        "Definition init_extra_key : list N := %s." % coq_codes("parent"),
    ]) + "\n")
    return []
