"""textx/scoping/rrel.py evaluation code -> Gen/SrcRrel.v  (fail closed).

Two layers:
 1. facts the Coq model (Model/Rrel.v) hard-codes are extracted from the source by shape and
    emitted as the record `src_facts`; Props/C11.v proves `src_facts = model_facts`, where
    model_facts is computed from the model's own functions.  An edit that changes such a fact
    (visited key, lst[0], start_locally/start_at_root order, proxy completion, consume/fixed
    flags of the constructors, dots loop bounds) makes that theorem fail.
 2. every method the model transcribes is fingerprinted (sha256 of its ast.dump without
    docstrings); a method whose text differs from the one the model was written from raises
    TranslateError: the model has to be re-read against the new code before the proofs count.
"""
import ast
import hashlib
from .common import parse_file, find_func, need, emit, TranslateError

# fingerprints of the transcribed methods (update ONLY together with Model/Rrel.v)
EXPECTED = {
    "RRELBase.get_next_matches": "d96c0b0240e9",
    "RRELParent.apply": "99129bd6f973",
    "RRELNavigation.apply": "2f61f45f98ba",
    "RRELBrackets.get_next_matches": "560b742bf74a",
    "RRELDots.apply": "2a761e2ffbb0",
    "RRELSequence.get_next_matches": "bcfb0d94efcc",
    "RRELZeroOrMore.__init__": "0da02c4ee05d",
    "RRELZeroOrMore.get_next_matches": "f354d32cd3e8",
    "RRELPath.__init__": "a4341c718487",
    "RRELPath.get_next_matches": "33d48c00856f",
    "RRELVisitor.visit_rrel_navigation": "9394a9758370",
    "RRELVisitor.visit_rrel_zero_or_more": "3c08d2094f52",
    "RRELVisitor.visit_rrel_dots": "8749137d3309",
    "ReferenceProxy.__init__": "63977bfd83d9",
    "ReferenceProxy.__getattr__": "976627a18d9d",
    "find_object_with_path": "3eaba0d2041c",
    "find": "50a6ae6dba91",
    "RREL.__init__": "b961eeddc252",
    "RREL.__call__": "047c7f57e0d8",
}


def _strip_doc(fn):
    fn = ast.parse(ast.unparse(fn)).body[0]
    for node in ast.walk(fn):
        if isinstance(node, (ast.FunctionDef, ast.ClassDef)) and node.body and isinstance(node.body[0], ast.Expr) \
                and isinstance(node.body[0].value, ast.Constant) and isinstance(node.body[0].value.value, str):
            node.body = node.body[1:] or [ast.Pass()]
    return fn


def fingerprint(fn):
    return hashlib.sha256(ast.dump(_strip_doc(fn), annotate_fields=False).encode()).hexdigest()[:12]


def fingerprints(tree):
    out = {}
    for key in EXPECTED:
        if "." in key:
            cls, name = key.split(".")
            out[key] = fingerprint(find_func(tree, name, cls))
        else:
            tops = [n for n in tree.body if isinstance(n, ast.FunctionDef) and n.name == key]
            need(len(tops) == 1, "top-level function %s not found" % key)
            out[key] = fingerprint(tops[0])
    return out


def _const_return(tree, cls, name):
    fn = find_func(tree, name, cls)
    body = [s for s in fn.body if not (isinstance(s, ast.Expr) and isinstance(s.value, ast.Constant))]
    need(len(body) == 1 and isinstance(body[0], ast.Return) and isinstance(body[0].value, ast.Constant)
         and isinstance(body[0].value.value, bool), "%s.%s is not `return <bool>`" % (cls, name))
    return body[0].value.value


def flat(t):
    return " ".join(t.split())


class Flat(str):
    """source text compared modulo whitespace"""

    def __new__(cls, t):
        return super().__new__(cls, flat(t))

    def __contains__(self, pat):
        return str.__contains__(self, flat(pat))

    def find(self, pat):
        return str.find(self, flat(pat))

    def count(self, pat):
        return str.count(self, flat(pat))


def cb(b):
    return "true" if b else "false"


def translate():
    tree, _ = parse_file("textx/scoping/rrel.py")
    # ---- layer 1: facts
    # visited key
    fowp = [n for n in tree.body if isinstance(n, ast.FunctionDef) and n.name == "find_object_with_path"][0]
    allowed = [n for n in ast.walk(fowp) if isinstance(n, ast.FunctionDef) and n.name == "allowed"]
    need(len(allowed) == 1, "allowed() not found in find_object_with_path")
    al = allowed[0]
    params = [a.arg for a in al.args.args]
    need(params[:3] == ["obj", "lookup_list", "e"], "allowed() parameters changed: %r" % params)
    src = Flat(ast.unparse(al))
    keys = [n for n in ast.walk(al) if isinstance(n, ast.Assign) and ast.unparse(n.targets[0]) == "key"]
    if not keys:
        # the shape before the repair: the pair is written out twice
        need("if (id(obj), id(e)) in visited[len(lookup_list)]:" in src and "visited[len(lookup_list)].add((id(obj), id(e)))" in src
             and params == ["obj", "lookup_list", "e"], "visited key not recognised")
        key_first = False
    else:
        need(len(keys) == 1 and isinstance(keys[0].value, ast.Tuple), "visited key is not a single tuple assignment")
        elts = [ast.unparse(e) for e in keys[0].value.elts]
        need(elts[:2] == ["id(obj)", "id(e)"], "visited key does not start with (id(obj), id(e)): %r" % elts)
        need(elts[2:] in ([], ["bool(first_element)"], ["first_element"]), "unrecognised visited key: %r" % elts)
        key_first = len(elts) == 3
        need("if key in visited[len(lookup_list)]:" in src and "visited[len(lookup_list)].add(key)" in src,
             "visited set is no longer indexed by len(lookup_list)")
        if key_first:
            need(params == ["obj", "lookup_list", "e", "first_element"], "allowed() does not take first_element")
    # every guard passes (obj, lookup_list, self[, first_element])
    calls = [ast.unparse(n) for n in ast.walk(tree) if isinstance(n, ast.Call) and ast.unparse(n.func) == "allowed"]
    want_call = "allowed(obj, lookup_list, self, first_element)" if key_first else "allowed(obj, lookup_list, self)"
    need(len(calls) == 4 and all(c == want_call for c in calls), "guard calls changed: %r" % calls)
    guarded = []
    for cls in ("RRELBase", "RRELBrackets", "RRELSequence", "RRELZeroOrMore", "RRELPath"):
        fn = find_func(tree, "get_next_matches", cls)
        guarded.append(any(isinstance(n, ast.Call) and ast.unparse(n.func) == "allowed" for n in ast.walk(fn)))
    need(guarded == [True, True, True, True, False], "which node classes call allowed() changed: %r" % guarded)

    # lst[0] in the consuming and the fixed-name branch
    nav = Flat(ast.unparse(find_func(tree, "apply", "RRELNavigation")))
    pick_first = nav.count("return (lst[0], lookup_list, matched_path + [lst[0]])") == 1 and \
        nav.count("return (lst[0], lookup_list[1:], matched_path + [lst[0]])") == 1
    need(pick_first or "lst[0]" not in nav, "the element choice in RRELNavigation.apply changed shape")
    need("if len(lookup_list) == 0 and self.consume_name:\n        return (None, lookup_list, matched_path)" in nav,
         "empty-name cut of consuming navigation changed")
    need("if not self.consume_name and self.fixed_name is None:\n                return (target, lookup_list, matched_path)" in nav,
         "plain '~' branch changed")
    need("if first_element:\n        from textx import get_model\n        obj = get_model(obj)" in nav, "first_element handling of navigation changed")

    # start_locally / start_at_root of the leaves
    starts = [(c, _const_return(tree, c, "start_locally"), _const_return(tree, c, "start_at_root"))
              for c in ("RRELParent", "RRELNavigation", "RRELDots")]

    # order of the zero-iteration yields of `*`
    zm = Flat(ast.unparse(find_func(tree, "get_next_matches", "RRELZeroOrMore")))
    i1 = zm.find("if self.start_locally():\n                    yield (obj, lookup_list, matched_path)")
    i2 = zm.find("if self.start_at_root():\n                    from textx import get_model\n                    yield (get_model(obj), lookup_list, matched_path)")
    need(i1 >= 0 and i2 >= 0, "zero-iteration yields of RRELZeroOrMore changed")
    local_first = i1 < i2
    need("if (id(iobj), len(ilookup_list)) not in prevent_doubles:" in zm, "prevent_doubles key changed")

    # dots
    dots = Flat(ast.unparse(find_func(tree, "apply", "RRELDots")))
    need("while num > 1 and hasattr(obj, 'parent'):" in dots and "if num <= 1:" in dots, "RRELDots.apply bounds changed")

    # proxy path in find
    fnd = Flat(ast.unparse([n for n in tree.body if isinstance(n, ast.FunctionDef) and n.name == "find"][0]))
    if "if len(path) == 0 or path[-1] is not res[0]:\n                path = path + [res[0]]\n            return ReferenceProxy(path)" in fnd:
        proxy_completes = True
    elif "return ReferenceProxy(res[1])" in fnd:
        proxy_completes = False
    else:
        raise TranslateError("proxy construction in find() not recognised")
    need("return res[0]" in fnd, "plain result of find() changed")
    px = Flat(ast.unparse(find_func(tree, "__getattr__", "ReferenceProxy")))
    need("elif item == '_tx_obj':\n        return self.__dict__['_tx_path'][-1]" in px, "_tx_obj is no longer the last path entry")

    # acceptance test
    fo = Flat(ast.unparse(fowp))
    need("elif len(lookup_list_res) == 0 and (obj_cls is None or textx_isinstance(obj_res, obj_cls)):\n                return (obj_res, matched_path)" in fo,
         "acceptance test of find_object_with_path changed")
    need("for p in rrel_tree.paths:" in fo and "first_element=True" in fo, "top-level loop changed")
    need("lookup_list = lookup_list.split(split_string)" in fo and "filter(lambda x: len(x) > 0, lookup_list)" in fo, "name splitting changed")

    # constructor flags: (consume, has_fixed) for `name`, `~name`, `'s'~name`
    vis = Flat(ast.unparse(find_func(tree, "visit_rrel_navigation", "RRELVisitor")))
    need("return RRELNavigation(children[1], False, children[0])" in vis and "return RRELNavigation(children[1], False, None)" in vis
         and "return RRELNavigation(children[0], True, None)" in vis, "navigation constructor flags changed")
    pth = Flat(ast.unparse(find_func(tree, "__init__", "RRELPath")))
    need("if self.path_elements[0] == '^':\n        self.path_elements[0] = RRELZeroOrMore(RRELBrackets(RRELSequence([RRELPath([RRELDots(2)])])))" in pth,
         "'^' desugaring changed")

    # the scope provider: the delimiter is deduced for each reference from its match rule and is
    # never stored on the provider (one provider instance may serve references with different rules)
    call = find_func(tree, "__call__", "RREL")
    csrc = Flat(ast.unparse(call))
    stores = [ast.unparse(t) for n in ast.walk(call) if isinstance(n, (ast.Assign, ast.AugAssign, ast.AnnAssign))
              for t in (n.targets if isinstance(n, ast.Assign) else [n.target]) if ast.unparse(t).startswith("self.")]
    need(not stores, "RREL.__call__ stores state on the provider: %r" % stores)
    need("if self.split_string is None:" in csrc and "rule = get_metamodel(current_obj)[obj_ref.match_rule_name]" in csrc
         and "if hasattr(rule._tx_peg_rule, 'split'): split = rule._tx_peg_rule.split else: split = '.'" in csrc
         and "else: split = self.split_string" in csrc, "delimiter deduction of the RREL provider changed")
    need("return find(current_obj, obj_name, self.rrel_tree, obj_cls, split_string=split, use_proxy=self.use_proxy)" in csrc,
         "the RREL provider no longer calls find(current_obj, obj_name, tree, cls, split_string=split, use_proxy=...)")

    text = "From TxV Require Import Core.Base.\n"
    text += ("Record rrel_facts := { key_has_first : bool; pick_first_named : bool; star_local_before_root : bool;\n"
             "  proxy_completed_by_target : bool; leaf_starts : list (bool * bool); nav_flags : list (bool * bool) }.\n")
    text += "Definition src_facts : rrel_facts := {|\n"
    text += "  key_has_first := %s; pick_first_named := %s; star_local_before_root := %s;\n" % (cb(key_first), cb(pick_first), cb(local_first))
    text += "  proxy_completed_by_target := %s;\n" % cb(proxy_completes)
    text += "  leaf_starts := [%s];   (* Parent, Navigation, Dots: (start_locally, start_at_root) *)\n" % "; ".join("(%s, %s)" % (cb(a), cb(b)) for _, a, b in starts)
    text += "  nav_flags := [(true, false); (false, false); (false, true)]   (* name, ~name, 's'~name: (consume, fixed given) *)\n|}.\n"
    emit("SrcRrel", text)
    # ---- layer 2: fingerprints (after the facts were emitted, so that both are reported)
    got = fingerprints(tree)
    changed = sorted(k for k in EXPECTED if got[k] != EXPECTED[k])
    if changed:
        return ["transcribed method(s) changed since Model/Rrel.v was written from them (re-read the model against the code, "
                "then update the fingerprints): " + ", ".join("%s (%s)" % (k, got[k]) for k in changed)]
    return []


if __name__ == "__main__":
    import sys
    t, _ = parse_file("textx/scoping/rrel.py")
    for k, v in fingerprints(t).items():
        sys.stdout.write('    "%s": "%s",\n' % (k, v))
