"""textx/model.py parse_tree_to_objgraph (`if is_main_model:` block) -> Gen/SrcLoad.v

The order of the phases that finish a load: reference resolution rounds, the raise for
unresolvable references, end of construction (user-class __init__) for every model, object
processors for every model.  Fail closed: any statement this translator does not recognise
in that block is an error."""
import ast
from .common import parse_file, find_func, need, emit, TranslateError


# names that only serve the clean-up after a failure (no phase work)
BOOKKEEPING = ("parsers",)
# calls allowed in the handler of the main-model block (besides the final bare raise)
CLEANUP = ("remove_models_from_repositories", "_abort_user_class_construction")


def _is_models_loop(n):
    return isinstance(n, ast.For) and ast.unparse(n.target) == "m" and ast.unparse(n.iter) == "models" and not n.orelse


def _steps(loop):
    out = []
    for s in loop.body:
        u = ast.unparse(s)
        if isinstance(s, ast.Assert):
            if "Postponed" in u:
                out.append("SCheckNoPostponed")
            elif u == "assert not m._tx_reference_resolver.parser._inst_stack":
                pass
            else:
                raise TranslateError("unknown assert in model loop: " + u)
        elif isinstance(s, ast.If) and ast.unparse(s.test) == "parser.debug":
            need(all(isinstance(x, ast.Expr) and ast.unparse(x).startswith("parser.dprint(") for x in s.body) and not s.orelse,
                 "debug branch does more than printing")
        elif u == "_end_model_construction(m)":
            out.append("SEndConstruction")
        elif u == "call_obj_processors(m._tx_metamodel, m)":
            out.append("SCallProcessors")
        else:
            raise TranslateError("unknown statement in model loop: " + u)
    return out


def translate():
    tree, _ = parse_file("textx/model.py")
    fn = find_func(tree, "parse_tree_to_objgraph")
    mains = [n for n in ast.walk(fn) if isinstance(n, ast.If) and ast.unparse(n.test) == "is_main_model"]
    need(len(mains) == 1 and not mains[0].orelse, "expected exactly one `if is_main_model:` block")
    body = mains[0].body
    # `models = get_included_models(model)`, optional plain initialisations of clean-up
    # bookkeeping (`parsers = []`), then the try block
    need(len(body) >= 2 and ast.unparse(body[0]) == "models = get_included_models(model)" and isinstance(body[-1], ast.Try),
         "main-model block is not `models = ...; [bookkeeping = literal;] try: ...`")
    for st in body[1:-1]:
        need(isinstance(st, ast.Assign) and len(st.targets) == 1 and ast.unparse(st.targets[0]) in BOOKKEEPING
             and not any(isinstance(x, ast.Call) for x in ast.walk(st.value)),
             "unexpected statement before the try block: " + ast.unparse(st)[:80])
    tr = body[-1]
    need(not tr.orelse and not tr.finalbody and len(tr.handlers) == 1, "try shape changed")
    h = tr.handlers[0]
    need(h.type is None and isinstance(h.body[-1], ast.Raise) and h.body[-1].exc is None, "handler must re-raise")
    # the handler only cleans up (no processor, no end of construction) and re-raises
    for st in h.body[:-1]:
        need(isinstance(st, ast.Expr) and isinstance(st.value, ast.Call) and ast.unparse(st.value.func) in CLEANUP,
             "unexpected statement in the handler of the main-model block: " + ast.unparse(st)[:80])
    for name in CLEANUP:
        if any(isinstance(st, ast.Expr) and isinstance(st.value, ast.Call) and ast.unparse(st.value.func) == name for st in h.body[:-1]) \
                and name.startswith("_"):
            cu = ast.unparse(find_func(tree, name))
            need("__init__" not in cu and "call_obj_processors" not in cu and "_end_model_construction(" not in cu
                 and ".process(" not in cu, name + " does more than cleaning up")
    # no other call of call_obj_processors / _end_model_construction in the function, except the recursion
    calls = [n for n in ast.walk(fn) if isinstance(n, ast.Call) and ast.unparse(n.func) == "call_obj_processors"]
    walker = [n for n in ast.walk(fn) if isinstance(n, ast.FunctionDef) and n.name == "call_obj_processors"]
    need(len(walker) == 1, "call_obj_processors not found")
    inner = [n for n in ast.walk(walker[0]) if isinstance(n, ast.Call) and ast.unparse(n.func) == "call_obj_processors"]
    need(len(calls) - len(inner) == 1, "call_obj_processors is called from %d places outside itself" % (len(calls) - len(inner)))
    ends = [n for n in ast.walk(fn) if isinstance(n, ast.Call) and ast.unparse(n.func) == "_end_model_construction"]
    need(len(ends) == 1, "_end_model_construction is called from %d places" % len(ends))
    phases = []
    for s in tr.body:
        u = ast.unparse(s)
        if isinstance(s, ast.Assign):
            need(ast.unparse(s.targets[0]) in ("models", "resolved_count", "unresolved_count") + BOOKKEEPING, "unexpected assignment: " + u)
            need(not any(isinstance(x, ast.Call) and ast.unparse(x.func) in ("call_obj_processors", "_end_model_construction")
                         or isinstance(x, ast.Attribute) and x.attr in ("__init__", "resolve_one_step", "process")
                         for x in ast.walk(s.value)), "assignment does phase work: " + u)
        elif isinstance(s, ast.While):
            need(ast.unparse(s.test) == "unresolved_count > 0 and resolved_count > 0" and not s.orelse, "resolution loop test changed")
            loops = [x for x in s.body if isinstance(x, ast.For)]
            need(len(loops) == 1 and _is_models_loop(loops[0]) and "m._tx_reference_resolver.resolve_one_step()" in ast.unparse(loops[0]),
                 "resolution loop body changed")
            need(not any(isinstance(x, ast.Call) and ast.unparse(x.func) in ("call_obj_processors", "_end_model_construction")
                         for x in ast.walk(s)), "resolution loop calls processors/end of construction")
            phases.append("PResolveLoop")
        elif isinstance(s, ast.If):
            need(ast.unparse(s.test) == "unresolved_count > 0" and not s.orelse and isinstance(s.body[-1], ast.Raise)
                 and "TextXSemanticError" in ast.unparse(s.body[-1]), "unresolved-reference raise changed")
            phases.append("PRaiseUnresolved")
        elif _is_models_loop(s):
            phases.append("PForEach [%s]" % "; ".join(_steps(s)))
        else:
            raise TranslateError("unknown statement in the main-model block: " + u[:80])
    # _end_model_construction: drops the construction marker, restores user methods, runs __init__
    end = find_func(tree, "_end_model_construction")
    eu = ast.unparse(end)
    need("del model._tx_reference_resolver" in eu and "the_parser._restore_user_attr_methods()" in eu
         and "for obj in the_parser._user_class_inst:" in eu and "obj.__init__(**attrs)" in eu,
         "_end_model_construction no longer initialises user-class objects")
    lines = ["From TxV Require Import Core.Base Model.Proc.",
             "Definition load_phases : list phase :=",
             "  [" + ";\n   ".join(phases) + "]."]
    emit("SrcLoad", "\n".join(lines) + "\n")
    return []
