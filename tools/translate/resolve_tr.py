"""textx/model.py ReferenceResolver.resolve_one_step + the resolution loop of
parse_tree_to_objgraph -> Gen/SrcResolve.v   (C08, C09)

Fail closed.  The statements the Resolve model transcribes are compared as text
(`ast.unparse`); the places where a behaviour-relevant alternative is recognised are
extracted as data:

  list_store_by_position          a resolved list reference is INSERTED at the index that
                                  bisect_right gives for its text position among the positions
                                  already stored (and that position is recorded)   | plain append
  postponed_requeued_at_front     Postponed reference put back with append | insert(0, ...)
  postponed_reported_at_front     same for the delayed list the loop counts / the error names
  counts_list_resolution          resolved_crossref_count is incremented for list attributes
  counts_scalar_resolution        ... and for scalar attributes
  loop_condition                  conjuncts `<counter> > k` of the `while` of the resolution loop
  error_condition                 the `if <counter> > k:` guarding 'Unresolvable cross references'

Statements that belong to other checks (scope-provider selection: C32 / scope_tr.py, builtins
fallback: C07, tool-support bookkeeping: C34) are accepted under a frame condition: they do not
mention the resolver's queues, counters or the attribute being filled and contain no
return/continue/raise/loop-exit."""
import ast
from .common import parse_file, find_func, need, emit, TranslateError

PROTECTED = {"new_crossrefs", "delayed_crossrefs", "resolved_crossref_count", "current_crossrefs", "_crossrefs",
             "attr_value", "_list_ref_positions", "setattr", "positions", "idx", "obj", "attr", "crossref"}
# obj / attr / crossref may be READ by accepted statements but never stored
READ_OK = {"obj", "attr", "crossref"}
TRIPLE = "(obj, attr, crossref)"
BY_POSITION = ["positions = self._list_ref_positions.setdefault((id(obj), attr.name), [])",
               "idx = bisect.bisect_right(positions, crossref.position)",
               "positions.insert(idx, crossref.position)",
               "attr_value.insert(idx, resolved)"]
APPEND = ["attr_value.append(resolved)"]
INC = "resolved_crossref_count += 1"
MULT_TEST = "attr.mult in [MULT_ONEORMORE, MULT_ZEROORMORE]"


def _u(n):
    return ast.unparse(n)


def _nodoc(body):
    return [s for s in body if not (isinstance(s, ast.Expr) and isinstance(s.value, ast.Constant) and isinstance(s.value.value, str))]


def _frame_ok(stmt, what):
    """an accepted (foreign) statement must not touch what the model transcribes"""
    def walk(n, in_loop):
        if isinstance(n, (ast.Return, ast.Continue, ast.Raise, ast.Try, ast.While, ast.With, ast.Delete, ast.Global,
                          ast.Nonlocal, ast.Yield, ast.YieldFrom, ast.FunctionDef, ast.ClassDef, ast.Lambda)) and not (
                isinstance(n, ast.Lambda) and what == "sort"):
            raise TranslateError("%s: unexpected %s in an accepted statement: %s" % (what, type(n).__name__, _u(stmt)[:120]))
        if isinstance(n, ast.Break) and not in_loop:
            raise TranslateError("%s: `break` leaves the resolve loop: %s" % (what, _u(stmt)[:120]))
        if isinstance(n, ast.Name):
            if n.id in PROTECTED and not (n.id in READ_OK and isinstance(n.ctx, ast.Load)):
                raise TranslateError("%s: accepted statement touches `%s`: %s" % (what, n.id, _u(stmt)[:120]))
        if isinstance(n, ast.Attribute) and n.attr in PROTECTED - READ_OK:
            raise TranslateError("%s: accepted statement touches `.%s`: %s" % (what, n.attr, _u(stmt)[:120]))
        if isinstance(n, (ast.Attribute, ast.Subscript)) and isinstance(n.ctx, ast.Store):
            root = n
            while isinstance(root, (ast.Attribute, ast.Subscript)):
                root = root.value
            if isinstance(root, ast.Name) and root.id in READ_OK:
                raise TranslateError("%s: accepted statement stores into `%s`: %s" % (what, root.id, _u(stmt)[:120]))
        if isinstance(n, ast.Call) and isinstance(n.func, ast.Name) and n.func.id in ("setattr", "delattr", "exec", "eval"):
            raise TranslateError("%s: accepted statement calls %s: %s" % (what, n.func.id, _u(stmt)[:120]))
        for c in ast.iter_child_nodes(n):
            walk(c, in_loop or isinstance(n, ast.For))
    walk(stmt, False)


def _stores(stmt, name):
    return any(isinstance(n, ast.Name) and n.id == name and isinstance(n.ctx, ast.Store) for n in ast.walk(stmt))


def _queue_end(stmt, recv):
    """`recv.append(TRIPLE)` -> False (back) ; `recv.insert(0, TRIPLE)` -> True (front)"""
    s = _u(stmt)
    if s == "%s.append(%s)" % (recv, TRIPLE):
        return False
    if s == "%s.insert(0, %s)" % (recv, TRIPLE):
        return True
    raise TranslateError("Postponed branch: unrecognised re-queue statement for %s: %s" % (recv, s))


def _strip_inc(stmts):
    rest = [s for s in stmts if _u(s) != INC]
    n = len(stmts) - len(rest)
    need(n <= 1, "progress counter incremented more than once on one path")
    return rest, n == 1


def _resolve_one_step(tree):
    cls = [n for n in ast.walk(tree) if isinstance(n, ast.ClassDef) and n.name == "ReferenceResolver"]
    need(len(cls) == 1, "class ReferenceResolver not found")
    fn = find_func(tree, "resolve_one_step", cls="ReferenceResolver")
    need(_u(fn.args) == "self", "resolve_one_step signature changed")
    body = _nodoc(fn.body)
    required = ["current_crossrefs = self.parser._crossrefs", "new_crossrefs = []", "self.delayed_crossrefs = []",
                "resolved_crossref_count = 0", None, "self.parser._crossrefs = new_crossrefs",
                "return (resolved_crossref_count, self.delayed_crossrefs)"]
    k = 0
    loop = None
    for s in body:
        txt = _u(s)
        want = required[k] if k < len(required) else None
        if k < len(required) and want is None and isinstance(s, ast.For) and _u(s.iter) == "current_crossrefs":
            loop = s
            k += 1
        elif k < len(required) and want is not None and txt == want:
            k += 1
        else:
            _frame_ok(s, "resolve_one_step" if not txt.startswith("self.pos_crossref_list.sort(") else "sort")
    need(k == len(required) and loop is not None,
         "resolve_one_step: statement %r not found (in order)" % (required[k] if k < len(required) else "?"))
    need(_u(body[-1]) == required[-1], "resolve_one_step does not end with the return of (count, delayed)")
    need(_u(loop.target) == TRIPLE and not loop.orelse, "resolve loop header changed: for %s in current_crossrefs" % _u(loop.target))
    need(len(loop.body) == 1 and isinstance(loop.body[0], ast.If) and _u(loop.body[0].test) == "get_model(obj) == self.model",
         "resolve loop body is not `if get_model(obj) == self.model:`")
    top = loop.body[0]
    need([_u(s) for s in top.orelse] == ["new_crossrefs.append(%s)" % TRIPLE], "foreign-model branch changed")
    ib = top.body
    need(len(ib) >= 4 and _u(ib[0]) == "attr_value = getattr(obj, attr.name)", "attr_value = getattr(obj, attr.name) is not the first statement")
    post, unknown = ib[-1], ib[-2]
    # accepted region: provider selection, tool support, builtins fallback
    for s in ib[1:-2]:
        _frame_ok(s, "resolve loop")
    need(any(_stores(s, "resolved") for s in ib[1:-2]), "no statement assigns `resolved` before the Unknown-object test")
    # Unknown object
    need(isinstance(unknown, ast.If) and _u(unknown.test) == "resolved is None" and not unknown.orelse
         and isinstance(unknown.body[-1], ast.Raise), "`if resolved is None: raise ...` does not directly precede the Postponed test")
    r = unknown.body[-1].exc
    need(isinstance(r, ast.Call) and _u(r.func) == "TextXSemanticError"
         and {kw.arg: _u(kw.value) for kw in r.keywords}.get("err_type") == "UNKNOWN_OBJ_ERROR", "Unknown-object error changed")
    for s in unknown.body[:-1]:
        _frame_ok(s, "unknown object")
    # Postponed | resolved
    need(isinstance(post, ast.If) and _u(post.test) == "type(resolved) is Postponed", "`if type(resolved) is Postponed:` is not the last statement")
    need(len(post.body) == 2, "Postponed branch: expected exactly the two re-queue statements")
    by_recv = {}
    for s in post.body:
        need(isinstance(s, ast.Expr) and isinstance(s.value, ast.Call) and isinstance(s.value.func, ast.Attribute),
             "Postponed branch: unrecognised statement " + _u(s))
        by_recv[_u(s.value.func.value)] = s
    need(set(by_recv) == {"self.delayed_crossrefs", "new_crossrefs"}, "Postponed branch does not fill delayed_crossrefs and new_crossrefs: %r" % sorted(by_recv))
    reported_front = _queue_end(by_recv["self.delayed_crossrefs"], "self.delayed_crossrefs")
    requeued_front = _queue_end(by_recv["new_crossrefs"], "new_crossrefs")
    # resolved branch
    rest, inc_top = _strip_inc(post.orelse)
    need(len(rest) == 1 and isinstance(rest[0], ast.If) and _u(rest[0].test) == MULT_TEST,
         "resolved branch is not `if %s: ... else: ...`" % MULT_TEST)
    lst, inc_list = _strip_inc(rest[0].body)
    sca, inc_scalar = _strip_inc(rest[0].orelse)
    need(not (inc_top and (inc_list or inc_scalar)), "progress counter incremented twice for one reference")
    need([_u(s) for s in sca] == ["setattr(obj, attr.name, resolved)"], "scalar branch changed: %r" % [_u(s) for s in sca])
    ls = [_u(s) for s in lst]
    if ls == BY_POSITION:
        by_pos = True
    elif ls == APPEND:
        by_pos = False
    else:
        raise TranslateError("list branch: unrecognised way of storing the resolved reference: %r" % ls)
    # the position bookkeeping is private to this code
    src = _u(tree)
    if by_pos:
        need(src.count("_list_ref_positions") == 2 and "self._list_ref_positions = {}" in _u(find_func(tree, "__init__", cls="ReferenceResolver")),
             "_list_ref_positions is used outside resolve_one_step / not initialised empty")
    need("self.delayed_crossrefs = []" in _u(find_func(tree, "__init__", cls="ReferenceResolver")), "delayed_crossrefs not initialised empty")
    need(any(isinstance(s, ast.Import) and any(a.name == "bisect" and a.asname is None for a in s.names) for s in tree.body) or not by_pos,
         "`import bisect` not found")
    return {"by_pos": by_pos, "requeued_front": requeued_front, "reported_front": reported_front,
            "count_list": inc_top or inc_list, "count_scalar": inc_top or inc_scalar}


HAS_UNRESOLVED = ["if get_model(obj) != self.model:\n    return get_model(obj)._tx_reference_resolver.has_unresolved_crossrefs(obj)\n"
                  "else:\n    for crossref_obj, attr, _ in self.parser._crossrefs:\n"
                  "        if crossref_obj is obj and (not attr_name or attr_name == attr.name):\n            return True\n    return False"]


def _pending_query(tree):
    """has_unresolved_crossrefs (what needs_to_be_resolved answers to scope providers) scans parser._crossrefs,
    the list resolve_one_step replaces at its end: the `settled` snapshot of the model"""
    fn = find_func(tree, "has_unresolved_crossrefs", cls="ReferenceResolver")
    need([a.arg for a in fn.args.args] == ["self", "obj", "attr_name"], "has_unresolved_crossrefs signature changed")
    body = [_u(s) for s in _nodoc(fn.body)]
    need(body == HAS_UNRESOLVED, "has_unresolved_crossrefs no longer scans self.parser._crossrefs directly: %r" % body)
    ttree, _ = parse_file("textx/scoping/tools.py")
    nb = [_u(s) for s in _nodoc(find_func(ttree, "needs_to_be_resolved").body)]
    need(nb == ["if hasattr(get_model(parent_obj), '_tx_reference_resolver'):\n"
                "    return get_model(parent_obj)._tx_reference_resolver.has_unresolved_crossrefs(parent_obj, attr_name)\nelse:\n    return False"],
         "needs_to_be_resolved changed: %r" % nb)


def _cmp(e, what):
    need(isinstance(e, ast.Compare) and len(e.ops) == 1 and isinstance(e.ops[0], ast.Gt) and isinstance(e.left, ast.Name)
         and e.left.id in ("unresolved_count", "resolved_count") and isinstance(e.comparators[0], ast.Constant)
         and type(e.comparators[0].value) is int and e.comparators[0].value >= 0, "%s: unrecognised comparison %s" % (what, _u(e)))
    return (e.left.id == "unresolved_count", e.comparators[0].value)


def _loop(tree):
    fn = find_func(tree, "parse_tree_to_objgraph")
    whiles = [n for n in ast.walk(fn) if isinstance(n, ast.While) and "unresolved_count" in _u(n.test)]
    need(len(whiles) == 1, "resolution loop `while ... unresolved_count ...` not found")
    w = whiles[0]
    holder = [getattr(n, f) for n in ast.walk(fn) for f in ("body", "orelse", "finalbody")
              if isinstance(getattr(n, f, None), list) and w in getattr(n, f)]
    need(len(holder) == 1, "resolution loop: enclosing block not found")
    blk = holder[0]
    i = blk.index(w)
    need(i >= 2 and sorted([_u(blk[i - 2]), _u(blk[i - 1])]) == ["resolved_count = 1", "unresolved_count = 1"],
         "resolution loop: counters are not initialised to 1 directly before the loop")
    t = w.test
    if isinstance(t, ast.BoolOp):
        need(isinstance(t.op, ast.And), "resolution loop: condition is not a conjunction: " + _u(t))
        conj = [_cmp(v, "loop condition") for v in t.values]
    else:
        conj = [_cmp(t, "loop condition")]
    need(not w.orelse, "resolution loop has an else clause")
    wb = [_u(s) for s in w.body]
    need(wb == ["resolved_count = 0", "unresolved_count = 0",
                "for m in models:\n    resolved_count_for_this_model, delayed_crossrefs = m._tx_reference_resolver.resolve_one_step()\n"
                "    resolved_count += resolved_count_for_this_model\n    unresolved_count += len(delayed_crossrefs)"],
         "resolution loop body changed: %r" % wb)
    need(i + 1 < len(blk) and isinstance(blk[i + 1], ast.If) and not blk[i + 1].orelse, "no error test directly after the resolution loop")
    e = blk[i + 1]
    err = _cmp(e.test, "error condition")
    eb = e.body
    need(len(eb) == 3 and _u(eb[0]) == "error_text = 'Unresolvable cross references:'", "error text changed")
    outer = eb[1]
    need(isinstance(outer, ast.For) and _u(outer.target) == "m" and _u(outer.iter) == "models" and len(outer.body) == 1,
         "error: loop over models changed")
    inner = outer.body[0]
    need(isinstance(inner, ast.For) and _u(inner.target) == "(_, _, delayed)" and _u(inner.iter) == "m._tx_reference_resolver.delayed_crossrefs",
         "error: does not list m._tx_reference_resolver.delayed_crossrefs")
    adds = [s for s in inner.body if isinstance(s, ast.AugAssign) and _u(s.target) == "error_text"]
    need(len(adds) == 1 and isinstance(adds[0].op, ast.Add) and isinstance(adds[0].value, ast.JoinedStr), "error: one `error_text += f'...'` per delayed reference expected")
    fields = [_u(v.value) for v in adds[0].value.values if isinstance(v, ast.FormattedValue)]
    need(fields[:2] == ["delayed.obj_name", "delayed.cls.__name__"], "error: does not name the delayed reference: %r" % fields)
    for s in inner.body:
        if s is not adds[0]:
            need(isinstance(s, ast.Assign) and not any(isinstance(n, (ast.Continue, ast.Break)) for n in ast.walk(s)), "error: unexpected statement " + _u(s))
    need(isinstance(eb[2], ast.Raise) and isinstance(eb[2].exc, ast.Call) and _u(eb[2].exc.func) == "TextXSemanticError"
         and _u(eb[2].exc.args[0]) == "error_text", "error: raise TextXSemanticError(error_text, ...) changed")
    # cross-references are collected in textual order
    src = _u(fn)
    need(src.count("parser._crossrefs.append(") == 2 and src.count("parser._crossrefs") == 3,
         "parse_tree_to_objgraph: cross-references are no longer collected by two `parser._crossrefs.append(...)`")
    return conj, err


def translate():
    tree, _ = parse_file("textx/model.py")
    f = _resolve_one_step(tree)
    conj, err = _loop(tree)
    _pending_query(tree)
    b = lambda x: "true" if x else "false"
    pair = lambda p: "(%s, %d)" % (b(p[0]), p[1])
    emit("SrcResolve", "\n".join([
        "(* textx/model.py: ReferenceResolver.resolve_one_step and the resolution loop of parse_tree_to_objgraph *)",
        "Require Import Coq.Lists.List. Import ListNotations.",
        "(* a resolved list reference is inserted at bisect_right(stored positions, its position); false = appended *)",
        "Definition list_store_by_position : bool := %s." % b(f["by_pos"]),
        "(* a Postponed reference is put back with insert(0, ...) (true) / append (false) *)",
        "Definition postponed_requeued_at_front : bool := %s." % b(f["requeued_front"]),
        "Definition postponed_reported_at_front : bool := %s." % b(f["reported_front"]),
        "(* the progress counter is incremented for a resolved list / scalar reference *)",
        "Definition counts_list_resolution : bool := %s." % b(f["count_list"]),
        "Definition counts_scalar_resolution : bool := %s." % b(f["count_scalar"]),
        "(* while-condition: conjunction of `counter > k`; true = unresolved_count, false = resolved_count *)",
        "Definition loop_condition : list (bool * nat) := [%s]." % "; ".join(pair(p) for p in conj),
        "(* `if counter > k:` raising 'Unresolvable cross references' with the delayed references of all models, in model order *)",
        "Definition error_condition : bool * nat := %s." % pair(err),
        "(* compared as text: has_unresolved_crossrefs scans parser._crossrefs, which resolve_one_step replaces at its end *)",
        "Definition pending_query_is_snapshot_of_parser_crossrefs : bool := true.",
    ]) + "\n")
    return []
