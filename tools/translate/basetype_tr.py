"""Default base-type conversion processors of textx/metamodel.py -> Gen/SrcBaseConv.v.

Reads the `_default_obj_processors` dict by `ast` and recognises each lambda as one of a
few shapes, emitting its parameters as data:

  STRING  lambda x: <chain1> if x[0] == Q else <chain2>      (or one unconditional chain)
          where a chain is x[1:-1].replace(p1, r1).replace(p2, r2)...   -> test char + two lists of (pattern, replacement)
  BOOL    lambda x: x == A or x.lower() == B                   -> A, B
  INT     lambda x: int(x);  FLOAT / STRICTFLOAT  lambda x: float(x)

Fail closed: any other shape raises TranslateError.  Also checks that TextXMetaModel.process
applies the processor registered under the rule name and that process_match passes the
terminal's text and rule name.
"""
import ast

from .common import parse_file, need, emit, coq_codes, TranslateError


def _const_str(e):
    need(isinstance(e, ast.Constant) and isinstance(e.value, str), "expected a string constant, got " + ast.unparse(e))
    return e.value


def _chain(e, var):
    """x[1:-1].replace(a, b).replace(c, d) -> [(a, b), (c, d)]"""
    steps = []
    while isinstance(e, ast.Call):
        need(isinstance(e.func, ast.Attribute) and e.func.attr == "replace" and len(e.args) == 2 and not e.keywords,
             "unsupported call in STRING processor: " + ast.unparse(e))
        pat, rep = _const_str(e.args[0]), _const_str(e.args[1])
        need(len(pat) > 0, "empty replace pattern")
        steps.append((pat, rep))
        e = e.func.value
    need(ast.unparse(e) == "%s[1:-1]" % var, "STRING processor does not start from x[1:-1]: " + ast.unparse(e))
    steps.reverse()
    return steps


def _lam(d, key):
    v = d.get(key)
    need(isinstance(v, ast.Lambda) and len(v.args.args) == 1 and not v.args.defaults and not v.args.kwonlyargs
         and v.args.vararg is None and v.args.kwarg is None, "processor for %s is not a one-argument lambda" % key)
    return v.args.args[0].arg, v.body


def _coq_chain(steps):
    return "[" + "; ".join("(%s, %s)" % (coq_codes(p), coq_codes(r)) for p, r in steps) + "]"


def translate():
    tree, _ = parse_file("textx/metamodel.py")
    dicts = [n for n in ast.walk(tree) if isinstance(n, ast.Assign) and len(n.targets) == 1
             and ast.unparse(n.targets[0]) == "self._default_obj_processors"]
    need(len(dicts) == 1 and isinstance(dicts[0].value, ast.Dict), "_default_obj_processors dict not found")
    dv = dicts[0].value
    d = {_const_str(k): v for k, v in zip(dv.keys, dv.values)}
    need(sorted(d) == ["BOOL", "FLOAT", "INT", "STRICTFLOAT", "STRING"], "default processors are for %r" % sorted(d))
    # INT / FLOAT
    for key, fn in (("INT", "int"), ("FLOAT", "float"), ("STRICTFLOAT", "float")):
        var, body = _lam(d, key)
        need(ast.unparse(body) == "%s(%s)" % (fn, var), "%s processor is %s" % (key, ast.unparse(body)))
    # BOOL
    var, body = _lam(d, "BOOL")
    need(isinstance(body, ast.BoolOp) and isinstance(body.op, ast.Or) and len(body.values) == 2, "BOOL processor shape changed")
    a, b = body.values
    need(isinstance(a, ast.Compare) and len(a.ops) == 1 and isinstance(a.ops[0], ast.Eq) and ast.unparse(a.left) == var,
         "BOOL first test changed")
    need(isinstance(b, ast.Compare) and len(b.ops) == 1 and isinstance(b.ops[0], ast.Eq) and ast.unparse(b.left) == var + ".lower()",
         "BOOL second test changed")
    bool_exact, bool_lower = _const_str(a.comparators[0]), _const_str(b.comparators[0])
    # STRING
    var, body = _lam(d, "STRING")
    if isinstance(body, ast.IfExp):
        t = body.test
        need(isinstance(t, ast.Compare) and len(t.ops) == 1 and isinstance(t.ops[0], ast.Eq)
             and ast.unparse(t.left) == var + "[0]", "STRING processor test changed: " + ast.unparse(t))
        q = _const_str(t.comparators[0])
        need(len(q) == 1, "STRING processor test is not against one character")
        then_chain, else_chain = _chain(body.body, var), _chain(body.orelse, var)
    else:
        q = '"'
        then_chain = else_chain = _chain(body, var)
    # the glue: process() applies the registered processor; registration starts from the defaults
    proc = [n for n in ast.walk(tree) if isinstance(n, ast.FunctionDef) and n.name == "process"]
    need(len(proc) == 1 and "return self._obj_processors.get(_type, lambda x: x)(value)" in ast.unparse(proc[0]),
         "TextXMetaModel.process changed")
    reg = [n for n in ast.walk(tree) if isinstance(n, ast.FunctionDef) and n.name == "register_obj_processors"]
    need(len(reg) == 1 and "self._obj_processors = dict(self._default_obj_processors)" in ast.unparse(reg[0]),
         "register_obj_processors changed")
    mtree, _ = parse_file("textx/model.py")
    pm = [n for n in ast.walk(mtree) if isinstance(n, ast.FunctionDef) and n.name == "process_match"]
    need(len(pm) == 1, "process_match not found")
    first = pm[0].body[-1]
    need(isinstance(first, ast.If) and ast.unparse(first.test) == "isinstance(nt, Terminal)"
         and ast.unparse(first.body[0]).replace(" ", "").startswith("returnmetamodel.process(nt.value,nt.rule_name,"),
         "process_match terminal branch changed")
    import arpeggio
    ws = arpeggio.DEFAULT_WS
    need(isinstance(ws, str) and 0 < len(ws) < 16, "arpeggio.DEFAULT_WS changed")
    emit("SrcBaseConv", "\n".join([
        "From TxV Require Import Core.Base.",
        "(* STRING: x[1:-1], then if x[0] == conv_string_test the first chain of str.replace steps else the second *)",
        "Definition conv_string_test : N := %d%%N." % ord(q),
        "Definition conv_string_then : list (list N * list N) := %s." % _coq_chain(then_chain),
        "Definition conv_string_else : list (list N * list N) := %s." % _coq_chain(else_chain),
        "(* BOOL: x == conv_bool_exact or x.lower() == conv_bool_lower *)",
        "Definition conv_bool_exact : list N := %s." % coq_codes(bool_exact),
        "Definition conv_bool_lower : list N := %s." % coq_codes(bool_lower),
        "(* INT: int(x); FLOAT, STRICTFLOAT: float(x) (checked shapes, no data) *)",
        "(* whitespace skipped before every match (arpeggio.DEFAULT_WS) *)",
        "Definition src_ws : list N := %s." % coq_codes(ws),
    ]) + "\n")
    return []
