"""Helpers for the fail-closed source translators."""
import ast
import os
import sys

sys.path.insert(0, os.path.dirname(os.path.dirname(os.path.abspath(__file__))))
from vt import core  # noqa: E402


class TranslateError(Exception):
    pass


def parse_file(rel):
    path = os.path.join(core.REPO, rel)
    with open(path, encoding="utf-8") as f:
        src = f.read()
    return ast.parse(src), src


def find_func(tree, name, cls=None):
    for node in ast.walk(tree):
        if cls is not None:
            if isinstance(node, ast.ClassDef) and node.name == cls:
                for sub in node.body:
                    if isinstance(sub, (ast.FunctionDef,)) and sub.name == name:
                        return sub
        elif isinstance(node, ast.FunctionDef) and node.name == name:
            return node
    raise TranslateError("function %s%s not found" % ((cls + ".") if cls else "", name))


def need(cond, msg):
    if not cond:
        raise TranslateError(msg)


def dump(node):
    return ast.dump(node, annotate_fields=False)


def emit(name, text):
    """Write coq/Gen/<name>.v when changed."""
    header = "(* GENERATED from %s on every run by tools/translate; do not edit. *)\n" % core.REPO
    core.write_if_changed(os.path.join(core.GEN, name + ".v"), header + text)


def coq_codes(s):
    return "[" + ";".join(str(ord(c)) for c in s) + "]%N"
