"""Facts about the state that survives a model load -> Gen/SrcHistory.v  (C16)

Read with `ast` from textx/lang.py, textx/model.py, textx/metamodel.py and the installed
arpeggio/__init__.py.  Every fact has a recognised "yes" shape and a recognised "no" shape;
anything else raises (fail closed)."""
import ast
import os

from .common import parse_file, find_func, need, emit, TranslateError


def _u(n):
    return ast.unparse(n)


def _calls(node, attr):
    return [c for c in ast.walk(node) if isinstance(c, ast.Call) and isinstance(c.func, ast.Attribute) and c.func.attr == attr]


def _has_stmt(stmts, text):
    return any(_u(s) == text for s in stmts)


def fact_gp_key(tree):
    f = find_func(tree, "language_from_str")
    tests = [n for n in ast.walk(f) if isinstance(n, ast.If) and isinstance(n.test, ast.Compare)
             and len(n.test.ops) == 1 and isinstance(n.test.ops[0], ast.In) and _u(n.test.comparators[0]) == "textX_parsers"]
    need(len(tests) == 1, "language_from_str: cache test `<key> in textX_parsers` not found")
    t = tests[0]
    key = _u(t.test.left)
    need(_u(t.body[0]) == "parser = textX_parsers[%s]" % key, "language_from_str: cache hit does not read textX_parsers[%s]" % key)
    stores = [n for n in ast.walk(t) if isinstance(n, ast.Assign) and isinstance(n.targets[0], ast.Subscript)
              and _u(n.targets[0].value) == "textX_parsers"]
    need(len(stores) == 1 and _u(stores[0].targets[0].slice) == key and _u(stores[0].value) == "parser",
         "language_from_str: cache store does not use the same key")
    mk = [c for c in ast.walk(t) if isinstance(c, ast.Call) and _u(c.func) == "ParserPython"]
    need(len(mk) == 1, "language_from_str: ParserPython(...) construction not found")
    kws = {k.arg: _u(k.value) for k in mk[0].keywords}
    need(kws.get("memoization") == "metamodel.memoization" and kws.get("debug") == "metamodel.debug",
         "language_from_str: grammar parser flags changed: %r" % kws)
    if key == "metamodel.debug":
        return False
    if key.replace(" ", "") in ("(metamodel.debug,metamodel.memoization)", "(metamodel.memoization,metamodel.debug)"):
        return True
    raise TranslateError("language_from_str: unrecognised parser cache key: " + key)


def fact_clear_in_finally():
    import arpeggio
    path = os.path.join(os.path.dirname(arpeggio.__file__), "__init__.py")
    with open(path, encoding="utf-8") as fh:
        tree = ast.parse(fh.read())
    f = find_func(tree, "parse", cls="Parser")
    tries = [n for n in f.body if isinstance(n, ast.Try)]
    need(len(tries) == 1 and _u(tries[0].body[0]) == "self.parse_tree = self._parse()", "arpeggio Parser.parse: try/_parse shape changed")
    fin = tries[0].finalbody
    clr = find_func(tree, "_clear_caches", cls="Parser")
    need("self.parser_model._clear_cache()" in _u(clr) and "self.comments_model._clear_cache()" in _u(clr),
         "arpeggio Parser._clear_caches changed")
    resets = [_u(s) for s in f.body if isinstance(s, ast.Assign)]
    for w in ("self.position = 0", "self.nm = None", "self.comment_positions = {}", "self.input = _input", "self.line_ends = []"):
        need(w in resets, "arpeggio Parser.parse no longer resets: " + w)
    pe = find_func(tree, "parse", cls="ParsingExpression")
    need("if parser.memoization:" in _u(pe) and "self._result_cache[c_pos] = (result, parser.position)" in _u(pe),
         "arpeggio ParsingExpression.parse memoization shape changed")
    for s in fin:
        if isinstance(s, ast.If) and _u(s.test) == "self.memoization" and _has_stmt(s.body, "self._clear_caches()"):
            return True
    need(not any("_clear_caches" in _u(s) for s in fin), "arpeggio Parser.parse: unrecognised cache clearing in finally")
    return False


def fact_loads_use_clone(tree):
    cls = [n for n in ast.walk(tree) if isinstance(n, ast.ClassDef) and n.name == "TextXMetaModel"]
    need(len(cls) == 1, "TextXMetaModel not found")
    sites = _calls(cls[0], "get_model_from_str") + _calls(cls[0], "get_model_from_file")
    need(len(sites) >= 2, "model_from_str/internal_model_from_file: parser call sites not found")
    recv = {_u(c.func.value) for c in sites}
    if recv == {"self._parser_blueprint.clone()"}:
        return True
    need(recv <= {"self._parser_blueprint.clone()", "self._parser_blueprint"}, "unrecognised parser receivers: %r" % sorted(recv))
    return False


def fact_clone_resets(tree):
    f = find_func(tree, "clone")
    src = [_u(s) for s in f.body]
    need("the_clone = copy.copy(self)" in src and src[-1] == "return the_clone", "clone(): shape changed")
    assigned = {_u(s.targets[0]) for s in f.body if isinstance(s, ast.Assign)}
    fresh = {"the_clone._inst_stack": "[]", "the_clone._instances": "{}", "the_clone._crossrefs": "[]", "the_clone.comment_positions": "{}"}
    ok = True
    for s in f.body:
        if isinstance(s, ast.Assign) and _u(s.targets[0]) in fresh:
            if _u(s.value) != fresh[_u(s.targets[0])]:
                ok = False
    return ok and set(fresh) <= assigned


def facts_get_model_from_str(tree):
    f = find_func(tree, "get_model_from_str")
    tries = [n for n in f.body if isinstance(n, ast.Try)]
    need(len(tries) == 1, "get_model_from_str: try block not found")
    t = tries[0]
    flat = []
    for s in t.body:
        flat.append(s)
    idx = {}
    for i, s in enumerate(flat):
        u = _u(s)
        if u.startswith("self.parse(model_str"):
            idx["parse"] = i
        elif u == "self._replace_user_attr_methods()":
            idx["replace"] = i
        elif u.startswith("model = parse_tree_to_objgraph("):
            idx["build"] = i
    need(set(idx) == {"parse", "replace", "build"} and idx["parse"] < idx["replace"] < idx["build"],
         "get_model_from_str: parse / _replace_user_attr_methods / parse_tree_to_objgraph order changed")
    need(len(t.handlers) == 1 and t.handlers[0].type is None and _u(t.handlers[0].body[-1]) == "raise",
         "get_model_from_str: bare except ... raise not found")
    hb = [_u(s) for s in t.handlers[0].body]
    except_restores = "self._restore_user_attr_methods()" in hb
    need(except_restores or not any("_restore_user_attr_methods" in x for x in hb), "get_model_from_str: unrecognised restore in except")
    prim = imm = False
    for s in flat[idx["build"] + 1:]:
        if isinstance(s, ast.If) and _has_stmt(s.body, "self._restore_user_attr_methods()") and len(s.body) == 1 and not s.orelse:
            test = _u(s.test)
            if test == "not hasattr(model, '_tx_parser')":          # every value _end_model_construction cannot reach
                prim = imm = True
            elif test == "type(model) in PRIMITIVE_PYTHON_TYPES":    # int / float / str / bool only
                prim = True
            else:
                raise TranslateError("get_model_from_str: unrecognised condition of the restore after model construction: " + test)
        else:
            need("_restore_user_attr_methods" not in _u(s), "get_model_from_str: unrecognised restore after model construction: " + _u(s)[:80])
    if prim and not imm:
        pt = [n for n in ast.walk(tree) if isinstance(n, ast.ImportFrom) and any(a.name == "PRIMITIVE_PYTHON_TYPES" for a in n.names)]
        ltree, _ = parse_file("textx/lang.py")
        defs = [_u(n.value) for n in ast.walk(ltree) if isinstance(n, ast.Assign) and _u(n.targets[0]) == "PRIMITIVE_PYTHON_TYPES"]
        need(pt and defs == ["[int, float, str, bool]"], "PRIMITIVE_PYTHON_TYPES is not [int, float, str, bool]: %r" % defs)
    need(_u(f.body[-1]) == "return model", "get_model_from_str: return changed")
    rep = _u(find_func(tree, "_replace_user_attr_methods"))
    need("if '_tx_instrumented' not in user_class.__dict__:" in rep and "user_class._tx_instrumented += 1" in rep,
         "_replace_user_attr_methods: install-or-increment shape changed")
    need("user_class._tx_instrumented = 1" in _u(find_func(tree, "_replace_user_attr_methods_for_class")), "instrumentation start value changed")
    res = _u(find_func(tree, "_restore_user_attr_methods"))
    need("if hasattr(user_class, '_tx_instrumented'):" in res and "user_class._tx_instrumented -= 1" in res
         and "if user_class._tx_instrumented == 0:" in res and "delattr(user_class, '_tx_instrumented')" in res,
         "_restore_user_attr_methods: decrement / remove-at-zero shape changed")
    # Guarded restore: each parser records the classes it has instrumented (`_user_classes_replaced`, emptied at the
    # start of get_model_from_str, appended to by _replace_user_attr_methods) and _restore_user_attr_methods consumes that
    # record, so a parser that replaced nothing (parse failure) or restored already undoes nothing.
    rf = find_func(tree, "_restore_user_attr_methods")
    body = [x for x in rf.body if not (isinstance(x, ast.Expr) and isinstance(x.value, ast.Constant))]
    loops = [x for x in body if isinstance(x, ast.For)]
    need(len(loops) == 1 and _u(loops[0].target) == "user_class", "_restore_user_attr_methods: loop over user classes not found")
    it = _u(loops[0].iter)
    if it == "self.metamodel.user_classes.values()":
        need("_user_classes_replaced" not in res, "_restore_user_attr_methods: unrecognised use of the per-parser record")
        guard = False
    else:
        swap = [x for x in body if isinstance(x, ast.Assign) and _u(x.targets[0]).replace(" ", "") == "(%s,self._user_classes_replaced)" % it]
        need(it == "user_classes" and len(swap) == 1 and body.index(swap[0]) < body.index(loops[0])
             and _u(swap[0].value).replace(" ", "") == "(self._user_classes_replaced,[])",
             "_restore_user_attr_methods: the per-parser record is not consumed before the loop")
        need("self._user_classes_replaced.append(user_class)" in rep, "_replace_user_attr_methods does not record the classes it instruments")
        pre = [_u(x) for x in f.body[:f.body.index(t)]]
        need("self._user_classes_replaced = []" in pre, "get_model_from_str does not start with an empty per-parser record")
        guard = True
    return except_restores, prim, imm, guard


def fact_end_restores(tree):
    f = find_func(tree, "_end_model_construction")
    need(_u(f.body[-1]).startswith("if hasattr(model, '_tx_parser'):") or any(
        isinstance(s, ast.If) and _u(s.test) == "hasattr(model, '_tx_parser')" for s in f.body), "_end_model_construction: shape changed")
    for s in f.body:
        if isinstance(s, ast.If) and _u(s.test) == "hasattr(model, '_tx_parser')":
            if _has_stmt(s.body, "the_parser._restore_user_attr_methods()") and _has_stmt(s.body, "the_parser = model._tx_parser"):
                return True
    need("_restore_user_attr_methods" not in _u(f), "_end_model_construction: unrecognised restore")
    return False


def extract():
    ltree, _ = parse_file("textx/lang.py")
    mtree, _ = parse_file("textx/model.py")
    mmtree, _ = parse_file("textx/metamodel.py")
    ex, prim, imm, guard = facts_get_model_from_str(mtree)
    # the call that ends construction for every included model of a main load
    p2o = find_func(mtree, "parse_tree_to_objgraph")
    need("for m in models:\n    _end_model_construction(m)" in _u(p2o).replace("        ", "").replace("    _end", "    _end")
         or "_end_model_construction(m)" in _u(p2o), "parse_tree_to_objgraph no longer ends model construction")
    return {
        "f_gp_key_memo": fact_gp_key(ltree),
        "f_clear_in_finally": fact_clear_in_finally(),
        "f_loads_use_clone": fact_loads_use_clone(mmtree),
        "f_clone_resets": fact_clone_resets(mtree),
        "f_except_restores": ex,
        "f_end_restores": fact_end_restores(mtree),
        "f_restore_on_primitive": prim,
        "f_restore_on_immutable": imm,
        "f_restore_guarded": guard,
    }


def translate():
    facts = extract()
    b = lambda x: "true" if x else "false"
    emit("SrcHistory", "From TxV Require Import Model.History.\nDefinition src_facts : facts := {|\n  "
         + ";\n  ".join("%s := %s" % (k, b(v)) for k, v in facts.items()) + " |}.\n")
    return []
