"""textx/lang.py: keyword-like detection (TextXVisitor.__init__), visit_str_match, visit_re_match
-> Gen/SrcKw.v.  Fail closed: every statement of the three functions must have the shape the
model (Model/Kw.v) transcribes; the data-like facts (detection pattern, regex prefix/suffix
put around a keyword-like literal, the autokwd guard, the full-span test, the ignore_case
argument of the three terminal constructors) are emitted as definitions."""
import ast
from .common import parse_file, find_func, need, emit, coq_codes, TranslateError

MM_ICASE = "self.metamodel.ignore_case"


def _icase_arg(call, what):
    need(isinstance(call, ast.Call), what + ": not a call")
    kws = {k.arg: k.value for k in call.keywords}
    need(None not in kws, what + ": **kwargs in terminal constructor")
    v = kws.get("ignore_case")
    if v is None:
        return "IcAbsent", kws
    if isinstance(v, ast.Constant) and isinstance(v.value, bool):
        return "(IcConst %s)" % ("true" if v.value else "false"), kws
    need(ast.unparse(v) == MM_ICASE, what + ": unrecognised ignore_case argument " + ast.unparse(v))
    return "IcMM", kws


def _raising_handler(h, where):
    """an extra except clause is accepted only when it cannot influence which terminal is built:
    it never binds to_match / returns, and always ends by raising"""
    need(h.type is not None, where + ": bare except clause")
    need(h.body and isinstance(h.body[-1], ast.Raise), where + ": extra handler does not end with raise")
    for st in h.body:
        for n in ast.walk(st):
            need(not isinstance(n, (ast.Return, ast.Yield, ast.YieldFrom, ast.Try, ast.NamedExpr)), where + ": extra handler returns or nests control flow")
            if isinstance(n, (ast.Name, ast.Attribute)) and isinstance(getattr(n, "ctx", None), ast.Store):
                need(isinstance(n, ast.Name) and n.id in ("line", "col"), where + ": extra handler assigns " + ast.unparse(n))
        need(isinstance(st, (ast.Assign, ast.Raise)), where + ": extra handler statement " + type(st).__name__)


def translate():
    tree, _ = parse_file("textx/lang.py")
    # ---------------------------------------------------------------- __init__: the detection regex
    init = find_func(tree, "__init__", "TextXVisitor")
    stmts = [ast.unparse(s) for s in init.body]
    need("flags = 0" in stmts, "TextXVisitor.__init__: `flags = 0` missing")
    i0 = stmts.index("flags = 0")
    need(stmts[i0 + 1] == "if metamodel.ignore_case:\n    flags = re.IGNORECASE", "TextXVisitor.__init__: flags computation changed: " + stmts[i0 + 1])
    asg = init.body[i0 + 2]
    need(isinstance(asg, ast.Assign) and ast.unparse(asg.targets[0]) == "self.keyword_regex", "keyword_regex assignment moved")
    c = asg.value
    need(isinstance(c, ast.Call) and ast.unparse(c.func) == "re.compile" and len(c.args) == 2 and not c.keywords
         and isinstance(c.args[0], ast.Constant) and isinstance(c.args[0].value, str) and ast.unparse(c.args[1]) == "flags",
         "keyword_regex is not re.compile(<literal>, flags)")
    pattern = c.args[0].value
    n_assign = sum(1 for n in ast.walk(tree) if isinstance(n, (ast.Assign, ast.AugAssign)) and
                   any("keyword_regex" in ast.unparse(t) for t in (n.targets if isinstance(n, ast.Assign) else [n.target])))
    need(n_assign == 1, "keyword_regex assigned in %d places" % n_assign)

    # ---------------------------------------------------------------- visit_str_match
    f = find_func(tree, "visit_str_match", "TextXVisitor")
    need(len(f.body) == 3, "visit_str_match: statement count changed")
    tr, guard, ret = f.body
    need(isinstance(tr, ast.Try) and not tr.orelse and not tr.finalbody and
         "\n".join(ast.unparse(x) for x in tr.body) ==
         "to_match = children[0][1:-1]\nif '\\\\' in to_match:\n    to_match = decode_escapes(to_match)",
         "visit_str_match: literal extraction changed")
    need(len(tr.handlers) >= 1 and ast.unparse(tr.handlers[0]) == "except IndexError:\n    to_match = ''",
         "visit_str_match: IndexError handler changed")
    for h in tr.handlers[1:]:
        _raising_handler(h, "visit_str_match")
    need(isinstance(guard, ast.If) and not guard.orelse, "visit_str_match: autokwd guard changed")
    gtest = ast.unparse(guard.test)
    need(gtest == "self.metamodel.autokwd", "visit_str_match: autokwd guard is `%s`" % gtest)
    need(len(guard.body) == 2, "visit_str_match: autokwd branch changed")
    m, inner = guard.body
    need(ast.unparse(m) == "match = self.keyword_regex.match(to_match)", "visit_str_match: detection call changed: " + ast.unparse(m))
    need(isinstance(inner, ast.If) and not inner.orelse, "visit_str_match: detection test changed")
    need(ast.unparse(inner.test) == "match and match.span() == (0, len(to_match))", "visit_str_match: full-span test changed: " + ast.unparse(inner.test))
    need(len(inner.body) == 3, "visit_str_match: keyword branch changed")
    mk, comp, rret = inner.body
    need(isinstance(mk, ast.Assign) and ast.unparse(mk.targets[0]) == "regex_match" and isinstance(mk.value, ast.Call)
         and ast.unparse(mk.value.func) == "RegExMatch" and len(mk.value.args) == 1, "visit_str_match: RegExMatch construction changed")
    pat = mk.value.args[0]
    prefix, suffix, holes = "", "", 0
    if isinstance(pat, ast.JoinedStr):
        for part in pat.values:
            if isinstance(part, ast.Constant) and isinstance(part.value, str):
                if holes == 0:
                    prefix += part.value
                else:
                    suffix += part.value
            else:
                need(isinstance(part, ast.FormattedValue) and ast.unparse(part.value) == "to_match" and part.conversion == -1
                     and part.format_spec is None, "visit_str_match: unexpected hole in the keyword regex")
                holes += 1
    else:
        raise TranslateError("visit_str_match: keyword regex is not an f-string around to_match: " + ast.unparse(pat))
    need(holes == 1, "visit_str_match: keyword regex uses to_match %d times" % holes)
    kw_ic, kws = _icase_arg(mk.value, "keyword RegExMatch")
    need(set(kws) <= {"ignore_case", "str_repr"}, "keyword RegExMatch: unexpected arguments %s" % sorted(kws))
    need("str_repr" in kws and ast.unparse(kws["str_repr"]) == "to_match", "keyword RegExMatch: str_repr is not to_match")
    need(ast.unparse(comp) == "regex_match.compile()" and ast.unparse(rret) == "return regex_match", "visit_str_match: keyword branch tail changed")
    need(isinstance(ret, ast.Return) and isinstance(ret.value, ast.Call) and ast.unparse(ret.value.func) == "StrMatch"
         and len(ret.value.args) == 1 and ast.unparse(ret.value.args[0]) == "to_match", "visit_str_match: StrMatch construction changed")
    str_ic, kws = _icase_arg(ret.value, "StrMatch")
    need(set(kws) <= {"ignore_case"}, "StrMatch: unexpected arguments %s" % sorted(kws))

    # ---------------------------------------------------------------- visit_re_match
    f = find_func(tree, "visit_re_match", "TextXVisitor")
    need(len(f.body) == 4, "visit_re_match: statement count changed")
    a0, a1, t2, r3 = f.body
    need(ast.unparse(a0) == "to_match = node.extra_info.group(1)", "visit_re_match: pattern extraction changed")
    need(isinstance(a1, ast.Assign) and ast.unparse(a1.targets[0]) == "regex" and isinstance(a1.value, ast.Call)
         and ast.unparse(a1.value.func) == "RegExMatch" and len(a1.value.args) == 1 and ast.unparse(a1.value.args[0]) == "to_match",
         "visit_re_match: RegExMatch construction changed")
    re_ic, kws = _icase_arg(a1.value, "user RegExMatch")
    need(set(kws) <= {"ignore_case"}, "user RegExMatch: unexpected arguments %s" % sorted(kws))
    need(isinstance(t2, ast.Try) and len(t2.body) == 1 and ast.unparse(t2.body[0]) == "regex.compile()" and not t2.orelse and not t2.finalbody,
         "visit_re_match: compile step changed")
    for h in t2.handlers:
        _raising_handler(h, "visit_re_match")
    need(ast.unparse(r3) == "return regex", "visit_re_match: return changed")

    emit("SrcKw", "\n".join([
        "From TxV Require Import Core.Base Model.KwDefs.",
        "(* TextXVisitor.__init__: self.keyword_regex = re.compile(<pattern>, flags) *)",
        "Definition src_kw_pattern : list N := %s." % coq_codes(pattern),
        "(* visit_str_match: if self.metamodel.autokwd: ... *)",
        "Definition src_kw_guard_is_autokwd : bool := true.",
        "(* visit_str_match: match and match.span() == (0, len(to_match)) *)",
        "Definition src_kw_full_span : bool := true.",
        "(* visit_str_match: RegExMatch(f\"<prefix>{to_match}<suffix>\", ...) *)",
        "Definition src_kw_prefix : list N := %s." % coq_codes(prefix),
        "Definition src_kw_suffix : list N := %s." % coq_codes(suffix),
        "Definition src_kw_icase : icase_arg := %s." % kw_ic,
        "Definition src_str_icase : icase_arg := %s." % str_ic,
        "Definition src_re_icase : icase_arg := %s." % re_ic,
    ]) + "\n")
    return []
