"""textx/model.py: the `parent` assignment of process_node and the attribute loop of
get_children -> Gen/SrcNav.v (data-like facts only; fail closed).

Facts emitted:
  src_parent_stack_index / src_parent_tuple_index   the two subscripts of
        `obj_attrs.parent = parser._inst_stack[i][j]`
  src_stack_entry_inst_pos     position of `inst` in the tuple pushed on parser._inst_stack
  src_parent_guard_nonempty    the assignment is guarded by exactly `if parser._inst_stack:`
  src_parent_after_pop         in the enclosing block: children loop < `_inst_stack.pop()` < assignment
  src_single_mults             names in `attr.mult in (...)` selecting the single-valued branch
  src_follow_guard             the test guarding the descent (`attr.cont`)
"""
import ast
from .common import parse_file, find_func, need, emit, coq_codes, TranslateError


def _blocks(fn):
    for node in ast.walk(fn):
        for field in ("body", "orelse", "finalbody"):
            b = getattr(node, field, None)
            if isinstance(b, list) and b and isinstance(b[0], ast.stmt):
                yield b


def _int_const(e):
    if isinstance(e, ast.Constant) and isinstance(e.value, int):
        return e.value
    if isinstance(e, ast.UnaryOp) and isinstance(e.op, ast.USub) and isinstance(e.operand, ast.Constant) and isinstance(e.operand.value, int):
        return -e.operand.value
    raise TranslateError("subscript is not an integer literal: " + ast.unparse(e))


def translate():
    tree, _ = parse_file("textx/model.py")
    outer = find_func(tree, "parse_tree_to_objgraph")
    pn = [n for n in ast.walk(outer) if isinstance(n, ast.FunctionDef) and n.name == "process_node"]
    need(len(pn) == 1, "process_node not found")
    pn = pn[0]
    assigns = [n for n in ast.walk(pn) if isinstance(n, ast.Assign) and len(n.targets) == 1
               and isinstance(n.targets[0], ast.Attribute) and n.targets[0].attr == "parent"]
    need(len(assigns) == 1, "expected exactly one assignment to `.parent` in process_node, found %d" % len(assigns))
    asg = assigns[0]
    need(ast.unparse(asg.targets[0].value) == "obj_attrs", "parent is assigned on %s, not obj_attrs" % ast.unparse(asg.targets[0].value))
    v = asg.value
    need(isinstance(v, ast.Subscript) and isinstance(v.value, ast.Subscript)
         and ast.unparse(v.value.value) == "parser._inst_stack", "parent value is not parser._inst_stack[i][j]: " + ast.unparse(v))
    stack_index, tuple_index = _int_const(v.value.slice), _int_const(v.slice)
    # the guard and the position in the enclosing block
    guard = [n for n in ast.walk(pn) if isinstance(n, ast.If) and asg in n.body]
    need(len(guard) == 1 and len(guard[0].body) == 1 and not guard[0].orelse, "parent assignment is not alone under one `if`")
    guard = guard[0]
    guard_ok = ast.unparse(guard.test) == "parser._inst_stack"
    need(guard_ok, "guard of the parent assignment changed: " + ast.unparse(guard.test))
    block = [b for b in _blocks(pn) if guard in b]
    need(len(block) == 1, "enclosing block of the parent assignment not found")
    block = block[0]
    loops = [i for i, s in enumerate(block) if isinstance(s, ast.For) and ast.unparse(s.iter) == "node"
             and any(isinstance(c, ast.Call) and ast.unparse(c.func) == "process_node" for c in ast.walk(s))]
    pops = [i for i, s in enumerate(block) if ast.unparse(s) == "parser._inst_stack.pop()"]
    pushes = [s for s in block if isinstance(s, ast.Expr) and isinstance(s.value, ast.Call)
              and ast.unparse(s.value.func) == "parser._inst_stack.append"]
    need(len(loops) == 1 and len(pops) == 1 and len(pushes) == 1, "push / children loop / pop not found once each in the block")
    after_pop = block.index(pushes[0]) < loops[0] < pops[0] < block.index(guard)
    pushed = pushes[0].value.args
    need(len(pushed) == 1 and isinstance(pushed[0], ast.Tuple), "pushed stack entry is not a tuple")
    elts = [ast.unparse(e) for e in pushed[0].elts]
    need("inst" in elts, "pushed stack entry does not contain inst: %r" % elts)
    inst_pos = elts.index("inst")

    gc = find_func(tree, "get_children")
    tests = [n for n in ast.walk(gc) if isinstance(n, ast.Compare) and ast.unparse(n.left) == "attr.mult"]
    need(len(tests) == 1 and len(tests[0].ops) == 1 and isinstance(tests[0].ops[0], ast.In)
         and isinstance(tests[0].comparators[0], (ast.Tuple, ast.List)), "`attr.mult in (...)` test of get_children changed")
    mults = [ast.unparse(e) for e in tests[0].comparators[0].elts]
    need(all(m.startswith("MULT_") for m in mults), "unexpected multiplicity names %r" % mults)
    branch = [n for n in ast.walk(gc) if isinstance(n, ast.If) and n.test is tests[0]]
    need(len(branch) == 1, "multiplicity branch not found")
    outer_if = [n for n in ast.walk(gc) if isinstance(n, ast.If) and branch[0] in n.body]
    need(len(outer_if) == 1 and len(outer_if[0].body) == 1 and not outer_if[0].orelse, "descent is not guarded by a single `if`")
    follow_guard = ast.unparse(outer_if[0].test)
    b2c = lambda x: "true" if x else "false"  # noqa: E731
    emit("SrcNav", "\n".join([
        "From TxV Require Import Core.Base.",
        "Definition src_parent_stack_index : Z := (%d)%%Z." % stack_index,
        "Definition src_parent_tuple_index : Z := (%d)%%Z." % tuple_index,
        "Definition src_stack_entry_inst_pos : Z := (%d)%%Z." % inst_pos,
        "Definition src_parent_guard_nonempty : bool := %s." % b2c(guard_ok),
        "Definition src_parent_after_pop : bool := %s." % b2c(after_pop),
        "Definition src_single_mults : list (list N) := [%s]." % "; ".join(coq_codes(m) for m in mults),
        "Definition src_follow_guard : list N := %s." % coq_codes(follow_guard),
    ]) + "\n")
    return []
