"""textx/model.py: the `parent` assignment of process_node and the attribute loop of
get_children -> Gen/SrcNav.v (data-like facts only; fail closed).

Facts emitted:
  src_parent_stack_index / src_parent_tuple_index   the two subscripts of
        `obj_attrs.parent = parser._inst_stack[i][j]`
  src_stack_entry_inst_pos     position of `inst` in the tuple pushed on parser._inst_stack
  src_parent_guard_nonempty    the assignment is guarded by exactly `if parser._inst_stack:`
  src_parent_after_pop         in the enclosing block: children loop < `_inst_stack.pop()` < assignment
  src_single_mults             names in `attr.mult in (...)` selecting the single-valued branch
  src_follow_guard             the test guarding the descent (`attr.cont`)
"""
import ast
from .common import parse_file, find_func, need, emit, coq_codes, TranslateError


def _blocks(fn):
    for node in ast.walk(fn):
        for field in ("body", "orelse", "finalbody"):
            b = getattr(node, field, None)
            if isinstance(b, list) and b and isinstance(b[0], ast.stmt):
                yield b


def _int_const(e):
    if isinstance(e, ast.Constant) and isinstance(e.value, int):
        return e.value
    if isinstance(e, ast.UnaryOp) and isinstance(e.op, ast.USub) and isinstance(e.operand, ast.Constant) and isinstance(e.operand.value, int):
        return -e.operand.value
    raise TranslateError("subscript is not an integer literal: " + ast.unparse(e))


def translate_stack():
    tree, _ = parse_file("textx/model.py")
    outer = find_func(tree, "parse_tree_to_objgraph")
    pn = [n for n in ast.walk(outer) if isinstance(n, ast.FunctionDef) and n.name == "process_node"]
    need(len(pn) == 1, "process_node not found")
    pn = pn[0]
    assigns = [n for n in ast.walk(pn) if isinstance(n, ast.Assign) and len(n.targets) == 1
               and isinstance(n.targets[0], ast.Attribute) and n.targets[0].attr == "parent"]
    need(len(assigns) == 1, "expected exactly one assignment to `.parent` in process_node, found %d" % len(assigns))
    asg = assigns[0]
    need(ast.unparse(asg.targets[0].value) == "obj_attrs", "parent is assigned on %s, not obj_attrs" % ast.unparse(asg.targets[0].value))
    v = asg.value
    need(isinstance(v, ast.Subscript) and isinstance(v.value, ast.Subscript)
         and ast.unparse(v.value.value) == "parser._inst_stack", "parent value is not parser._inst_stack[i][j]: " + ast.unparse(v))
    stack_index, tuple_index = _int_const(v.value.slice), _int_const(v.slice)
    # the guard and the position in the enclosing block
    guard = [n for n in ast.walk(pn) if isinstance(n, ast.If) and asg in n.body]
    need(len(guard) == 1 and len(guard[0].body) == 1 and not guard[0].orelse, "parent assignment is not alone under one `if`")
    guard = guard[0]
    guard_ok = ast.unparse(guard.test) == "parser._inst_stack"
    need(guard_ok, "guard of the parent assignment changed: " + ast.unparse(guard.test))
    block = [b for b in _blocks(pn) if guard in b]
    need(len(block) == 1, "enclosing block of the parent assignment not found")
    block = block[0]
    loops = [i for i, s in enumerate(block) if isinstance(s, ast.For) and ast.unparse(s.iter) == "node"
             and any(isinstance(c, ast.Call) and ast.unparse(c.func) == "process_node" for c in ast.walk(s))]
    pops = [i for i, s in enumerate(block) if ast.unparse(s) == "parser._inst_stack.pop()"]
    pushes = [s for s in block if isinstance(s, ast.Expr) and isinstance(s.value, ast.Call)
              and ast.unparse(s.value.func) == "parser._inst_stack.append"]
    need(len(loops) == 1 and len(pops) == 1 and len(pushes) == 1, "push / children loop / pop not found once each in the block")
    after_pop = block.index(pushes[0]) < loops[0] < pops[0] < block.index(guard)
    pushed = pushes[0].value.args
    need(len(pushed) == 1 and isinstance(pushed[0], ast.Tuple), "pushed stack entry is not a tuple")
    elts = [ast.unparse(e) for e in pushed[0].elts]
    need("inst" in elts, "pushed stack entry does not contain inst: %r" % elts)
    inst_pos = elts.index("inst")

    gc = find_func(tree, "get_children")
    tests = [n for n in ast.walk(gc) if isinstance(n, ast.Compare) and ast.unparse(n.left) == "attr.mult"]
    need(len(tests) == 1 and len(tests[0].ops) == 1 and isinstance(tests[0].ops[0], ast.In)
         and isinstance(tests[0].comparators[0], (ast.Tuple, ast.List)), "`attr.mult in (...)` test of get_children changed")
    mults = [ast.unparse(e) for e in tests[0].comparators[0].elts]
    need(all(m.startswith("MULT_") for m in mults), "unexpected multiplicity names %r" % mults)
    branch = [n for n in ast.walk(gc) if isinstance(n, ast.If) and n.test is tests[0]]
    need(len(branch) == 1, "multiplicity branch not found")
    outer_if = [n for n in ast.walk(gc) if isinstance(n, ast.If) and branch[0] in n.body]
    need(len(outer_if) == 1 and len(outer_if[0].body) == 1 and not outer_if[0].orelse, "descent is not guarded by a single `if`")
    follow_guard = ast.unparse(outer_if[0].test)
    b2c = lambda x: "true" if x else "false"  # noqa: E731
    emit("SrcNav", "\n".join([
        "From TxV Require Import Core.Base.",
        "Definition src_parent_stack_index : Z := (%d)%%Z." % stack_index,
        "Definition src_parent_tuple_index : Z := (%d)%%Z." % tuple_index,
        "Definition src_stack_entry_inst_pos : Z := (%d)%%Z." % inst_pos,
        "Definition src_parent_guard_nonempty : bool := %s." % b2c(guard_ok),
        "Definition src_parent_after_pop : bool := %s." % b2c(after_pop),
        "Definition src_single_mults : list (list N) := [%s]." % "; ".join(coq_codes(m) for m in mults),
        "Definition src_follow_guard : list N := %s." % coq_codes(follow_guard),
    ]) + "\n")
    return []


# ---------------------------------------------------------------------------------------------
# Bodies of get_model / get_parent_of_type / get_children / get_children_of_type: the normalised
# text (ast.unparse, docstrings and comments gone) must be the text Model/Nav.v transcribes, up to
# the listed alternatives at the places the model hard-codes; the alternative found at each place is
# emitted as a fact (Gen/SrcNavBody.v) and the model of Model/NavSrc.v is instantiated with it.
import re


def _norm(fn):
    fn = ast.parse(ast.unparse(fn)).body[0]          # private copy
    for x in ast.walk(fn):
        if isinstance(x, ast.FunctionDef) and x.body and isinstance(x.body[0], ast.Expr) \
                and isinstance(x.body[0].value, ast.Constant) and isinstance(x.body[0].value.value, str):
            x.body = x.body[1:]
    fn.returns = None
    for a in fn.args.args:
        a.annotation = None
    return ast.unparse(fn)


def _match(name, text, template, holes):
    """template: text with {HOLE} markers; holes: {HOLE: [(source text, coq value), ...]}"""
    rx = ""
    for part in re.split(r"(\{[A-Z_]+\})", template):
        if part.startswith("{") and part[1:-1] in holes:
            rx += "(?P<%s>%s)" % (part[1:-1], "|".join(re.escape(src) for src, _ in holes[part[1:-1]]))
        else:
            rx += re.escape(part)
    m = re.fullmatch(rx, text)
    if m is None:
        raise TranslateError("body of %s is not the text the model transcribes (nor a known variant of it):\n%s" % (name, text))
    return {h: dict(alts)[m.group(h)] for h, alts in holes.items()}


GM_T = """def get_model(obj):
    p = obj
    while {LOOP}:
        p = p.parent
    return p"""
GM_H = {"LOOP": [("hasattr(p, 'parent')", "LHasattr"), ("getattr(p, 'parent', None) is not None", "LNotNone"),
                 ("getattr(p, 'parent', None)", "LTruthy")]}

POT_T = """def get_parent_of_type(typ, obj):
    if not isinstance(typ, str):
        typ = typ.__name__
    {LOOP}
    return None"""
POT_H = {"LOOP": [
    ("while hasattr(obj, 'parent'):\n        obj = obj.parent\n        if obj.__class__.__name__ == typ:\n            return obj", "false"),
    ("while hasattr(obj, 'parent'):\n        if obj.__class__.__name__ == typ:\n            return obj\n        obj = obj.parent", "true"),
    ("while obj is not None:\n        if obj.__class__.__name__ == typ:\n            return obj\n        obj = getattr(obj, 'parent', None)", "true"),
]}

GC_T = """def get_children(selector, root, children_first=False, should_follow=lambda obj: True):
    collected = []
    collected_ids = set()

    def follow(elem):
        if {SEEN}:
            return
        cls = elem.__class__
        if {PRE}hasattr(cls, '_tx_attrs') and selector(elem):
            collected.append(elem)
            collected_ids.add(id(elem))
        if hasattr(cls, '_tx_attrs'):
            for attr_name, attr in cls._tx_attrs.items():
                if {GUARD}:
                    if attr.mult in ({MULTS}):
                        new_elem = getattr(elem, attr_name)
                        if {SINGLE}:
                            follow(new_elem)
                    else:
                        new_elem_list = getattr(elem, attr_name)
                        if new_elem_list:
                            for new_elem in new_elem_list:
                                {ELEM}
        if {POST}hasattr(cls, '_tx_attrs') and selector(elem):
            collected.append(elem)
            collected_ids.add(id(elem))
    {ROOT}
    return collected"""
_COND = [("not children_first and ", "WhenNotCf"), ("children_first and ", "WhenCf"), ("", "Always"), ("False and ", "Never")]
GC_H = {
    "SEEN": [("id(elem) in collected_ids", "SeenId"), ("elem in collected", "SeenEq")],
    "PRE": _COND, "POST": _COND,
    "GUARD": [("attr.cont", None), ("attr.cont or attr.ref", None)],            # reported by src_follow_guard
    "MULTS": [("MULT_ONE, MULT_OPTIONAL", None), ("MULT_OPTIONAL, MULT_ONE", None), ("MULT_ONE,", None), ("MULT_OPTIONAL,", None)],
    "SINGLE": [("new_elem is not None and should_follow(new_elem)", "(NotNone, true)"), ("new_elem and should_follow(new_elem)", "(Truthy, true)"),
               ("new_elem is not None", "(NotNone, false)"), ("new_elem", "(Truthy, false)")],
    "ELEM": [("if should_follow(new_elem):\n                                    follow(new_elem)", "(NotNone, true)"),
             ("if new_elem and should_follow(new_elem):\n                                    follow(new_elem)", "(Truthy, true)"),
             ("if new_elem is not None and should_follow(new_elem):\n                                    follow(new_elem)", "(NotNone, true)"),
             ("follow(new_elem)", "(NotNone, false)")],
    "ROOT": [("follow(root)", "false"), ("if should_follow(root):\n        follow(root)", "true")],
}

OFT_T = """def get_children_of_type(typ, root, children_first=False, should_follow=lambda obj: True):
    if not isinstance(typ, str):
        typ = typ.__name__
    return get_children(lambda x: x.__class__.__name__ == typ, root, children_first=children_first, should_follow=should_follow)"""


def translate_bodies():
    tree, _ = parse_file("textx/model.py")
    fns = {n.name: n for n in tree.body if isinstance(n, ast.FunctionDef)}
    for n in ("get_model", "get_parent_of_type", "get_children", "get_children_of_type"):
        need(n in fns, "function %s not found at module level" % n)
    gm = _match("get_model", _norm(fns["get_model"]), GM_T, GM_H)
    pot = _match("get_parent_of_type", _norm(fns["get_parent_of_type"]), POT_T, POT_H)
    gc = _match("get_children", _norm(fns["get_children"]), GC_T, GC_H)
    _match("get_children_of_type", _norm(fns["get_children_of_type"]), OFT_T, {})
    emit("SrcNavBody", "\n".join([
        "From TxV Require Import Core.Base Model.NavCfg.",
        "Definition src_gm_loop : loop_test := %s." % gm["LOOP"],
        "Definition src_pot_test_start : bool := %s." % pot["LOOP"],
        "Definition src_gc_cfg : gc_cfg :=",
        "  {| g_seen := %s; g_pre := %s; g_post := %s;" % (gc["SEEN"], gc["PRE"], gc["POST"]),
        "     g_single := %s; g_elem := %s; g_root_sf := %s |}." % (gc["SINGLE"], gc["ELEM"], gc["ROOT"]),
    ]) + "\n")
    return []


def translate():
    return (translate_stack() or []) + (translate_bodies() or [])
