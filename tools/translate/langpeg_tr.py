"""The two live parsers of the textX language -> Gen/SrcLangPeg.v and Gen/SrcTxPeg.v (fail closed).

Not an `ast` translator: the parser models are BUILT by importing $TEXTX_REPO (tools/impl/c24.py, mode
"dump": arpeggio.ParserPython(textx.lang.textx_model, comment_def=comment) and the parser textX builds
from textx/textx.tx for metamodel_for_language('textx')) and walked by tools/pegdump.py, which refuses
anything it does not know.  Oracle ids are shared between the two files and assigned per distinct
(kind, pattern text, flags), so in Coq "same oracle id" = "same regex text and flags" (the table is emitted
as `*_oracles` in both files and checked equal in Props/C24.v).  Every node gets a unique label
(`*_labels`): its rule name when that is a real, first-seen rule name, otherwise <label of the node it was
first reached from>.<child index> (`.s` for a separator); Props/C24.v checks the labels are duplicate-free.
"""
import json
import os
import sys

sys.path.insert(0, os.path.dirname(os.path.dirname(os.path.abspath(__file__))))
from vt import core  # noqa: E402
import pegdump  # noqa: E402
from .common import emit, need, TranslateError  # noqa: E402


def labels(d):
    n = len(d["nodes"])
    lab = [None] * n
    used = set()

    def visit(root, rootname):
        stack = [(root, rootname)]
        while stack:
            i, fallback = stack.pop()
            if lab[i] is not None:
                continue
            nd = d["nodes"][i]
            r = nd["rule"]
            name = r if (r and not r.startswith("__asgn") and r != "sep" and r not in used) else fallback
            need(name not in used, "label clash " + name)
            used.add(name)
            lab[i] = name
            kids = [(k, "%s.%d" % (name, j)) for j, k in enumerate(nd["kids"])]
            if nd["sep"] is not None:
                kids.append((nd["sep"], name + ".s"))
            for k in reversed(kids):
                stack.append(k)
    visit(d["top"], "TOP")
    if d["comments"] is not None:
        visit(d["comments"], "COMMENTS")
    for i in range(n):
        if lab[i] is None:
            lab[i] = "unreachable.%d" % i
    need(len(set(lab)) == n, "labels not unique")
    return lab


def coq_oracles(table):
    items = []
    for o in table:
        if o[0] == "re":
            items.append("(%s, %d)" % (pegdump.coq_str(o[1]), o[2]))
        else:
            items.append("(%s, 1000000)" % pegdump.coq_str("istr:" + o[1]))
    return "[" + ";\n  ".join(items) + "]"


def get_dumps():
    return core.run_impl("c24", {"mode": "dump"})


def emit_one(modname, prefix, d, table, what):
    lab = labels(d)
    for nd in d["nodes"]:
        for k in nd["kids"] + ([nd["sep"]] if nd["sep"] is not None else []):
            need(0 <= k < len(d["nodes"]), "dangling node id")
    text = "\n".join([
        "(* %s *)" % what,
        "From TxV Require Import Core.Base Model.PegSyntax.",
        "Definition %s_grammar : grammar := %s." % (prefix, pegdump.coq_grammar(d)),
        "Definition %s_config : config := %s." % (prefix, pegdump.coq_config(d)),
        "Definition %s_memoization : bool := %s." % (prefix, "true" if d.get("memoization") else "false"),
        "(* shared oracle table: oracle id -> (pattern text, re flags) *)",
        "Definition %s_oracles : list (list N * nat) := %s." % (prefix, coq_oracles(table)),
        "Definition %s_labels : list (list N) := [%s]." % (prefix, ";\n  ".join(pegdump.coq_str(x) for x in lab)),
    ]) + "\n"
    emit(modname, text)
    return lab


def translate():
    j = get_dumps()
    emit_one("SrcLangPeg", "lang", j["lang"], j["oracles"],
             "arpeggio.ParserPython(textx.lang.textx_model, comment_def=textx.lang.comment): the grammar compiler's parser")
    emit_one("SrcTxPeg", "tx", j["tx"], j["oracles"],
             "metamodel_for_language('textx').metamodel._parser_blueprint: the parser built from textx/textx.tx")
    return []


if __name__ == "__main__":
    print(translate())
