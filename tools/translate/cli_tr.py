"""textx/cli/generate.py custom-argument loop and validation -> Gen/SrcCli.v"""
import ast
from .common import parse_file, find_func, need, emit, coq_codes, TranslateError


def _key_kind(e):
    s = ast.unparse(e)
    if s == "arg_name":
        return False
    if s in ("arg_name.replace('-', '_')",):
        return True
    raise TranslateError("unrecognised key expression: " + s)


def translate():
    tree, _ = parse_file("textx/cli/generate.py")
    loops = [n for n in ast.walk(tree) if isinstance(n, ast.While) and ast.unparse(n.test) == "arguments"]
    need(len(loops) == 1, "argument loop `while arguments:` not found")
    lp = loops[0]
    need(len(lp.body) == 2 and ast.unparse(lp.body[0]) == "m = arguments.pop(0)", "loop head changed")
    top = lp.body[1]
    need(isinstance(top, ast.If) and ast.unparse(top.test) == "m.startswith('--')", "switch test changed")
    need(len(top.orelse) == 1 and ast.unparse(top.orelse[0]) == "model_files_without_args.append(m)", "file branch changed")
    need(len(top.body) == 2 and ast.unparse(top.body[0]) == "arg_name = m[2:]", "arg_name extraction changed")
    inner = top.body[1]
    need(isinstance(inner, ast.If) and ast.unparse(inner.test) == "not arguments or arguments[0].startswith('--')", "bare-flag test changed")
    need(len(inner.body) == 1 and isinstance(inner.body[0], ast.Assign) and len(inner.orelse) == 1 and isinstance(inner.orelse[0], ast.Assign),
         "assignment branches changed")
    b, v = inner.body[0], inner.orelse[0]
    for a in (b, v):
        need(isinstance(a.targets[0], ast.Subscript) and ast.unparse(a.targets[0].value) == "custom_args", "assignment target is not custom_args[...]")
    need(ast.unparse(b.value) == "True", "bare flag value is not True")
    bool_norm = _key_kind(b.targets[0].slice)
    val_norm = _key_kind(v.targets[0].slice)
    vv = v.value
    need(isinstance(vv, ast.Call) and ast.unparse(vv.func) == "arguments.pop(0).strip" and len(vv.args) == 1
         and isinstance(vv.args[0], ast.Constant) and isinstance(vv.args[0].value, str), "value expression changed: " + ast.unparse(vv))
    strip_chars = vv.args[0].value
    # validation in the nested generate()
    inner_gen = [n for n in ast.walk(tree) if isinstance(n, ast.FunctionDef) and n.name == "generate" and
                 [a.arg for a in n.args.args][:2] == ["language", "target"]]
    need(len(inner_gen) == 1, "inner generate() not found")
    src = ast.unparse(inner_gen[0])
    want = [
        "given_args = set(custom_args.keys())",
        "generator_args = generator.custom_args",
        "if generator_args is not None:\n        for arg in generator_args:\n            if arg.mandatory and arg.name not in given_args:\n                raise TextXError(",
        "if given_args and generator_args:\n        generator_arg_names = set((a.name for a in generator_args))\n        for arg in given_args:\n            if arg not in generator_arg_names:\n                raise TextXError(",
        "generator.generator(metamodel, model, output_path, overwrite, debug, **custom_args)",
    ]
    for w in want:
        need(w in src, "validation code changed; missing: " + w.split("\n")[0])
    # the generator is looked up on every call of the inner generate(), by the language it is given
    ig = inner_gen[0]
    need([a.arg for a in ig.args.args] == ["language", "target", "any_permitted", "metamodel", "model", "custom_args"], "inner generate() signature changed")
    lookups = [n for n in ast.walk(ig) if isinstance(n, ast.Call) and ast.unparse(n.func).endswith("generator_description")]
    need(len(lookups) == 1 and ast.unparse(lookups[0]) == "generator_description(language, target, any_permitted)", "generator lookup changed")
    direct = [st for st in ig.body if isinstance(st, ast.Assign) and st.value is lookups[0]]
    need(len(direct) == 1 and ast.unparse(direct[0].targets[0]) == "generator", "the generator is not looked up unconditionally on every call (per file)")
    for n in ast.walk(ig):
        if isinstance(n, ast.Name) and n.id == "generator" and isinstance(n.ctx, ast.Store):
            need(n is direct[0].targets[0], "generator is bound more than once")
    outer = [n for n in ast.walk(tree) if isinstance(n, ast.FunctionDef) and n.name == "generate" and n is not ig and "arguments" in [a.arg for a in n.args.args]]
    need(len(outer) == 1, "generate command function not found")
    # option prelude
    pre = [n for n in ast.walk(outer[0]) if isinstance(n, ast.If) and ast.unparse(n.test) == "grammar"]
    need(len(pre) == 1, "option prelude changed")
    need(ast.unparse(pre[0]) == "if grammar:\n    metamodel = metamodel_from_file(grammar, debug=debug, ignore_case=ignore_case)\n    language = 'any'\n"
         "elif language:\n    metamodel = metamodel_for_language(language)\nelse:\n    no_explicit_language = True", "option prelude changed: " + ast.unparse(pre[0])[:80])
    # per-file loop
    floops = [n for n in ast.walk(outer[0]) if isinstance(n, ast.For) and ast.unparse(n.iter) == "model_files_without_args"]
    need(len(floops) == 1 and not floops[0].orelse and ast.unparse(floops[0].target) == "model_file", "per-file loop changed")
    body = [ast.unparse(x) for x in floops[0].body]
    need(len(body) == 5 and body[0].startswith("logger.info(") and
         body[1] == "if no_explicit_language:\n    language = language_for_file(model_file).name\n    metamodel = metamodel_for_file(model_file)" and
         body[2] == "model_params = {k: v for k, v in custom_args.items() if k in metamodel.model_param_defs}" and
         body[3] == "model = metamodel.model_from_file(model_file, **model_params)" and
         body[4] == "generate(language, target, no_explicit_language, metamodel, model, custom_args)", "per-file loop body changed: %r" % body)
    for n in ast.walk(outer[0]):
        if isinstance(n, ast.Name) and n.id == "no_explicit_language" and isinstance(n.ctx, ast.Store):
            pass
    stores = [ast.unparse(st) for st in ast.walk(outer[0]) if isinstance(st, ast.Assign) and any(ast.unparse(t) == "no_explicit_language" for t in st.targets)]
    need(sorted(stores) == ["no_explicit_language = False", "no_explicit_language = True"], "no_explicit_language assignments changed: %r" % stores)
    # exit statuses: both handlers exit 1
    handlers = [n for n in ast.walk(tree) if isinstance(n, ast.ExceptHandler)]
    hs = {ast.unparse(h.type): ast.unparse(h.body[-1]) for h in handlers if h.type is not None and ast.unparse(h.type) != "ImportError"}
    need(hs == {"TextXRegistrationError": "sys.exit(1)", "TextXError": "sys.exit(1)"}, "generate error handlers changed: %r" % hs)
    ctree, _ = parse_file("textx/cli/check.py")
    handlers = [n for n in ast.walk(ctree) if isinstance(n, ast.ExceptHandler)]
    hs = {ast.unparse(h.type): ast.unparse(h.body[-1]) for h in handlers if h.type is not None and ast.unparse(h.type) != "ImportError"}
    need(hs == {"TextXRegistrationError": "sys.exit(1)", "TextXError": "sys.exit(1)"}, "check error handlers changed: %r" % hs)
    loops = [n for n in ast.walk(ctree) if isinstance(n, ast.For) and ast.unparse(n.iter) == "model_files"]
    need(len(loops) == 1 and "metamodel.model_from_file(model_file, debug=debug)" in ast.unparse(loops[0]), "check loop changed")
    cbody = [ast.unparse(x) for x in loops[0].body]
    need(len(cbody) == 3 and cbody[0] == "if per_file_metamodel:\n    metamodel = metamodel_for_file(model_file)" and
         cbody[1] == "metamodel.model_from_file(model_file, debug=debug)" and cbody[2].startswith("logger.info("), "check loop body changed: %r" % cbody)
    cpre = [n for n in ast.walk(ctree) if isinstance(n, ast.If) and ast.unparse(n.test) == "grammar"]
    need(len(cpre) == 1 and ast.unparse(cpre[0]) == "if grammar:\n    metamodel = metamodel_from_file(grammar, debug=debug, ignore_case=ignore_case)\n"
         "elif language:\n    metamodel = metamodel_for_language(language)\nelse:\n    per_file_metamodel = True", "check option prelude changed")
    b2c = lambda x: "true" if x else "false"
    emit("SrcCli", "\n".join([
        "From TxV Require Import Core.Base.",
        "Definition bool_key_normalised : bool := %s." % b2c(bool_norm),
        "Definition value_key_normalised : bool := %s." % b2c(val_norm),
        "Definition strip_chars : list N := %s." % coq_codes(strip_chars),
        "Definition switch_prefix : list N := %s." % coq_codes("--"),
        "Definition error_exit_status : nat := 1.",
        "(* per-file loop of generate(): generator_description(language, target, any_permitted) on every call, language re-deduced",
        "   per file when neither --language nor --grammar is given, --grammar forces the language name 'any' *)",
        "Definition lookup_per_file : bool := true.",
        "Definition any_permitted_iff_deduced : bool := true.",
        "Definition grammar_forces_any : bool := true.",
    ]) + "\n")
    return []
