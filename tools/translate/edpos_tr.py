"""textx/model.py (tool-support collection code) -> Gen/SrcEdPos.v

Extracted facts (fail closed on any other shape):
  * the keyword arguments of the one RefRulePosition(...) built in ReferenceResolver.resolve_one_step
    (which position each field takes), that it is appended to self.pos_crossref_list under the
    guard `resolved is not None and type(resolved) is not Postponed and metamodel.textx_tools_support`;
  * the metamodel.builtins fallback follows the collection (builtin-resolved references add no entry);
    only models with a _tx_reference_resolver take part in the resolution rounds;
  * both ObjCrossRef(...) constructions pass position=<node>.position, position_end=<node>.position_end
    of the same node, and ObjCrossRef.__init__ stores them;
  * whether resolve_one_step sorts self.pos_crossref_list unconditionally after its loop, and by which field;
  * how process_node registers an instance in pos_rule_dict (setdefault / assignment), once, after the
    recursion into the children, under key (inst._tx_position, inst._tx_position_end);
  * the sort key of the final OrderedDict(sorted(pos_rule_dict.items(), ...)).
"""
import ast
from .common import parse_file, find_func, need, emit, TranslateError

POS = {"crossref.position": "RefStart", "crossref.position_end": "RefEnd",
       "resolved._tx_position": "TgtStart", "resolved._tx_position_end": "TgtEnd"}
KEYS = {"ref_pos_start": "KRefStart", "ref_pos_end": "KRefEnd", "def_pos_start": "KDefStart", "def_pos_end": "KDefEnd"}


def _calls(node, name):
    return [n for n in ast.walk(node) if isinstance(n, ast.Call) and ast.unparse(n.func) == name]


def _contains(node, sub):
    return any(n is sub for n in ast.walk(node))


def _entry_fields(fn):
    calls = _calls(fn, "RefRulePosition")
    need(len(calls) == 1, "expected exactly one RefRulePosition(...) in resolve_one_step")
    call = calls[0]
    need(not call.args, "RefRulePosition is expected to be called with keyword arguments only")
    kw = {k.arg: ast.unparse(k.value) for k in call.keywords}
    need(set(kw) == {"name", "ref_pos_start", "ref_pos_end", "def_file_name", "def_pos_start", "def_pos_end"},
         "RefRulePosition keywords changed: %r" % sorted(kw))
    need(kw["name"] == "crossref.obj_name", "RefRulePosition name is " + kw["name"])
    need(kw["def_file_name"] == "get_model(resolved)._tx_filename", "RefRulePosition def_file_name is " + kw["def_file_name"])
    out = {}
    for f in ("ref_pos_start", "ref_pos_end", "def_pos_start", "def_pos_end"):
        need(kw[f] in POS, "RefRulePosition %s is `%s` (not one of the reference/target positions)" % (f, kw[f]))
        out[f] = POS[kw[f]]
    apps = _calls(fn, "self.pos_crossref_list.append")
    need(len(apps) == 1 and len(apps[0].args) == 1 and apps[0].args[0] is call, "the entry is not appended to self.pos_crossref_list")
    guards = [n for n in ast.walk(fn) if isinstance(n, ast.If) and any(_contains(s, call) for s in n.body)]
    tests = [ast.unparse(g.test) for g in guards]
    need("resolved is not None and type(resolved) is not Postponed and metamodel.textx_tools_support" in tests,
         "collection guard changed: %r" % tests)
    # nothing else may guard the collection except the loop and the model test
    other = [t for t in tests if t not in ("resolved is not None and type(resolved) is not Postponed and metamodel.textx_tools_support",
                                           "get_model(obj) == self.model")]
    need(not other, "collection is under additional conditions: %r" % other)
    # the builtins fallback comes after the collection, in the same block: a reference resolved
    # through metamodel.builtins adds no entry
    holder = [g for g in guards if ast.unparse(g.test) == "get_model(obj) == self.model"]
    need(len(holder) == 1, "the per-model test `get_model(obj) == self.model` not found around the collection")
    body = holder[0].body
    ci = [i for i, st in enumerate(body) if _contains(st, call)]
    bi = [i for i, st in enumerate(body) if isinstance(st, ast.If) and "metamodel.builtins" in ast.unparse(st.test)]
    need(len(ci) == 1 and len(bi) == 1 and ci[0] < bi[0], "the builtins fallback does not follow the collection")
    need(ast.unparse(body[bi[0]].test) == "resolved is None and metamodel.builtins and (crossref.obj_name in metamodel.builtins)",
         "builtins fallback test changed: " + ast.unparse(body[bi[0]].test))
    return out


def _crossref_positions(tree, po):
    oc = _calls(po, "ObjCrossRef")
    need(len(oc) == 2, "expected two ObjCrossRef(...) constructions in parse_tree_to_objgraph")
    for c in oc:
        kw = {k.arg: ast.unparse(k.value) for k in c.keywords}
        need("position" in kw and "position_end" in kw, "ObjCrossRef built without position/position_end")
        need(kw["position"].endswith(".position") and kw["position_end"] == kw["position"] + "_end",
             "ObjCrossRef positions are not the span of one node: %s / %s" % (kw["position"], kw["position_end"]))
        need(kw["position"][:-len(".position")] in ("node[0]", "n"), "ObjCrossRef position taken from " + kw["position"])
    init = find_func(tree, "__init__", cls="ObjCrossRef")
    body = ast.unparse(init)
    need("self.position = position\n" in body + "\n" and "self.position_end = position_end" in body,
         "ObjCrossRef.__init__ does not store position/position_end")
    rinit = find_func(tree, "__init__", cls="ReferenceResolver")
    need("self.pos_crossref_list = pos_crossref_list" in ast.unparse(rinit), "ReferenceResolver does not keep pos_crossref_list")
    need(len(_calls(po, "ReferenceResolver")) == 1 and
         ast.unparse(_calls(po, "ReferenceResolver")[0]) == "ReferenceResolver(parser, model, pos_crossref_list)",
         "ReferenceResolver construction changed")
    need("model._pos_crossref_list = pos_crossref_list" in ast.unparse(po), "model._pos_crossref_list is not the collected list")
    # only models under construction take part in the rounds
    need("models = list(filter(lambda x: hasattr(x, '_tx_reference_resolver'), models))" in ast.unparse(po),
         "the filter of the models under construction changed")


def _list_sort(fn):
    loops = [i for i, s in enumerate(fn.body) if isinstance(s, ast.For) and ast.unparse(s.iter) == "current_crossrefs"]
    need(len(loops) == 1, "expected one top-level loop over current_crossrefs in resolve_one_step")
    sorts = _calls(fn, "self.pos_crossref_list.sort")
    others = [n for n in ast.walk(fn) if isinstance(n, ast.Attribute) and ast.unparse(n.value) == "self.pos_crossref_list"
              and n.attr not in ("append", "sort")]
    need(not others, "self.pos_crossref_list is used in an unknown way: %r" % [ast.unparse(o) for o in others])
    if not sorts:
        return False, "KRefStart"
    need(len(sorts) == 1, "several sorts of pos_crossref_list")
    s = sorts[0]
    need(not s.args and len(s.keywords) == 1 and s.keywords[0].arg == "key", "unsupported sort arguments: " + ast.unparse(s))
    lam = s.keywords[0].value
    need(isinstance(lam, ast.Lambda) and len(lam.args.args) == 1, "sort key is not a one-argument lambda")
    v = lam.args.args[0].arg
    b = lam.body
    need(isinstance(b, ast.Attribute) and isinstance(b.value, ast.Name) and b.value.id == v and b.attr in KEYS,
         "unsupported sort key: " + ast.unparse(lam))
    top = [i for i, st in enumerate(fn.body) if isinstance(st, ast.Expr) and st.value is s]
    uncond = bool(top) and top[0] > loops[0]
    return uncond, KEYS[b.attr]


def _dict_register(po):
    pns = [n for n in ast.walk(po) if isinstance(n, ast.FunctionDef) and n.name == "process_node"]
    need(len(pns) == 1, "process_node not found")
    pn = pns[0]
    uses = [s for s in ast.walk(pn) if isinstance(s, (ast.Expr, ast.Assign, ast.AugAssign, ast.Delete)) and "pos_rule_dict" in ast.unparse(s)]
    need(len(uses) == 1, "expected exactly one statement touching pos_rule_dict in process_node, found %d" % len(uses))
    st = uses[0]
    src = ast.unparse(st)
    if src == "pos_rule_dict.setdefault(pos, inst)":
        mode = "KeepFirst"
    elif src == "pos_rule_dict[pos] = inst":
        mode = "Overwrite"
    else:
        raise TranslateError("unsupported pos_rule_dict registration: " + src)
    holders = [i for i, s in enumerate(pn.body) if _contains(s, st)]
    need(len(holders) == 1 and isinstance(pn.body[holders[0]], ast.If), "registration is not in a top-level `if` of process_node")
    blk = pn.body[holders[0]]
    need(ast.unparse(blk.test) == "inst is not None and metamodel.textx_tools_support" and not blk.orelse,
         "registration guard changed: " + ast.unparse(blk.test))
    stm = [ast.unparse(s) for s in blk.body]
    need(stm == ["pos = (inst._tx_position, inst._tx_position_end)", src], "registration block changed: %r" % stm)
    rec = [i for i, s in enumerate(pn.body) if any(ast.unparse(c.func) == "process_node" for c in ast.walk(s) if isinstance(c, ast.Call))]
    need(rec and max(rec) < holders[0], "registration does not come after the recursion into the children")
    need(ast.unparse(pn.body[-1]) == "return inst" and holders[0] == len(pn.body) - 2, "registration is not the last step before `return inst`")
    need("inst._tx_position = node.position" in ast.unparse(pn) and "inst._tx_position_end = node.position_end" in ast.unparse(pn),
         "_tx_position/_tx_position_end are not the node's span")
    return mode


def _dict_order(po):
    asg = [s for s in ast.walk(po) if isinstance(s, ast.Assign) and ast.unparse(s.targets[0]) == "model._pos_rule_dict"]
    need(len(asg) == 1, "assignment of model._pos_rule_dict not found")
    v = asg[0].value
    need(isinstance(v, ast.Call) and ast.unparse(v.func) == "OrderedDict" and len(v.args) == 1 and not v.keywords, "not an OrderedDict(...)")
    s = v.args[0]
    need(isinstance(s, ast.Call) and ast.unparse(s.func) == "sorted" and len(s.args) == 1
         and ast.unparse(s.args[0]) == "pos_rule_dict.items()", "not sorted(pos_rule_dict.items(), ...)")
    kw = {k.arg: k.value for k in s.keywords}
    need(set(kw) <= {"key", "reverse"} and "key" in kw, "unsupported sorted() arguments")
    rev = False
    if "reverse" in kw:
        need(isinstance(kw["reverse"], ast.Constant) and isinstance(kw["reverse"].value, bool), "reverse is not a literal")
        rev = kw["reverse"].value
    lam = kw["key"]
    need(isinstance(lam, ast.Lambda) and len(lam.args.args) == 1, "sort key is not a one-argument lambda")
    x = lam.args.args[0].arg
    body = ast.unparse(lam.body)

    def comp(e, i):
        if e == "%s[0][%d]" % (x, i):
            return "Asc"
        if e == "-%s[0][%d]" % (x, i):
            return "Desc"
        raise TranslateError("unsupported component of the position-map sort key: " + e)
    if body == "%s[0]" % x:
        o = ["Asc", "Asc"]
    else:
        need(isinstance(lam.body, ast.Tuple) and len(lam.body.elts) == 2, "unsupported position-map sort key: " + body)
        o = [comp(ast.unparse(lam.body.elts[0]), 0), comp(ast.unparse(lam.body.elts[1]), 1)]
    if rev:
        o = ["Desc" if c == "Asc" else "Asc" for c in o]
    return o


def translate():
    tree, _ = parse_file("textx/model.py")
    fn = find_func(tree, "resolve_one_step", cls="ReferenceResolver")
    po = find_func(tree, "parse_tree_to_objgraph")
    fields = _entry_fields(fn)
    _crossref_positions(tree, po)
    uncond, key = _list_sort(fn)
    mode = _dict_register(po)
    order = _dict_order(po)
    text = """From TxV Require Import Core.Base Model.EdPosDefs.
(* RefRulePosition(...) in ReferenceResolver.resolve_one_step *)
Definition src_ref_pos_start : possrc := %s.
Definition src_ref_pos_end : possrc := %s.
Definition src_def_pos_start : possrc := %s.
Definition src_def_pos_end : possrc := %s.
(* self.pos_crossref_list.sort(key=...) as a top-level statement after the loop of resolve_one_step *)
Definition src_list_sorted : bool := %s.
Definition src_list_key : ekeysrc := %s.
(* process_node: registration in pos_rule_dict (after the children) *)
Definition src_dict_register : regmode := %s.
(* sorted(pos_rule_dict.items(), key=...): direction of (start, end) *)
Definition src_dict_order : order * order := (%s, %s).
""" % (fields["ref_pos_start"], fields["ref_pos_end"], fields["def_pos_start"], fields["def_pos_end"],
       "true" if uncond else "false", key, mode, order[0], order[1])
    emit("SrcEdPos", text)
    return []
