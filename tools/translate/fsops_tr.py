"""textx/export.py (metamodel_export, model_export, _write_atomically) + textx/generators.py (gen_file) -> Gen/SrcFs.v
The write protocol of the exporters as a small program (Model/FsDefs.v `prog`) that keeps the order
and nesting of the source statements:
  POpen body       with open(<name>, 'w', ...) as f: body        (f is closed - and flushed - when the block is left)
  PTry body h      try: body / except BaseException: h; raise
  PWrite           write(f)                                       (the generator's output)
  PReplace         os.replace(<temporary name>, file_name)
  PRemoveTmp       with suppress(OSError): os.remove(<temporary name>)
plus `writes_to_temp` (the name that is opened is a temporary name in the directory of the target, not the
target) and the skip rule of gen_file.  Where os.replace stands relative to the end of the `with open`
block (= the close that flushes the buffered data) is therefore a translated fact."""
import ast
from .common import parse_file, find_func, need, emit, TranslateError


def _seq(progs):
    progs = [p for p in progs if p != "PSkip"]
    if not progs:
        return "PSkip"
    out = progs[-1]
    for p in reversed(progs[:-1]):
        out = "(PSeq %s %s)" % (p, out)
    return out


def _stmts(body, tmp, fvar, opened):
    return _seq([_stmt(s, tmp, fvar, opened) for s in body if not (isinstance(s, ast.Expr) and isinstance(s.value, ast.Constant))])


def _stmt(s, tmp, fvar, opened):
    """One statement of the helper -> prog.  `opened`: list collecting the names that are opened."""
    src = ast.unparse(s)
    if isinstance(s, ast.With) and len(s.items) == 1:
        call = s.items[0].context_expr
        if isinstance(call, ast.Call) and ast.unparse(call.func) == "open":
            need(len(call.args) >= 2 and ast.unparse(call.args[1]) == "'w'", "open() not for writing: " + src[:60])
            need(s.items[0].optional_vars is not None and ast.unparse(s.items[0].optional_vars) == fvar, "file variable changed")
            for kw in call.keywords:
                need(kw.arg in ("encoding", "newline", "errors"), "open() with buffering/other options is not modelled: " + str(kw.arg))
            need(len(call.args) == 2, "open() with positional buffering argument is not modelled")
            opened.append(ast.unparse(call.args[0]))
            return "(POpen %s)" % _stmts(s.body, tmp, fvar, opened)
        if isinstance(call, ast.Name) and call.id == fvar and "preopened" in opened and s.items[0].optional_vars is None:
            # `with f:` on a file object created before (tempfile.NamedTemporaryFile): closes f on every exit
            opened.append(tmp)
            return "(POpen %s)" % _stmts(s.body, tmp, fvar, opened)
        if isinstance(call, ast.Call) and ast.unparse(call) == "suppress(OSError)":
            need(len(s.body) == 1 and ast.unparse(s.body[0]) == "os.remove(%s)" % tmp, "suppress block does something else than removing the temporary file")
            return "PRemoveTmp"
        raise TranslateError("unknown with statement in the write protocol: " + src[:80])
    if isinstance(s, ast.Try):
        need(not s.orelse and not s.finalbody, "try with else/finally in the write protocol")
        need(len(s.handlers) == 1 and s.handlers[0].type is not None and ast.unparse(s.handlers[0].type) in ("BaseException", "Exception"),
             "exception handler changed")
        need(ast.unparse(s.handlers[0].type) == "BaseException", "handler does not cover KeyboardInterrupt/SystemExit (BaseException)")
        h = s.handlers[0].body
        need(h and isinstance(h[-1], ast.Raise) and h[-1].exc is None, "the handler does not re-raise")
        return "(PTry %s %s)" % (_stmts(s.body, tmp, fvar, opened), _stmts(h[:-1], tmp, fvar, opened))
    if isinstance(s, ast.Expr):
        if src == "write(%s)" % fvar:
            return "PWrite"
        if tmp is not None and src == "os.replace(%s, file_name)" % tmp:
            return "PReplace"
        if tmp is not None and src == "shutil.move(%s, file_name)" % tmp:
            return "PMove"          # os.rename, and copy + unlink when the rename fails (other file system)
    raise TranslateError("statement of the write protocol is not understood: " + src[:80])


def _only_writes(fn, fvar):
    """The generator function uses its file argument only as f.write(...): no flush/close/seek/name."""
    parents = {}
    for n in ast.walk(fn):
        for c in ast.iter_child_nodes(n):
            parents[c] = n
    for n in ast.walk(fn):
        if isinstance(n, ast.Name) and n.id == fvar:
            need(isinstance(n.ctx, ast.Load), "%s rebinds its file argument" % fn.name)
            a = parents.get(n)
            need(isinstance(a, ast.Attribute) and a.attr == "write" and isinstance(parents.get(a), ast.Call) and parents[a].func is a,
                 "%s uses its file argument for something else than f.write(...)" % fn.name)


def _protocol_of(fn, tree):
    """Return (writes_to_temp, prog) for one export function."""
    src = ast.unparse(fn)
    withs = [n for n in ast.walk(fn) if isinstance(n, ast.With)]
    opens = [w for w in withs if any(isinstance(i.context_expr, ast.Call) and ast.unparse(i.context_expr.func) == "open" for i in w.items)]
    if len(opens) == 1:
        # the exporter opens a file itself and writes inside the block
        call = opens[0].items[0].context_expr
        need(ast.unparse(call.args[0]) == "file_name" and ast.unparse(call.args[1]) == "'w'", "unexpected open() arguments in " + fn.name)
        need("os.replace" not in src and "os.rename" not in src, "open(file_name) together with replace in " + fn.name)
        need(opens[0] in fn.body, "open() nested in other statements in " + fn.name)
        return (False, "(POpen PWrite)", True)
    # delegated to a helper taking (file_name, writer)
    calls = [n for n in ast.walk(fn) if isinstance(n, ast.Call) and isinstance(n.func, ast.Name) and n.func.id.startswith("_write")]
    need(len(calls) == 1 and ast.unparse(calls[0].args[0]) == "file_name", "no open() and no atomic-write helper call in " + fn.name)
    need(len(calls[0].args) == 2 and isinstance(calls[0].args[1], ast.Lambda) and [a.arg for a in calls[0].args[1].args.args] == ["f"],
         "the writer passed to the helper is not a lambda f: ...")
    lam = calls[0].args[1].body
    need(isinstance(lam, ast.Call) and isinstance(lam.func, ast.Name) and sum(1 for a in lam.args if ast.unparse(a) == "f") == 1,
         "the writer lambda does not hand f to one writer function")
    _only_writes(find_func(tree, lam.func.id), [a.arg for a in find_func(tree, lam.func.id).args.args][[ast.unparse(a) for a in lam.args].index("f")])
    helper = find_func(tree, calls[0].func.id)
    need([a.arg for a in helper.args.args] == ["file_name", "write"], "helper signature changed")
    body = [s for s in helper.body if not (isinstance(s, ast.Expr) and isinstance(s.value, ast.Constant))]
    need(len(body) >= 2 and isinstance(body[0], ast.Assign), "helper shape changed")
    tmp_expr = body[0].value
    if isinstance(tmp_expr, ast.JoinedStr):
        # tmp_name = f"{file_name}...": a name in the folder of the target (same file system)
        tmp = ast.unparse(body[0].targets[0])
        need(ast.unparse(tmp_expr).startswith("f'{file_name}"), "temporary name is not derived from file_name (same directory)")
        need(any(isinstance(v, ast.Constant) and v.value for v in tmp_expr.values), "temporary name equals the target name")
        same_dir = True
        opened = []
        prog = _stmts(body[1:], tmp, "f", opened)
        need(opened == [tmp], "the helper does not open exactly the temporary name: %r" % opened)
    else:
        # f = tempfile.NamedTemporaryFile('w', ..., delete=False[, dir=...]); tmp_name = f.name
        need(isinstance(tmp_expr, ast.Call) and ast.unparse(tmp_expr.func) == "tempfile.NamedTemporaryFile" and ast.unparse(body[0].targets[0]) == "f",
             "temporary file is neither a name derived from file_name nor a tempfile.NamedTemporaryFile")
        kws = {k.arg: ast.unparse(k.value) for k in tmp_expr.keywords}
        mode = ast.unparse(tmp_expr.args[0]) if tmp_expr.args else kws.get("mode")
        need(mode == "'w'" and kws.get("delete") == "False" and "buffering" not in kws and len(tmp_expr.args) <= 1, "NamedTemporaryFile arguments are not modelled")
        same_dir = kws.get("dir") in ("os.path.dirname(file_name)", "os.path.dirname(os.path.abspath(file_name))")
        need("dir" not in kws or same_dir, "NamedTemporaryFile(dir=...) is not understood")
        need(len(body) >= 3 and ast.unparse(body[1]).endswith(" = f.name"), "temporary name is not f.name")
        tmp = ast.unparse(body[1].targets[0])
        opened = ["preopened"]
        prog = _stmts(body[2:], tmp, "f", opened)
        need(opened == ["preopened", tmp], "the temporary file object is not used by exactly one `with f:` block")
    return (True, prog, same_dir)


def translate():
    tree, _ = parse_file("textx/export.py")
    protos = {}
    for name in ("metamodel_export", "model_export"):
        protos[name] = _protocol_of(find_func(tree, name), tree)
    need(protos["metamodel_export"] == protos["model_export"], "the two exporters use different write protocols: %r" % protos)
    p = protos["model_export"]
    gtree, _ = parse_file("textx/generators.py")
    gf = find_func(gtree, "gen_file")
    ifs = [s for s in gf.body if isinstance(s, ast.If)]
    need(len(ifs) == 1 and ast.unparse(ifs[0].test) == "overwrite or not os.path.exists(output_file)", "gen_file skip rule changed")
    need(any("gen_callback()" in ast.unparse(s) for s in ifs[0].body) and not any("gen_callback" in ast.unparse(s) for s in ifs[0].orelse),
         "gen_file no longer calls the generator exactly in the non-skipped branch")
    # the registered generators hand the exporters' target to gen_file
    src = ast.unparse(gtree)
    for frag in ("partial(metamodel_export, model, output_file)", "partial(model_export, model, output_file)",
                 "partial(metamodel_export, model, output_file, renderer=PlantUmlRenderer(linetype))"):
        need(frag in src, "generator no longer exports to the gen_file target: " + frag)
    b = lambda x: "true" if x else "false"
    emit("SrcFs", "\n".join([
        "From TxV Require Import Model.FsDefs.",
        "Definition writes_to_temp : bool := %s." % b(p[0]),
        "Definition protocol : prog := %s." % p[1],
        "(* the temporary file is created in the folder of the target (its name is derived from file_name) *)",
        "Definition temp_same_dir : bool := %s." % b(p[2]),
        "Definition skip_if_target_exists : bool := true.",
    ]) + "\n")
    return []
