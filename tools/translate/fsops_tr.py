"""textx/export.py (metamodel_export, model_export) + textx/generators.py (gen_file) -> Gen/SrcFs.v
The write protocol of the exporters as three facts:
  writes_to_temp        the file opened for writing is a temporary name, not the target
  replace_after_close   os.replace(temp, target) runs after the `with open` block has closed the file
  removes_temp_on_error an exception while writing/replacing removes the temporary file and re-raises
and the skip rule of gen_file."""
import ast
from .common import parse_file, find_func, need, emit, TranslateError


def _protocol_of(fn, tree):
    """Return (writes_to_temp, replace_after_close, removes_temp_on_error) for one export function."""
    src = ast.unparse(fn)
    withs = [n for n in ast.walk(fn) if isinstance(n, ast.With)]
    opens = [w for w in withs if any(isinstance(i.context_expr, ast.Call) and ast.unparse(i.context_expr.func) == "open" for i in w.items)]
    if len(opens) == 1:
        call = opens[0].items[0].context_expr
        need(ast.unparse(call.args[0]) == "file_name" and ast.unparse(call.args[1]) == "'w'", "unexpected open() arguments in " + fn.name)
        need("os.replace" not in src and "os.rename" not in src, "open(file_name) together with replace in " + fn.name)
        return (False, False, False)
    # delegated to a helper taking (file_name, writer)
    calls = [n for n in ast.walk(fn) if isinstance(n, ast.Call) and isinstance(n.func, ast.Name) and n.func.id.startswith("_write")]
    need(len(calls) == 1 and ast.unparse(calls[0].args[0]) == "file_name", "no open() and no atomic-write helper call in " + fn.name)
    helper = find_func(tree, calls[0].func.id)
    body = [s for s in helper.body if not (isinstance(s, ast.Expr) and isinstance(s.value, ast.Constant))]
    need(len(body) == 2 and isinstance(body[0], ast.Assign) and isinstance(body[1], ast.Try), "helper shape changed")
    tmp = ast.unparse(body[0].targets[0])
    tmp_expr = body[0].value
    need(isinstance(tmp_expr, ast.JoinedStr) and ast.unparse(tmp_expr).startswith("f'{file_name}"), "temporary name is not derived from file_name (same directory)")
    need(any(isinstance(v, ast.Constant) and v.value for v in tmp_expr.values), "temporary name equals the target name")
    tr = body[1]
    need(len(tr.body) == 2 and isinstance(tr.body[0], ast.With), "try body changed")
    w = tr.body[0]
    call = w.items[0].context_expr
    need(ast.unparse(call.func) == "open" and ast.unparse(call.args[0]) == tmp and ast.unparse(call.args[1]) == "'w'", "helper does not open the temporary name for writing")
    need(len(w.body) == 1 and ast.unparse(w.body[0]) == "write(f)", "helper with-body changed")
    replace_after_close = ast.unparse(tr.body[1]) == "os.replace(%s, file_name)" % tmp
    need(replace_after_close, "os.replace(tmp, file_name) does not follow the with block")
    need(len(tr.handlers) == 1 and ast.unparse(tr.handlers[0].type) in ("BaseException", "Exception"), "handler changed")
    h = tr.handlers[0].body
    removes = len(h) == 2 and "os.remove(%s)" % tmp in ast.unparse(h[0]) and isinstance(h[1], ast.Raise) and h[1].exc is None
    return (True, replace_after_close, removes)


def translate():
    tree, _ = parse_file("textx/export.py")
    protos = {}
    for name in ("metamodel_export", "model_export"):
        protos[name] = _protocol_of(find_func(tree, name), tree)
    need(protos["metamodel_export"] == protos["model_export"], "the two exporters use different write protocols: %r" % protos)
    p = protos["model_export"]
    gtree, _ = parse_file("textx/generators.py")
    gf = find_func(gtree, "gen_file")
    ifs = [s for s in gf.body if isinstance(s, ast.If)]
    need(len(ifs) == 1 and ast.unparse(ifs[0].test) == "overwrite or not os.path.exists(output_file)", "gen_file skip rule changed")
    need(any("gen_callback()" in ast.unparse(s) for s in ifs[0].body) and not any("gen_callback" in ast.unparse(s) for s in ifs[0].orelse),
         "gen_file no longer calls the generator exactly in the non-skipped branch")
    # the registered generators hand the exporters' target to gen_file
    src = ast.unparse(gtree)
    for frag in ("partial(metamodel_export, model, output_file)", "partial(model_export, model, output_file)",
                 "partial(metamodel_export, model, output_file, renderer=PlantUmlRenderer(linetype))"):
        need(frag in src, "generator no longer exports to the gen_file target: " + frag)
    b = lambda x: "true" if x else "false"
    emit("SrcFs", "\n".join([
        "Definition writes_to_temp : bool := %s." % b(p[0]),
        "Definition replace_after_close : bool := %s." % b(p[1]),
        "Definition removes_temp_on_error : bool := %s." % b(p[2]),
        "Definition skip_if_target_exists : bool := true.",
    ]) + "\n")
    return []
