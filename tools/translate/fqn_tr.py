"""textx/scoping/providers.py FQN.__call__ -> Gen/SrcFqn.v

Translated (data-like fact): the filter of the list comprehension over `parent.__dict__` in
find_obj, i.e. which instance attributes the provider walks, as a Coq predicate
`src_walked : attr -> bool`.

Checked, fail closed: every other statement of FQN.__call__ (find_obj's loop body, the loop over
the dotted parts, the type test, the outward search through `parent`) must be exactly the shape
transcribed in coq/Model/Fqn.v; any difference is a translator error (the model would no longer
describe the code)."""
import ast
import copy

from .common import parse_file, find_func, need, emit, coq_codes, TranslateError

# FQN.__call__ with docstrings removed and the comprehension filter replaced by `FILTER`
EXPECTED = '''def __call__(self, current_obj, attr, obj_ref):

    def _find_obj_fqn(p, fqn_name, cls):

        def find_obj(parent, name):
            if parent is not current_obj and self.scope_redirection_logic is not None:
                from textx.scoping import Postponed
                res = self.scope_redirection_logic(parent)
                assert res is not None, 'scope_redirection_logic must not return None'
                if type(res) is Postponed:
                    return res
                for m in res:
                    return_value = find_obj(m, name)
                    if return_value is not None:
                        return return_value
            cls_attrs = getattr(type(parent), '_tx_attrs', {})
            for attr in [a for a in parent.__dict__ if FILTER]:
                obj = getattr(parent, attr)
                if isinstance(obj, (list, tuple)):
                    for innerobj in obj:
                        if hasattr(innerobj, 'name') and innerobj.name == name:
                            return innerobj
                elif hasattr(obj, 'name') and obj.name == name:
                    return obj
            return None
        for n in fqn_name.split('.'):
            obj = find_obj(p, n)
            if obj is not None:
                if type(obj) is Postponed:
                    return obj
                p = obj
            else:
                return None
        from textx import textx_isinstance
        if textx_isinstance(obj, cls):
            return p
        else:
            return None

    def _find_referenced_obj(p, name, cls):
        ret = _find_obj_fqn(p, name, cls)
        if ret:
            return ret
        while hasattr(p, 'parent'):
            p = p.parent
            ret = _find_obj_fqn(p, name, cls)
            if ret:
                return ret
    from textx.model import ObjCrossRef
    assert type(obj_ref) is ObjCrossRef, type(obj_ref)
    obj_cls, obj_name = (obj_ref.cls, obj_ref.obj_name)
    return _find_referenced_obj(current_obj, obj_name, obj_cls)'''


def _strip_docstrings(fn):
    for node in ast.walk(fn):
        if isinstance(node, ast.FunctionDef) and node.body and isinstance(node.body[0], ast.Expr) \
                and isinstance(node.body[0].value, ast.Constant) and isinstance(node.body[0].value.value, str):
            node.body = node.body[1:] or [ast.Pass()]


def _cond(e):
    """Python filter condition over the comprehension variable `a` -> Coq bool over `x : attr`."""
    if isinstance(e, ast.BoolOp):
        op = " && " if isinstance(e.op, ast.And) else " || "
        return "(" + op.join(_cond(v) for v in e.values) + ")"
    if isinstance(e, ast.UnaryOp) and isinstance(e.op, ast.Not):
        return "negb " + _cond(e.operand)
    s = ast.unparse(e)
    if isinstance(e, ast.Call) and isinstance(e.func, ast.Attribute) and ast.unparse(e.func) == "a.startswith" \
            and len(e.args) == 1 and not e.keywords and isinstance(e.args[0], ast.Constant) and isinstance(e.args[0].value, str):
        return "(is_prefix %s (a_name x))" % coq_codes(e.args[0].value)
    if isinstance(e, ast.Compare) and len(e.ops) == 1 and ast.unparse(e.left) == "a" \
            and isinstance(e.comparators[0], ast.Constant) and isinstance(e.comparators[0].value, str):
        t = "(str_eqb (a_name x) %s)" % coq_codes(e.comparators[0].value)
        if isinstance(e.ops[0], ast.Eq):
            return t
        if isinstance(e.ops[0], ast.NotEq):
            return "(negb %s)" % t
    if s == "callable(getattr(parent, a))":
        return "(a_call x)"
    if s == "a in cls_attrs":
        return "(a_decl x)"
    if s == "a not in cls_attrs":
        return "(negb (a_decl x))"
    if s == "cls_attrs[a].cont":
        return "(a_cont x)"
    raise TranslateError("unsupported condition in the find_obj attribute filter: " + s)


EXPECTED_WRAPPERS = {
    "follow_loaded_models_scope_redirection_logic": '''def follow_loaded_models_scope_redirection_logic(obj, scope_redirection_logic):
    lst = []
    if scope_redirection_logic is not None:
        lst = scope_redirection_logic(obj)
        assert lst is not None, 'scope_redirection_logic must not return None'
        if type(lst) is Postponed:
            return lst
    if hasattr(obj, '_tx_loaded_models'):
        lst = lst + obj._tx_loaded_models
    return lst''',
    "FQNImportURI": '''class FQNImportURI(ImportURI):

    def __init__(self, glob_args=None, search_path=None, importAs=False, importURI_converter=None, importURI_to_scope_name=None, scope_redirection_logic=None):
        if importAs:

            def my_scope_redirection_logic_def(obj):
                return follow_loaded_models_scope_redirection_logic(obj, scope_redirection_logic)
            my_scope_redirection_logic = my_scope_redirection_logic_def
        else:
            my_scope_redirection_logic = scope_redirection_logic
        ImportURI.__init__(self, FQN(scope_redirection_logic=my_scope_redirection_logic), glob_args=glob_args, search_path=search_path, importAs=importAs, importURI_converter=importURI_converter, importURI_to_scope_name=importURI_to_scope_name)''',
    "FQNGlobalRepo": '''class FQNGlobalRepo(GlobalRepo):

    def __init__(self, filename_pattern=None, glob_args=None):
        GlobalRepo.__init__(self, FQN(), filename_pattern, glob_args=glob_args)''',
}
PHASES = {None: "POwn", "model_repository.local_models": "PLocal", "model._tx_metamodel.builtin_models": "PBuiltin"}


def _import_order(tree):
    """ImportURI.__call__: where, and in which order, the wrapped provider is started."""
    fn = find_func(tree, "__call__", cls="ImportURI")
    src = ast.unparse(fn)
    need("model = get_model(obj)" in src and "model_repository = model._tx_model_repository" in src,
         "ImportURI.__call__: model / model_repository are not taken from the referring object")
    order = []

    def walk(stmts, loop):
        for i, st in enumerate(stmts):
            if isinstance(st, ast.Assign) and isinstance(st.value, ast.Call) and ast.unparse(st.value.func) == "self.scope_provider":
                need(ast.unparse(st.targets[0]) == "ret" and len(st.value.args) == 3 and not st.value.keywords
                     and [ast.unparse(a) for a in st.value.args[1:]] == ["attr", "obj_ref"], "unexpected provider call " + ast.unparse(st))
                start = ast.unparse(st.value.args[0])
                need((loop is None and start == "obj") or (loop is not None and start == "m"), "unexpected start object " + start)
                nxt = stmts[i + 1] if i + 1 < len(stmts) else None
                need(nxt is not None and ast.unparse(nxt) == "if ret:\n    return ret", "provider result is not returned when truthy")
                order.append(PHASES[loop])
            elif isinstance(st, ast.For):
                need(ast.unparse(st.target) == "m" and ast.unparse(st.iter) in PHASES and not st.orelse and loop is None,
                     "unexpected loop in ImportURI.__call__: " + ast.unparse(st.iter))
                walk(st.body, ast.unparse(st.iter))
            elif isinstance(st, ast.If):
                if ast.unparse(st) == "if ret:\n    return ret":
                    continue
                need(ast.unparse(st.test) == "model._tx_metamodel.builtin_models" and not st.orelse, "unexpected condition " + ast.unparse(st.test))
                walk(st.body, loop)
            elif isinstance(st, ast.Try):
                need(not st.orelse and not st.finalbody and all(isinstance(h.body[-1], ast.Raise) and h.body[-1].exc is None for h in st.handlers),
                     "try statement in ImportURI.__call__ swallows or converts exceptions")
                walk(st.body, loop)
            elif isinstance(st, ast.Return):
                need(ast.unparse(st) == "return None", "unexpected " + ast.unparse(st))
            else:
                need(not any(isinstance(n, ast.Call) and ast.unparse(n.func) == "self.scope_provider" for n in ast.walk(st)),
                     "provider call in an unexpected statement: " + ast.unparse(st))
    walk(fn.body, None)
    need(isinstance(fn.body[-1], ast.Return) and ast.unparse(fn.body[-1]) == "return None", "ImportURI.__call__ does not end with return None")
    need(len(order) == len(set(order)) and order, "a search phase occurs twice or none at all")
    return order


def _wrappers(tree):
    for name, want in EXPECTED_WRAPPERS.items():
        node = next((n for n in tree.body if isinstance(n, (ast.FunctionDef, ast.ClassDef)) and n.name == name), None)
        need(node is not None, name + " not found")
        node = copy.deepcopy(node)
        _strip_docstrings(node)
        if isinstance(node, ast.ClassDef) and node.body and isinstance(node.body[0], ast.Expr) and isinstance(node.body[0].value, ast.Constant):
            node.body = node.body[1:]
        got = ast.unparse(node)
        need(got == want, "%s is not the transcribed shape:\n%s" % (name, got))


def translate():
    tree, _ = parse_file("textx/scoping/providers.py")
    order = _import_order(tree)
    fn = copy.deepcopy(find_func(tree, "__call__", cls="FQN"))
    _strip_docstrings(fn)
    comps = [n for n in ast.walk(fn) if isinstance(n, ast.ListComp)]
    need(len(comps) == 1, "expected exactly one list comprehension in FQN.__call__ (the attribute filter), found %d" % len(comps))
    comp = comps[0]
    need(len(comp.generators) == 1 and ast.unparse(comp.elt) == "a" and ast.unparse(comp.generators[0].target) == "a"
         and ast.unparse(comp.generators[0].iter) == "parent.__dict__" and not comp.generators[0].is_async,
         "the attribute comprehension is not `[a for a in parent.__dict__ if ...]`")
    ifs = comp.generators[0].ifs
    need(len(ifs) >= 1, "the attribute comprehension has no filter")
    cond = " && ".join(_cond(e) for e in ifs)
    # the filter is emitted first, so that the model follows the current filter even when the shape check below fails
    lines = ["From TxV Require Import Core.Base Model.FqnDefs.",
             "(* [a for a in parent.__dict__ if %s] *)" % " and ".join(ast.unparse(e) for e in ifs).replace("*)", "* )"),
             "Definition src_walked (x : attr) : bool :=",
             "  (%s)%%bool." % cond,
             "(* ImportURI.__call__: the wrapped provider is started at these objects, in this order *)",
             "Definition import_order : list phase := [%s]." % "; ".join(order)]
    emit("SrcFqn", "\n".join(lines) + "\n")
    _wrappers(tree)
    comp.generators[0].ifs = [ast.Name(id="FILTER", ctx=ast.Load())]
    got = ast.unparse(fn)
    if got != EXPECTED:
        gl, el = got.splitlines(), EXPECTED.splitlines()
        k = next((i for i, (a, b) in enumerate(zip(gl, el)) if a != b), min(len(gl), len(el)))
        raise TranslateError("FQN.__call__ is not the transcribed shape; first difference at statement line %d: source has %r, model transcribes %r"
                             % (k + 1, gl[k].strip() if k < len(gl) else "<end>", el[k].strip() if k < len(el) else "<end>"))
    return []
