"""textx/scoping/providers.py FQN.__call__ -> Gen/SrcFqn.v

Translated (data-like fact): the filter of the list comprehension over `parent.__dict__` in
find_obj, i.e. which instance attributes the provider walks, as a Coq predicate
`src_walked : attr -> bool`.

Checked, fail closed: every other statement of FQN.__call__ (find_obj's loop body, the loop over
the dotted parts, the type test, the outward search through `parent`) must be exactly the shape
transcribed in coq/Model/Fqn.v; any difference is a translator error (the model would no longer
describe the code)."""
import ast
import copy

from .common import parse_file, find_func, need, emit, coq_codes, TranslateError

# FQN.__call__ with docstrings removed and the comprehension filter replaced by `FILTER`
EXPECTED = '''def __call__(self, current_obj, attr, obj_ref):

    def _find_obj_fqn(p, fqn_name, cls):

        def find_obj(parent, name):
            if parent is not current_obj and self.scope_redirection_logic is not None:
                from textx.scoping import Postponed
                res = self.scope_redirection_logic(parent)
                assert res is not None, 'scope_redirection_logic must not return None'
                if type(res) is Postponed:
                    return res
                for m in res:
                    return_value = find_obj(m, name)
                    if return_value is not None:
                        return return_value
            cls_attrs = getattr(type(parent), '_tx_attrs', {})
            for attr in [a for a in parent.__dict__ if FILTER]:
                obj = getattr(parent, attr)
                if isinstance(obj, (list, tuple)):
                    for innerobj in obj:
                        if hasattr(innerobj, 'name') and innerobj.name == name:
                            return innerobj
                elif hasattr(obj, 'name') and obj.name == name:
                    return obj
            return None
        for n in fqn_name.split('.'):
            obj = find_obj(p, n)
            if obj is not None:
                if type(obj) is Postponed:
                    return obj
                p = obj
            else:
                return None
        from textx import textx_isinstance
        if textx_isinstance(obj, cls):
            return p
        else:
            return None

    def _find_referenced_obj(p, name, cls):
        ret = _find_obj_fqn(p, name, cls)
        if ret:
            return ret
        while hasattr(p, 'parent'):
            p = p.parent
            ret = _find_obj_fqn(p, name, cls)
            if ret:
                return ret
    from textx.model import ObjCrossRef
    assert type(obj_ref) is ObjCrossRef, type(obj_ref)
    obj_cls, obj_name = (obj_ref.cls, obj_ref.obj_name)
    return _find_referenced_obj(current_obj, obj_name, obj_cls)'''


def _strip_docstrings(fn):
    for node in ast.walk(fn):
        if isinstance(node, ast.FunctionDef) and node.body and isinstance(node.body[0], ast.Expr) \
                and isinstance(node.body[0].value, ast.Constant) and isinstance(node.body[0].value.value, str):
            node.body = node.body[1:] or [ast.Pass()]


def _cond(e):
    """Python filter condition over the comprehension variable `a` -> Coq bool over `x : attr`."""
    if isinstance(e, ast.BoolOp):
        op = " && " if isinstance(e.op, ast.And) else " || "
        return "(" + op.join(_cond(v) for v in e.values) + ")"
    if isinstance(e, ast.UnaryOp) and isinstance(e.op, ast.Not):
        return "negb " + _cond(e.operand)
    s = ast.unparse(e)
    if isinstance(e, ast.Call) and isinstance(e.func, ast.Attribute) and ast.unparse(e.func) == "a.startswith" \
            and len(e.args) == 1 and not e.keywords and isinstance(e.args[0], ast.Constant) and isinstance(e.args[0].value, str):
        return "(is_prefix %s (a_name x))" % coq_codes(e.args[0].value)
    if isinstance(e, ast.Compare) and len(e.ops) == 1 and ast.unparse(e.left) == "a" \
            and isinstance(e.comparators[0], ast.Constant) and isinstance(e.comparators[0].value, str):
        t = "(str_eqb (a_name x) %s)" % coq_codes(e.comparators[0].value)
        if isinstance(e.ops[0], ast.Eq):
            return t
        if isinstance(e.ops[0], ast.NotEq):
            return "(negb %s)" % t
    if s == "callable(getattr(parent, a))":
        return "(a_call x)"
    if s == "a in cls_attrs":
        return "(a_decl x)"
    if s == "a not in cls_attrs":
        return "(negb (a_decl x))"
    if s == "cls_attrs[a].cont":
        return "(a_cont x)"
    raise TranslateError("unsupported condition in the find_obj attribute filter: " + s)


def translate():
    tree, _ = parse_file("textx/scoping/providers.py")
    fn = copy.deepcopy(find_func(tree, "__call__", cls="FQN"))
    _strip_docstrings(fn)
    comps = [n for n in ast.walk(fn) if isinstance(n, ast.ListComp)]
    need(len(comps) == 1, "expected exactly one list comprehension in FQN.__call__ (the attribute filter), found %d" % len(comps))
    comp = comps[0]
    need(len(comp.generators) == 1 and ast.unparse(comp.elt) == "a" and ast.unparse(comp.generators[0].target) == "a"
         and ast.unparse(comp.generators[0].iter) == "parent.__dict__" and not comp.generators[0].is_async,
         "the attribute comprehension is not `[a for a in parent.__dict__ if ...]`")
    ifs = comp.generators[0].ifs
    need(len(ifs) >= 1, "the attribute comprehension has no filter")
    cond = " && ".join(_cond(e) for e in ifs)
    # the filter is emitted first, so that the model follows the current filter even when the shape check below fails
    lines = ["From TxV Require Import Core.Base Model.FqnDefs.",
             "(* [a for a in parent.__dict__ if %s] *)" % " and ".join(ast.unparse(e) for e in ifs).replace("*)", "* )"),
             "Definition src_walked (x : attr) : bool :=",
             "  (%s)%%bool." % cond]
    emit("SrcFqn", "\n".join(lines) + "\n")
    comp.generators[0].ifs = [ast.Name(id="FILTER", ctx=ast.Load())]
    got = ast.unparse(fn)
    if got != EXPECTED:
        gl, el = got.splitlines(), EXPECTED.splitlines()
        k = next((i for i, (a, b) in enumerate(zip(gl, el)) if a != b), min(len(gl), len(el)))
        raise TranslateError("FQN.__call__ is not the transcribed shape; first difference at statement line %d: source has %r, model transcribes %r"
                             % (k + 1, gl[k].strip() if k < len(gl) else "<end>", el[k].strip() if k < len(el) else "<end>"))
    return []
