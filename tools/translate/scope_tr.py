"""textx/model.py resolve_one_step + textx/metamodel.py register_scope_providers -> Gen/SrcScope.v"""
import ast
from .common import parse_file, find_func, need, dump, emit, coq_codes, TranslateError


def _part(e):
    # obj.__class__.__name__  -> PCls ; attr.name -> PAttr ; "lit" -> PLit
    if isinstance(e, ast.Constant) and isinstance(e.value, str):
        return [("PLit", e.value)]
    if isinstance(e, ast.BinOp) and isinstance(e.op, ast.Add):
        return _part(e.left) + _part(e.right)
    d = dump(e)
    if d == dump(ast.parse("obj.__class__.__name__", mode="eval").body):
        return [("PCls", None)]
    if d == dump(ast.parse("attr.name", mode="eval").body):
        return [("PAttr", None)]
    if isinstance(e, ast.JoinedStr):
        out = []
        for v in e.values:
            if isinstance(v, ast.Constant):
                out += [("PLit", v.value)]
            elif isinstance(v, ast.FormattedValue) and v.conversion == -1 and v.format_spec is None:
                out += _part(v.value)
            else:
                raise TranslateError("unsupported f-string part in attr_refs")
        return out
    raise TranslateError("unsupported attr_refs element: " + ast.unparse(e))


def translate():
    tree, _ = parse_file("textx/model.py")
    fn = find_func(tree, "resolve_one_step")
    loops = [n for n in ast.walk(fn) if isinstance(n, ast.For) and ast.unparse(n.iter) == "current_crossrefs"]
    need(len(loops) == 1, "expected one loop over current_crossrefs")
    loop = loops[0]
    refs = [n for n in ast.walk(loop) if isinstance(n, ast.Assign) and len(n.targets) == 1
            and ast.unparse(n.targets[0]) == "attr_refs"]
    need(len(refs) == 1 and isinstance(refs[0].value, ast.List), "attr_refs list literal not found")
    keys = [_part(e) for e in refs[0].value.elts]
    # the selection statement
    sel = [n for n in ast.walk(loop) if isinstance(n, ast.If) and
           ast.unparse(n.test) in ("crossref.scope_provider is not None",)]
    need(len(sel) == 1, "grammar-RREL-first test `crossref.scope_provider is not None` not found")
    sel = sel[0]
    need(len(sel.body) == 1 and ast.unparse(sel.body[0]) == "resolved = crossref.scope_provider(obj, attr, crossref)",
         "grammar provider branch changed: " + ast.unparse(sel.body[0]))
    need(len(sel.orelse) == 1 and isinstance(sel.orelse[0], ast.For), "registered-provider loop not found")
    lp = sel.orelse[0]
    need(ast.unparse(lp.target) == "attr_ref" and ast.unparse(lp.iter) == "attr_refs", "loop is not over attr_refs")
    need(len(lp.body) == 1 and isinstance(lp.body[0], ast.If)
         and ast.unparse(lp.body[0].test) == "attr_ref in metamodel.scope_providers", "membership test changed")
    inner = [s for s in lp.body[0].body if not (isinstance(s, ast.If) and "debug" in ast.unparse(s.test))]
    need(len(inner) == 2 and ast.unparse(inner[0]) == "resolved = metamodel.scope_providers[attr_ref](obj, attr, crossref)"
         and isinstance(inner[1], ast.Break), "registered-provider call changed")
    need(not lp.body[0].orelse, "unexpected else on the membership test")
    need(len(lp.orelse) == 1 and ast.unparse(lp.orelse[0]) == "resolved = default_scope(obj, attr, crossref)",
         "default provider fallback changed")
    # per-reference selection: the key list is rebuilt from this reference's object and attribute inside the loop, `resolved` is
    # bound only by the three calls above (and the builtins fall-back for an unresolved name), and metamodel.scope_providers is only consulted through the loop variable
    stores = [ast.unparse(n) for n in ast.walk(loop) if isinstance(n, ast.Assign) and any(ast.unparse(t) == "resolved" for t in n.targets)]
    need(sorted(stores) == sorted(["resolved = crossref.scope_provider(obj, attr, crossref)", "resolved = metamodel.scope_providers[attr_ref](obj, attr, crossref)",
                                   "resolved = default_scope(obj, attr, crossref)",
                                   "resolved = metamodel.builtins[crossref.obj_name]"]), "`resolved` is bound elsewhere in the loop: %r" % stores)
    uses = [n for n in ast.walk(fn) if isinstance(n, ast.Attribute) and n.attr == "scope_providers"]
    need(len(uses) == 2, "metamodel.scope_providers is consulted %d times (expected: the membership test and the call)" % len(uses))
    parents = {c: p for p in ast.walk(loop) for c in ast.iter_child_nodes(p)}
    n, guards = refs[0], []
    while n is not loop:
        n = parents[n]
        if isinstance(n, (ast.If, ast.For, ast.While, ast.Try)) and n is not loop:
            guards.append(ast.unparse(n.test) if isinstance(n, ast.If) else type(n).__name__)
    need(guards == ["get_model(obj) == self.model"], "attr_refs is not rebuilt for every reference of this model: guarded by %r" % guards)
    m, g2 = sel, []
    while m is not loop:
        m = parents[m]
        if isinstance(m, (ast.If, ast.For, ast.While, ast.Try)) and m is not loop:
            g2.append(ast.unparse(m.test) if isinstance(m, ast.If) else type(m).__name__)
    need(g2 == ["get_model(obj) == self.model"], "the selection statement is guarded by %r" % g2)
    # default_scope must be a DefaultScopeProvider
    ds = [n for n in ast.walk(fn) if isinstance(n, ast.Assign) and ast.unparse(n.targets[0]) == "default_scope"]
    need(len(ds) == 1 and ast.unparse(ds[0].value) == "DefaultScopeProvider()", "default_scope is not DefaultScopeProvider()")

    # register_scope_providers: strings become create_rrel_scope_provider(v)
    mtree, _ = parse_file("textx/metamodel.py")
    reg = find_func(mtree, "register_scope_providers")
    body = [s for s in reg.body if not (isinstance(s, ast.Expr) and isinstance(s.value, ast.Constant))]
    want = ("self.scope_providers = sp", "for k, v in self.scope_providers.items():\n    if isinstance(v, str):\n        self.scope_providers[k] = create_rrel_scope_provider(v)")
    merge = "for k, v in sp.items():\n    if isinstance(v, str):\n        v = create_rrel_scope_provider(v)\n    self.scope_providers[k] = v"
    if len(body) == 2 and ast.unparse(body[0]) == want[0] and ast.unparse(body[1]) == want[1]:
        replaces = True      # the dict of the latest call becomes the meta-model's dict
    elif len(body) == 1 and ast.unparse(body[0]) == merge:
        replaces = False     # entries are copied into the dict that is already there: registrations accumulate
    else:
        raise TranslateError("register_scope_providers changed")
    # a fresh meta-model starts with no registered provider
    init = find_func(mtree, "__init__", cls="TextXMetaModel")
    need(any(isinstance(n, ast.Assign) and ast.unparse(n) == "self.scope_providers = {}" for n in ast.walk(init)), "a new meta-model does not start with scope_providers = {}")
    others = [n for n in ast.walk(mtree) if isinstance(n, (ast.Assign, ast.AugAssign)) and "scope_providers" in ast.unparse(n.targets[0] if isinstance(n, ast.Assign) else n.target)]
    need(len(others) == (3 if replaces else 2), "scope_providers is assigned in %d places in metamodel.py" % len(others))
    # grammar side: RuleCrossRef.__init__ uses create_rrel_scope_provider(rrel_tree)
    ltree, _ = parse_file("textx/lang.py")
    init = find_func(ltree, "__init__", cls="RuleCrossRef")
    calls = [n for n in ast.walk(init) if isinstance(n, ast.Call) and ast.unparse(n.func) == "create_rrel_scope_provider"]
    need(len(calls) == 1 and ast.unparse(calls[0]) == "create_rrel_scope_provider(rrel_tree)", "grammar RREL provider construction changed")
    # and the attribute copies it: cls_attr.scope_provider = rhs_rule.scope_provider
    need("cls_attr.scope_provider = rhs_rule.scope_provider" in ast.unparse(ltree), "attribute does not take the rule reference's provider")
    # create_rrel_scope_provider: a string is parsed, then the same constructor path
    rtree, _ = parse_file("textx/scoping/rrel.py")
    crp = find_func(rtree, "create_rrel_scope_provider")
    tail = [s for s in crp.body if isinstance(s, ast.If)]
    need(len(tail) == 2 and ast.unparse(tail[0]) == "if isinstance(rrel_tree_or_string, str):\n    rrel_tree_or_string = parse(rrel_tree_or_string)",
         "create_rrel_scope_provider string branch changed")

    def part(p):
        k, v = p
        return "PLit %s" % coq_codes(v) if k == "PLit" else k
    lines = ["From TxV Require Import Core.Base Model.ScopeDefs.",
             "Definition attr_refs : list (list part) :=",
             "  [" + ";\n   ".join("[" + "; ".join(part(p) for p in key) + "]" for key in keys) + "].",
             "Definition grammar_provider_first : bool := true.",
             "Definition selection_per_reference : bool := true.",
             "Definition registration_replaces : bool := %s." % ("true" if replaces else "false"),
             "Definition string_registration_parsed_by_grammar_ctor : bool := true."]
    emit("SrcScope", "\n".join(lines) + "\n")
    return []
