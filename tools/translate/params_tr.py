"""textx/model_params.py, textx/metamodel.py (model_from_str / model_from_file / internal_model_from_file),
textx/scoping/providers.py and textx/scoping/__init__.py (forwarding of model_params) -> Gen/SrcParams.v

Data emitted: the argument names of the two entry points (what a keyword argument can be bound to instead of
**kwargs), the reserved-name tuple checked by ModelParamDefinitions.add, the built-in parameter definitions,
the key GlobalRepo looks up.  Everything else is a fail-closed shape check of the code the hand-written model
(Model/Params.v) transcribes: validation first, ModelParams(kwargs) attached by the callbacks, parameters
forwarded from the importing model's attribute at every call site.
"""
import ast
from .common import parse_file, find_func, need, emit, coq_codes, TranslateError


def _cls(tree, name):
    for n in ast.walk(tree):
        if isinstance(n, ast.ClassDef) and n.name == name:
            return n
    raise TranslateError("class %s not found" % name)


def _sig(fn):
    a = fn.args
    need(not a.posonlyargs and not a.kwonlyargs and a.vararg is None, "%s: unexpected positional-only/keyword-only/*args" % fn.name)
    need(a.kwarg is not None and a.kwarg.arg == "kwargs", "%s: no **kwargs" % fn.name)
    return [x.arg for x in a.args]


def _u(n):
    return ast.unparse(n)


def _calls(node, pred):
    return [n for n in ast.walk(node) if isinstance(n, ast.Call) and pred(n)]


def _kw(call, name):
    for k in call.keywords:
        if k.arg == name:
            return _u(k.value)
    return None


def translate():
    # ---- model_params.py
    tree, _ = parse_file("textx/model_params.py")
    reserved = None
    for n in tree.body:
        if isinstance(n, ast.Assign) and _u(n.targets[0]) == "RESERVED_PARAM_NAMES":
            need(isinstance(n.value, ast.Tuple) and all(isinstance(e, ast.Constant) and isinstance(e.value, str) for e in n.value.elts),
                 "RESERVED_PARAM_NAMES is not a tuple of string literals")
            reserved = [e.value for e in n.value.elts]
    need(reserved is not None, "RESERVED_PARAM_NAMES not found in textx/model_params.py")
    add = find_func(tree, "add", "ModelParamDefinitions")
    need([x.arg for x in add.args.args] == ["self", "name", "description"], "ModelParamDefinitions.add signature changed")
    need(len(add.body) == 2 and isinstance(add.body[0], ast.If) and _u(add.body[0].test) == "name in RESERVED_PARAM_NAMES"
         and len(add.body[0].body) == 1 and isinstance(add.body[0].body[0], ast.Raise) and _u(add.body[0].body[0].exc).startswith("TextXError(")
         and not add.body[0].orelse, "ModelParamDefinitions.add: reserved-name guard changed")
    need(_u(add.body[1]) == "self.store[name] = ModelParamDefinition(name, description)", "ModelParamDefinitions.add: store statement changed")
    chk = find_func(tree, "check_params", "ModelParamDefinitions")
    a = chk.args
    need([x.arg for x in a.posonlyargs] == ["self", "source"] and not a.args and not a.kwonlyargs and a.vararg is None
         and a.kwarg is not None and a.kwarg.arg == "kwargs", "check_params signature is not (self, source, /, **kwargs)")
    need(len(chk.body) == 1 and isinstance(chk.body[0], ast.For) and _u(chk.body[0].target) == "k" and _u(chk.body[0].iter) == "kwargs"
         and not chk.body[0].orelse and len(chk.body[0].body) == 1, "check_params loop changed")
    iff = chk.body[0].body[0]
    need(isinstance(iff, ast.If) and _u(iff.test) == "k not in self.store" and not iff.orelse and len(iff.body) == 1
         and isinstance(iff.body[0], ast.Raise) and _u(iff.body[0].exc) == "TextXError(f'unknown parameter {k} ({source})')",
         "check_params test/raise changed: " + _u(iff))
    mp = _cls(tree, "ModelParams")
    init = find_func(tree, "__init__", "ModelParams")
    need(_u(init.body[0]) == "self.store = dict(*args, **kwargs)", "ModelParams.__init__ no longer copies its argument into a dict")
    need(_u(find_func(tree, "__iter__", "ModelParams").body[0]) == "return iter(self.store)", "ModelParams.__iter__ changed")
    gi = find_func(tree, "__getitem__", "ModelParams")
    need(_u(gi.body[-1]) == "return self.store[self.__keytransform__(key)]", "ModelParams.__getitem__ changed")
    need(_u(find_func(tree, "__keytransform__", "ModelParams").body[0]) == "return key", "ModelParams.__keytransform__ changed")
    need(mp is not None, "ModelParams missing")

    # ---- metamodel.py
    mtree, _ = parse_file("textx/metamodel.py")
    mm = _cls(mtree, "TextXMetaModel")
    init = [n for n in mm.body if isinstance(n, ast.FunctionDef) and n.name == "__init__"]
    need(len(init) == 1, "TextXMetaModel.__init__ not found")
    adds = _calls(init[0], lambda c: _u(c.func) == "self.model_param_defs.add")
    need(all(c.args and isinstance(c.args[0], ast.Constant) and isinstance(c.args[0].value, str) for c in adds), "built-in parameter added with a non-literal name")
    builtin = [c.args[0].value for c in adds]
    need(any(_u(s) == "self.model_param_defs = ModelParamDefinitions()" for s in init[0].body), "model_param_defs is not a fresh ModelParamDefinitions()")
    other_adds = _calls(mm, lambda c: _u(c.func).endswith("model_param_defs.add"))
    need(len(other_adds) == len(adds), "parameter definitions are added outside TextXMetaModel.__init__")

    fs = find_func(mtree, "model_from_str", "TextXMetaModel")
    ff = find_func(mtree, "model_from_file", "TextXMetaModel")
    fi = find_func(mtree, "internal_model_from_file", "TextXMetaModel")
    sig_s, sig_f = _sig(fs), _sig(ff)
    need(sig_s[:3] == ["self", "model_str", "file_name"], "model_from_str: leading arguments are not (self, model_str, file_name)")
    need(sig_f[:2] == ["self", "file_name"], "model_from_file: leading arguments are not (self, file_name)")

    def body_wo_doc(fn):
        b = fn.body
        if b and isinstance(b[0], ast.Expr) and isinstance(b[0].value, ast.Constant) and isinstance(b[0].value.value, str):
            b = b[1:]
        return b
    bs, bf = body_wo_doc(fs), body_wo_doc(ff)
    need(_u(bs[0]) == "self.model_param_defs.check_params('from_str', **kwargs)", "model_from_str does not validate **kwargs first: " + _u(bs[0]))
    need(_u(bf[0]) == "self.model_param_defs.check_params(file_name, **kwargs)", "model_from_file does not validate **kwargs first: " + _u(bf[0]))
    # model_from_file: forwards ModelParams(kwargs)
    need(len(bf) == 2 and isinstance(bf[1], ast.Return) and isinstance(bf[1].value, ast.Call)
         and _u(bf[1].value.func) == "self.internal_model_from_file" and _kw(bf[1].value, "model_params") == "ModelParams(kwargs)"
         and _u(bf[1].value.args[0]) == "file_name", "model_from_file body changed: " + _u(bf[1]))
    # model_from_str: branch on file_name
    br = [s for s in bs if isinstance(s, ast.If) and _u(s.test) == "file_name is None"]
    need(len(br) == 1, "model_from_str: `if file_name is None` not found")
    br = br[0]
    cb = [s for s in br.body if isinstance(s, ast.FunctionDef) and s.name == "kwargs_callback"]
    need(len(cb) == 1, "model_from_str: kwargs_callback not found")
    _check_callback(cb[0], "ModelParams(kwargs)", "pre_ref_resolution_callback")
    gm = _calls(br, lambda c: _u(c.func).endswith(".get_model_from_str"))
    need(len(gm) == 1 and _kw(gm[0], "pre_ref_resolution_callback") == "kwargs_callback", "model_from_str: kwargs_callback is not passed to get_model_from_str")
    im = _calls(ast.Module(body=br.orelse, type_ignores=[]), lambda c: _u(c.func) == "self.internal_model_from_file")
    need(len(im) == 1 and _kw(im[0], "model_params") == "ModelParams(kwargs)" and _kw(im[0], "model_str") == "model_str"
         and _u(im[0].args[0]) == "file_name", "model_from_str (file_name given): internal_model_from_file call changed")
    # internal_model_from_file
    cb = [s for s in fi.body if isinstance(s, ast.FunctionDef) and s.name == "kwargs_callback"]
    need(len(cb) == 1, "internal_model_from_file: kwargs_callback not found")
    _check_callback(cb[0], "model_params", "callback")
    gm = _calls(fi, lambda c: _u(c.func).endswith(".get_model_from_str"))
    need(len(gm) == 1 and _kw(gm[0], "pre_ref_resolution_callback") == "kwargs_callback", "internal_model_from_file: kwargs_callback is not passed to get_model_from_str")
    need("model_params" in [x.arg for x in fi.args.args], "internal_model_from_file lost its model_params argument")
    assigns = [n for n in ast.walk(fi) if isinstance(n, (ast.Assign, ast.AugAssign)) and any("model_params" == _u(t) for t in (n.targets if isinstance(n, ast.Assign) else [n.target]))]
    need(not assigns, "internal_model_from_file reassigns model_params")

    # ---- scoping/__init__.py : forwarding through the repository
    stree, _ = parse_file("textx/scoping/__init__.py")
    for fname, callee in (("load_models_using_filepattern", "self.load_model"), ("load_model_using_search_path", "self.load_model"),
                          ("load_model", "the_metamodel.internal_model_from_file")):
        fn = find_func(stree, fname, "GlobalModelRepository")
        need("model_params" in [x.arg for x in fn.args.args], "GlobalModelRepository.%s lost its model_params argument" % fname)
        cs = _calls(fn, lambda c, callee=callee: _u(c.func) == callee)
        need(len(cs) == 1 and _kw(cs[0], "model_params") == "model_params", "GlobalModelRepository.%s does not forward model_params" % fname)
        assigns = [n for n in ast.walk(fn) if isinstance(n, ast.Assign) and any(_u(t) == "model_params" for t in n.targets)]
        need(not assigns, "GlobalModelRepository.%s reassigns model_params" % fname)

    # ---- scoping/providers.py : forwarding from the importing model
    ptree, _ = parse_file("textx/scoping/providers.py")
    f1 = find_func(ptree, "_load_referenced_models", "ImportURI")
    cs = _calls(f1, lambda c: _u(c.func) in ("model._tx_model_repository.load_model_using_search_path", "model._tx_model_repository.load_models_using_filepattern"))
    need(len(cs) == 2 and all(_kw(c, "model_params") == "model._tx_model_params" and _kw(c, "model") == "model" for c in cs),
         "ImportURI._load_referenced_models does not forward model._tx_model_params")
    f2 = find_func(ptree, "_load_referenced_models", "GlobalRepo")
    cs = _calls(f2, lambda c: _u(c.func) == "model._tx_model_repository.load_models_using_filepattern")
    need(len(cs) == 1 and _kw(cs[0], "model_params") == "model._tx_model_params" and _kw(cs[0], "model") == "model",
         "GlobalRepo._load_referenced_models does not forward model._tx_model_params")
    tests = [n for n in ast.walk(f2) if isinstance(n, ast.If)]
    need(len(tests) == 1, "GlobalRepo._load_referenced_models: project_root test not found")
    t = tests[0].test
    need(isinstance(t, ast.BoolOp) and isinstance(t.op, ast.And) and len(t.values) == 2 and _u(t.values[0]) == "not isabs(filename_pattern)"
         and isinstance(t.values[1], ast.Compare) and isinstance(t.values[1].ops[0], ast.In) and isinstance(t.values[1].left, ast.Constant)
         and _u(t.values[1].comparators[0]) == "model._tx_model_params", "GlobalRepo project_root test changed: " + _u(t))
    root_key = t.values[1].left.value
    f3 = find_func(ptree, "load_models_in_model_repo", "GlobalRepo")
    sig_r = _sig(f3)
    need(sig_r[:1] == ["self"], "load_models_in_model_repo: first argument is not self")
    cs = _calls(f3, lambda c: _u(c.func) == "global_model_repo.load_models_using_filepattern")
    need(len(cs) == 1 and _kw(cs[0], "model_params") == "ModelParams(kwargs)" and _kw(cs[0], "model") == "None"
         and _u(cs[0].args[0]) == "filename_pattern", "load_models_in_model_repo: loading call changed")
    need(not _calls(f3, lambda c: "check_params" in _u(c.func)), "load_models_in_model_repo now validates its parameters")
    need(_u(tests[0].body[0]) == "filename_pattern = join(model._tx_model_params[%r], filename_pattern)" % root_key, "GlobalRepo project_root join changed")

    def lst(xs):
        return "[" + "; ".join(coq_codes(x) for x in xs) + "]"
    emit("SrcParams", "\n".join([
        "From TxV Require Import Core.Base.",
        "(* argument names of TextXMetaModel.model_from_str / model_from_file, in order (a keyword argument with one of",
        "   these names is bound to that argument, never to **kwargs) *)",
        "Definition sig_from_str : list (list N) := %s." % lst(sig_s),
        "Definition sig_from_file : list (list N) := %s." % lst(sig_f),
        "(* argument names of GlobalRepo.load_models_in_model_repo *)",
        "Definition sig_repo : list (list N) := %s." % lst(sig_r),
        "(* RESERVED_PARAM_NAMES: names ModelParamDefinitions.add refuses *)",
        "Definition reserved_names : list (list N) := %s." % lst(reserved),
        "(* parameters every TextXMetaModel declares itself *)",
        "Definition builtin_params : list (list N) := %s." % lst(builtin),
        "(* the parameter GlobalRepo consults *)",
        "Definition project_root_key : list N := %s." % coq_codes(root_key),
        "Definition source_from_str : list N := %s." % coq_codes("from_str"),
    ]) + "\n")
    return []


def _check_callback(fn, value, chained):
    """def kwargs_callback(other_model): if hasattr(other_model, '_tx_metamodel'): other_model._tx_model_params = <value>;
       if <chained>: <chained>(other_model)"""
    need([x.arg for x in fn.args.args] == ["other_model"], "kwargs_callback signature changed")
    need(len(fn.body) == 2, "kwargs_callback body changed")
    s0, s1 = fn.body
    need(isinstance(s0, ast.If) and _u(s0.test) == "hasattr(other_model, '_tx_metamodel')" and not s0.orelse and len(s0.body) == 1
         and _u(s0.body[0]) == "other_model._tx_model_params = " + value, "kwargs_callback no longer attaches %s: %s" % (value, _u(s0)))
    need(isinstance(s1, ast.If) and _u(s1.test) == chained and not s1.orelse and len(s1.body) == 1
         and _u(s1.body[0]) == "%s(other_model)" % chained, "kwargs_callback no longer chains to %s" % chained)
