"""textx/export.py -> Gen/SrcExport.v (fail closed).

Translated facts:
  * escape_chain   the chain of single-character str.replace calls of dot_escape, in application order
  * repr_limit     the truncation length of dot_repr (whose whole source shape is compared)
  * model_doc / metamodel_doc / plantuml_doc : a regular over-approximation (type tx) of every text the
    exporters can write: first write, any sequence of the other output statements, last write.  Each output
    statement is its literal text with holes; every hole is classified syntactically by the expression that
    fills it (id(..) -> HDigits, dot_escape(..) -> HEscaped, grammar names -> HIdent, ...) and anything not
    recognised is HRaw, which no safety check in Coq accepts.  Variables are replaced by the union of what is
    assigned to them (`x = a`, `x += b`, `x = f"{x}..."` -> (a)(b|...)* ).
The translator makes no safety judgement itself: literals, order and hole kinds are checked in Coq."""
import ast
from .common import parse_file, find_func, need, emit, coq_codes, TranslateError

IDENT_EXPRS = {"cls.name", "cls.fqn", "attr.name", "attr.cls.name", "attr.cls.fqn", "obj_cls.__name__",
               "type(list_obj).__name__", "type(attr_value).__name__", "base.fqn", "special.fqn"}
PLAIN_EXPRS = {"attr.mult", "cls.typ", "self.linetype"}
PRIM_TEST = "type({v}) in PRIMITIVE_PYTHON_TYPES"


def chain_of(fn):
    """dot_escape: a chain of .replace(one_char, string) on the argument."""
    need(len(fn.body) == 1 and isinstance(fn.body[0], ast.Return), "dot_escape is not a single return")
    need([a.arg for a in fn.args.args] == ["s"], "dot_escape parameters changed")
    e = fn.body[0].value
    chain = []
    while isinstance(e, ast.Call) and isinstance(e.func, ast.Attribute) and e.func.attr == "replace":
        need(len(e.args) == 2 and not e.keywords and all(isinstance(a, ast.Constant) and isinstance(a.value, str) for a in e.args), "replace arguments are not two literals")
        need(len(e.args[0].value) == 1, "replace pattern is not a single character")
        chain.append((e.args[0].value, e.args[1].value))
        e = e.func.value
    need(isinstance(e, ast.Name) and e.id == "s", "dot_escape chain does not start from its argument")
    return list(reversed(chain))


def repr_of(fn):
    src = ast.unparse(fn)
    want = ("def dot_repr(o):\n    if isinstance(o, str):\n        escaped = dot_escape(str(o))\n        if len(escaped) > %d:\n"
            "            return f\"'{escaped[:%d]}...'\"\n        else:\n            return f\"'{escaped}'\"\n    else:\n        return str(o)")
    for n in range(1, 200):
        if src == want % (n, n):
            return n
    raise TranslateError("dot_repr changed: " + src[:200])


def set_parents(node, parent=None):
    node._parent = parent
    for ch in ast.iter_child_nodes(node):
        set_parents(ch, node)


def own_nodes(fn):
    """nodes of fn excluding nested function definitions"""
    out = []

    def go(n):
        for ch in ast.iter_child_nodes(n):
            if isinstance(ch, (ast.FunctionDef, ast.Lambda, ast.ClassDef)):
                continue
            out.append(ch)
            go(ch)
    go(fn)
    return out


def mentions(e, name):
    return any(isinstance(n, ast.Name) and n.id == name for n in ast.walk(e))


class Fn:
    """one function: its output expressions as tx terms"""

    def __init__(self, fn, consts, cls_methods=None):
        self.fn = fn
        self.consts = consts
        self.methods = cls_methods or {}
        self.nodes = own_nodes(fn)
        self.assigns, self.augs = {}, {}
        for n in self.nodes:
            if isinstance(n, ast.Assign):
                need(len(n.targets) == 1, "multiple assignment targets")
                t = n.targets[0]
                if isinstance(t, ast.Name):
                    self.assigns.setdefault(t.id, []).append(n)
            elif isinstance(n, ast.AugAssign) and isinstance(n.target, ast.Name):
                need(isinstance(n.op, ast.Add), "augmented assignment other than +=")
                self.augs.setdefault(n.target.id, []).append(n)
        self.busy = set()

    # ---- guards -------------------------------------------------------------------------------
    def enclosing_ifs(self, node):
        """[(If node, in_body: bool)] from innermost to outermost, within this function"""
        res = []
        ch, p = node, node._parent
        while p is not None and p is not self.fn:
            if isinstance(p, ast.If):
                if any(ch is s for s in p.body):
                    res.append((p, True))
                elif any(ch is s for s in p.orelse):
                    res.append((p, False))
            ch, p = p, p._parent
        return res

    def assigned_in(self, stmts, name):
        for s in stmts:
            for n in ast.walk(s):
                if isinstance(n, (ast.Assign, ast.AugAssign)):
                    ts = n.targets if isinstance(n, ast.Assign) else [n.target]
                    if any(isinstance(t, ast.Name) and t.id == name for t in ts):
                        return True
        return False

    def known_primitive(self, name, site):
        """is `name` an int/float/str/bool at `site`?  Only by an enclosing `if type(name) in PRIMITIVE_PYTHON_TYPES:` body
        that does not assign it, or the all([...]) test over the list a comprehension variable is drawn from."""
        for iff, in_body in self.enclosing_ifs(site):
            if in_body and ast.unparse(iff.test) == PRIM_TEST.format(v=name) and not self.assigned_in(iff.body, name):
                return iff
        return None

    def prim_kind(self, name, site):
        """kind of the text of str(name) at site"""
        iff = self.known_primitive(name, site)
        if iff is None:
            return "HRaw"
        # a string is only harmless if it went through dot_repr: the statement just before the type test must be
        #   if isinstance(name, str) and attr_name != 'name': name = dot_repr(name)
        # and the site must be where attr_name != 'name'
        block = iff._parent.body if any(iff is s for s in getattr(iff._parent, "body", [])) else getattr(iff._parent, "orelse", [])
        k = next((i for i, s in enumerate(block) if s is iff), None)
        if k is None or k == 0:
            return "HRaw"
        prev = " ".join(ast.unparse(block[k - 1]).split())
        if prev != "if isinstance({v}, str) and attr_name != 'name': {v} = dot_repr({v})".format(v=name):
            return "HRaw"
        for inner, in_body in self.enclosing_ifs(site):
            if inner is iff:
                break
            if not in_body and ast.unparse(inner.test) == "attr_name == 'name'" and not self.assigned_in(inner.orelse, "attr_name"):
                return "HPrim"
        return "HRaw"

    def comp_primitive(self, call, site):
        """dot_repr(x) as the element of a comprehension over L inside `if all([type(x) in PRIMITIVE_PYTHON_TYPES for x in L]):`"""
        comp = site
        while comp is not None and not isinstance(comp, (ast.ListComp, ast.GeneratorExp)):
            comp = comp._parent
        if comp is None or len(comp.generators) != 1 or comp.generators[0].ifs:
            return False
        g = comp.generators[0]
        if not (isinstance(g.target, ast.Name) and len(call.args) == 1 and isinstance(call.args[0], ast.Name) and call.args[0].id == g.target.id):
            return False
        lst = ast.unparse(g.iter)
        want = "all([type(x) in PRIMITIVE_PYTHON_TYPES for x in %s])" % lst
        for iff, in_body in self.enclosing_ifs(site):
            if in_body and ast.unparse(iff.test) == want and isinstance(g.iter, ast.Name) and not self.assigned_in(iff.body, g.iter.id):
                return True
        return False

    def loop_var_kind(self, name):
        """attr_name: key of obj_cls._tx_attrs; idx: enumerate index"""
        for n in self.nodes:
            if isinstance(n, ast.For):
                t, it = ast.unparse(n.target), ast.unparse(n.iter)
                if name == "attr_name" and t == "(attr_name, attr)" and it == "obj_cls._tx_attrs.items()":
                    return "HIdent"
                if name == "idx" and t.startswith("(idx, ") and it.startswith("enumerate("):
                    return "HDigits"
        return None

    # ---- expressions --------------------------------------------------------------------------
    def tx(self, e):
        src = ast.unparse(e)
        if isinstance(e, ast.Constant):
            need(isinstance(e.value, str), "non-string constant written")
            return ("Lit", e.value)
        if isinstance(e, ast.JoinedStr):
            parts = []
            for p in e.values:
                if isinstance(p, ast.Constant):
                    parts.append(("Lit", p.value))
                else:
                    need(p.format_spec is None and p.conversion == -1, "format spec in template")
                    parts.append(self.tx(p.value))
            return ("Cat", parts)
        if isinstance(e, ast.BinOp) and isinstance(e.op, ast.Add):
            return ("Cat", [self.tx(e.left), self.tx(e.right)])
        if isinstance(e, ast.IfExp):
            return ("Alt", [self.tx(e.body), self.tx(e.orelse)])
        if isinstance(e, ast.Call):
            f = ast.unparse(e.func)
            if f == "id" and len(e.args) == 1:
                return ("Hole", "HDigits")
            if f == "dot_escape" and len(e.args) == 1:
                return ("Hole", "HEscaped")
            if f == "html_escape" and len(e.args) == 1:
                return ("Hole", "HHtml")
            if f == "dot_repr" and len(e.args) == 1:
                return ("Hole", "HPrim" if self.comp_primitive(e, e) else "HRaw")
            if isinstance(e.func, ast.Attribute) and e.func.attr == "format" and isinstance(e.func.value, ast.Constant) and not e.keywords:
                return self.fmt(e.func.value.value, e.args)
            if isinstance(e.func, ast.Attribute) and e.func.attr == "join" and isinstance(e.func.value, ast.Constant) and len(e.args) == 1 \
                    and isinstance(e.args[0], (ast.ListComp, ast.GeneratorExp)):
                return ("Star", ("Alt", [self.tx(e.args[0].elt), ("Lit", e.func.value.value)]))
            if isinstance(e.func, ast.Attribute) and isinstance(e.func.value, ast.Name) and e.func.value.id == "self" and not e.args and e.func.attr in self.methods:
                return self.methods[e.func.attr]()
            return ("Hole", "HRaw")
        if isinstance(e, ast.Attribute):
            if src in IDENT_EXPRS:
                return ("Hole", "HIdent")
            if src in PLAIN_EXPRS:
                return ("Hole", "HPlain")
            return ("Hole", "HRaw")
        if isinstance(e, ast.Name):
            return self.var(e.id, e)
        return ("Hole", "HRaw")

    def concat_parts(self, v):
        """top-level pieces of a string concatenation (f-string parts or + operands) as AST expressions"""
        if isinstance(v, ast.JoinedStr):
            out = []
            for p in v.values:
                if isinstance(p, ast.Constant):
                    out.append(p)
                else:
                    need(p.format_spec is None and p.conversion == -1, "format spec in template")
                    out.append(p.value)
            return out
        if isinstance(v, ast.BinOp) and isinstance(v.op, ast.Add):
            return self.concat_parts(v.left) + self.concat_parts(v.right)
        return [v]

    def fmt(self, fmt, args):
        parts, buf, i, k = [], "", 0, 0
        while i < len(fmt):
            two = fmt[i:i + 2]
            if two == "{{":
                buf += "{"
                i += 2
            elif two == "}}":
                buf += "}"
                i += 2
            elif two == "{}":
                need(k < len(args), "format() template with more holes than arguments")
                parts.append(("Lit", buf))
                buf = ""
                parts.append(self.tx(args[k]))
                k += 1
                i += 2
            else:
                need(fmt[i] not in "{}", "format() template with non-positional holes")
                buf += fmt[i]
                i += 1
        need(k == len(args), "format() arguments not all used")
        parts.append(("Lit", buf))
        return ("Cat", parts)

    def var(self, name, site):
        if name in self.consts and name not in self.assigns and name not in self.augs:
            return ("Lit", self.consts[name])
        if name in ("attr_value", "list_obj"):
            return ("Hole", self.prim_kind(name, site))
        if name not in self.assigns and name not in self.augs:
            k = self.loop_var_kind(name)
            return ("Hole", k or "HRaw")
        if name in self.busy:
            return ("Hole", "HRaw")
        self.busy.add(name)
        try:
            inits, apps, pres = [], [], []
            for a in self.assigns.get(name, []):
                v = a.value
                if not mentions(v, name):
                    inits.append(self.tx(v))
                    continue
                # x = <before> + x + <after> (f-string or +): every value of x is (before)* init (after)*
                parts = self.concat_parts(v)
                ks = [i for i, p in enumerate(parts) if isinstance(p, ast.Name) and p.id == name]
                if len(ks) != 1 or any(mentions(p, name) for i, p in enumerate(parts) if i != ks[0]):
                    return ("Hole", "HRaw")
                k = ks[0]
                if parts[:k]:
                    pres.append(("Cat", [self.tx(p) for p in parts[:k]]))
                if parts[k + 1:]:
                    apps.append(("Cat", [self.tx(p) for p in parts[k + 1:]]))
            for a in self.augs.get(name, []):
                if mentions(a.value, name):
                    return ("Hole", "HRaw")
                apps.append(self.tx(a.value))
            need(inits, "variable %s used in output is never initialised" % name)
            t = ("Alt", inits) if len(inits) > 1 else inits[0]
            seq = []
            if pres:
                seq.append(("Star", ("Alt", pres)))
            seq.append(t)
            if apps:
                seq.append(("Star", ("Alt", apps)))
            return ("Cat", seq)
        finally:
            self.busy.discard(name)

    def writes(self):
        """tx of the argument of every f.write(...) of this function, in source order"""
        out = []
        for n in self.nodes:
            if isinstance(n, ast.Call) and ast.unparse(n.func) == "f.write":
                need(len(n.args) == 1 and not n.keywords, "f.write with unexpected arguments")
                out.append((n, self.tx(n.args[0])))
        return out

    def structured(self):
        """the whole output of a function whose body is straight-line code with simple loops over f.write statements:
        the writes in order, a loop as a repetition.  None when the body has any other shape."""
        def is_write(st):
            return isinstance(st, ast.Expr) and isinstance(st.value, ast.Call) and ast.unparse(st.value.func) == "f.write" \
                and len(st.value.args) == 1 and not st.value.keywords

        def has_call_to_writer(st):
            return any(isinstance(n, ast.Call) and (ast.unparse(n.func) in ("f.write", "_export", "_export_subgraph")) for n in ast.walk(st))
        parts = []
        for st in self.fn.body:
            if is_write(st):
                parts.append(self.tx(st.value.args[0]))
            elif isinstance(st, ast.For) and not st.orelse and all(is_write(x) for x in st.body):
                parts.append(("Star", ("Cat", [self.tx(x.value.args[0]) for x in st.body])))
            elif isinstance(st, (ast.Assign, ast.ImportFrom, ast.Import)) and not has_call_to_writer(st):
                continue
            elif isinstance(st, ast.Expr) and isinstance(st.value, ast.Constant):
                continue
            else:
                return None
        return ("Cat", parts)

    def returns(self):
        rs = [n for n in self.nodes if isinstance(n, ast.Return) and n.value is not None]
        need(rs, "method %s returns nothing" % self.fn.name)
        ts = [self.tx(r.value) for r in rs]
        return ts[0] if len(ts) == 1 else ("Alt", ts)


def simp(t):
    """flatten nested Cat/Alt, merge adjacent literals, drop duplicates in Alt (purely structural)"""
    if t[0] == "Cat":
        parts = []
        for p in map(simp, t[1]):
            if p[0] == "Cat":
                parts.extend(p[1])
            else:
                parts.append(p)
        out = []
        for p in parts:
            if p[0] == "Lit" and out and out[-1][0] == "Lit":
                out[-1] = ("Lit", out[-1][1] + p[1])
            elif p == ("Lit", ""):
                continue
            else:
                out.append(p)
        if len(out) == 1:
            return out[0]
        return ("Cat", out) if out else ("Lit", "")
    if t[0] == "Alt":
        alts = []
        for p in map(simp, t[1]):
            for q in (p[1] if p[0] == "Alt" else [p]):
                if q not in alts:
                    alts.append(q)
        return alts[0] if len(alts) == 1 else ("Alt", alts)
    if t[0] == "Star":
        return ("Star", simp(t[1]))
    return t


def node_labels(doc):
    """the label texts of the node statements  <id>[label="..."]  among the output statements of a (simplified) document"""
    need(doc[0] == "Cat", "document is not a sequence")
    stars = [p for p in doc[1] if p[0] == "Star"]
    need(stars, "document has no repeated part")
    sites = stars[0][1][1] if stars[0][1][0] == "Alt" else [stars[0][1]]
    labels = []
    for t in sites:
        if not (t[0] == "Cat" and len(t[1]) >= 3 and t[1][0] == ("Hole", "HDigits") and t[1][1][0] == "Lit" and t[1][1][1].lstrip().startswith("[")):
            continue
        first, last = t[1][1][1], t[1][-1]
        if not first.lstrip().startswith("[dir"):
            pre = next((x for x in ('[label="', '[ label="') if first.startswith(x)), None)
            need(pre is not None, "node statement with an unexpected attribute list: %r" % first[:30])
            need(last[0] == "Lit" and last[1].rstrip("\n").endswith('"]'), "node statement does not end with the label")
            body = last[1].rstrip("\n")[:-2]
            labels.append(simp(("Cat", [("Lit", first[len(pre):])] + list(t[1][2:-1]) + [("Lit", body)])))
    need(labels, "no node statement found")
    return labels


def coq_tx(t):
    if t[0] == "Lit":
        return "TLit %s" % coq_codes(t[1])
    if t[0] == "Hole":
        return "THole %s" % t[1]
    if t[0] == "Star":
        return "TStar (%s)" % coq_tx(t[1])
    return "%s [%s]" % ("TCat" if t[0] == "Cat" else "TAlt", "; ".join(coq_tx(p) for p in t[1]))


def renderer_doc(tree, clsname, consts, mm_fn):
    """first write, other writes, last write of metamodel_export_tofile with `renderer` bound to the class"""
    memo = {}

    def method(name):
        def get():
            if name not in memo:
                fn = find_func(tree, name, cls=clsname)
                memo[name] = Fn(fn, consts, methods).returns()
            return memo[name]
        return get
    cls = next(n for n in ast.walk(tree) if isinstance(n, ast.ClassDef) and n.name == clsname)
    methods = {m.name: method(m.name) for m in cls.body if isinstance(m, ast.FunctionDef)}

    def arg_tx(e):
        if isinstance(e, ast.Constant) and isinstance(e.value, str):
            return ("Lit", e.value)
        if isinstance(e, ast.JoinedStr):
            return ("Cat", [("Lit", p.value) if isinstance(p, ast.Constant) else arg_tx(p.value) for p in e.values])
        if isinstance(e, ast.Call) and isinstance(e.func, ast.Attribute) and ast.unparse(e.func.value) == "renderer":
            need(e.func.attr in methods, "renderer method %s not found in %s" % (e.func.attr, clsname))
            return methods[e.func.attr]()
        raise TranslateError("metamodel_export_tofile writes something unexpected: " + ast.unparse(e)[:80])
    ws = [n for n in own_nodes(mm_fn) if isinstance(n, ast.Call) and ast.unparse(n.func) == "f.write"]
    need(len(ws) >= 3, "metamodel_export_tofile: writes not found")
    top = [s.value for s in mm_fn.body if isinstance(s, ast.Expr)]
    need(ws[0] in top and ws[-1] in top and all(ws[0].lineno <= w.lineno <= ws[-1].lineno for w in ws), "metamodel_export_tofile: first/last write are not top-level statements")
    first_stmt = next(i for i, s in enumerate(mm_fn.body) if isinstance(s, ast.Expr) and s.value is ws[0])
    need(all(isinstance(s, ast.If) or (isinstance(s, ast.Expr) and s.value is ws[0]) for s in mm_fn.body[:first_stmt + 1]) and
         not any(isinstance(n, (ast.Call)) and ast.unparse(n.func) == "f.write" for s in mm_fn.body[:first_stmt] for n in ast.walk(s)),
         "metamodel_export_tofile: something is written before the header")
    need(mm_fn.body[-1].value is ws[-1] if isinstance(mm_fn.body[-1], ast.Expr) else False, "metamodel_export_tofile: the trailer is not written last")
    txs = [arg_tx(w.args[0]) for w in ws]
    return ("Cat", [txs[0], ("Star", ("Alt", txs[1:-1])), txs[-1]])


def type_names():
    """textx/lang.py: BASE_TYPE_NAMES (rule names of the rules listed in BASE_TYPE_RULES) and the extra name of ALL_TYPE_NAMES"""
    tree, _ = parse_file("textx/lang.py")
    assigns = {n.targets[0].id: n.value for n in tree.body if isinstance(n, ast.Assign) and len(n.targets) == 1 and isinstance(n.targets[0], ast.Name)}
    btr = assigns.get("BASE_TYPE_RULES")
    need(isinstance(btr, ast.DictComp) and ast.unparse(btr.key) == "rule.rule_name" and ast.unparse(btr.value) == "rule"
         and len(btr.generators) == 1 and isinstance(btr.generators[0].iter, ast.List) and not btr.generators[0].ifs, "BASE_TYPE_RULES changed")
    need(ast.unparse(assigns.get("BASE_TYPE_NAMES")) == "list(BASE_TYPE_RULES.keys())", "BASE_TYPE_NAMES changed")
    allt = assigns.get("ALL_TYPE_NAMES")
    need(isinstance(allt, ast.BinOp) and isinstance(allt.op, ast.Add) and ast.unparse(allt.left) == "BASE_TYPE_NAMES" and isinstance(allt.right, ast.List)
         and len(allt.right.elts) == 1 and isinstance(allt.right.elts[0], ast.Constant) and isinstance(allt.right.elts[0].value, str), "ALL_TYPE_NAMES changed")
    names = []
    for e in btr.generators[0].iter.elts:
        need(isinstance(e, ast.Name) and isinstance(assigns.get(e.id), ast.Call), "BASE_TYPE_RULES lists something unexpected")
        call = assigns[e.id]
        rn = [k.value for k in call.keywords if k.arg == "rule_name"]
        if not rn and len(call.args) >= 2 and ast.unparse(call.func) == "_":
            rn = [call.args[1]]
        need(len(rn) == 1 and isinstance(rn[0], ast.Constant) and isinstance(rn[0].value, str), "rule name of %s not found" % e.id)
        names.append(rn[0].value)
    return names, allt.right.elts[0].value


def compute():
    """(chain, limit, {name: tx}) read from the current source"""
    tree, _ = parse_file("textx/export.py")
    set_parents(tree)
    consts = {}
    for n in tree.body:
        if isinstance(n, ast.Assign) and len(n.targets) == 1 and isinstance(n.targets[0], ast.Name) and isinstance(n.value, ast.Constant) and isinstance(n.value.value, str):
            consts[n.targets[0].id] = n.value.value
    chain = chain_of(find_func(tree, "dot_escape"))
    limit = repr_of(find_func(tree, "dot_repr"))
    he = ast.unparse(find_func(tree, "html_escape"))
    need(he == "def html_escape(s):\n    from html import escape\n    return escape(s)", "html_escape changed")
    # multiplicity / rule-kind constants are plain words
    ctree, _ = parse_file("textx/const.py")
    seen_consts = set()
    for n in ctree.body:
        if isinstance(n, ast.Assign) and isinstance(n.targets[0], ast.Name) and n.targets[0].id in ("MULT_ONE", "MULT_OPTIONAL", "MULT_ZEROORMORE", "MULT_ONEORMORE", "RULE_COMMON", "RULE_ABSTRACT", "RULE_MATCH"):
            seen_consts.add(n.targets[0].id)
            need(isinstance(n.value, ast.Constant) and isinstance(n.value.value, str) and all(c.isalnum() or c in ".*" for c in n.value.value),
                 "const %s is not a plain word" % n.targets[0].id)
    need(len(seen_consts) == 7, "multiplicity / rule-kind constants not found in textx/const.py")

    # ---- model export
    mfn = find_func(tree, "model_export_to_file")
    top = Fn(mfn, consts).writes()
    need(len(top) == 2, "model_export_to_file: expected exactly the header and the closing brace at top level")
    stmts = mfn.body
    k_first = next(i for i, s in enumerate(stmts) if isinstance(s, ast.Expr) and s.value is top[0][0])
    need(isinstance(stmts[-1], ast.Expr) and stmts[-1].value is top[1][0], "model_export_to_file: the closing brace is not written last")
    need(not any(isinstance(s, ast.FunctionDef) for s in stmts[:k_first]) and
         not any(isinstance(n, ast.Call) and ast.unparse(n.func) in ("_export", "_export_subgraph") for s in stmts[:k_first] for n in ast.walk(s)),
         "model_export_to_file: output before the header")
    inner = []
    for s in stmts:
        if isinstance(s, ast.FunctionDef):
            need(s.name in ("_export", "_export_subgraph"), "model_export_to_file: unexpected nested function " + s.name)
            whole = Fn(s, consts).structured()
            inner += [whole] if whole is not None else [t for _, t in Fn(s, consts).writes()]
    need(len(inner) >= 4, "model_export_to_file: output statements not found")
    model_doc = ("Cat", [top[0][1], ("Star", ("Alt", inner)), top[1][1]])

    # ---- metamodel export
    mm_fn = find_func(tree, "metamodel_export_tofile")
    mm_doc = renderer_doc(tree, "DotRenderer", consts, mm_fn)
    pu_doc = renderer_doc(tree, "PlantUmlRenderer", consts, mm_fn)

    return chain, limit, {"model_doc": simp(model_doc), "metamodel_doc": simp(mm_doc), "plantuml_doc": simp(pu_doc)}


def translate():
    chain, limit, docs = compute()
    model_doc, mm_doc, pu_doc = docs["model_doc"], docs["metamodel_doc"], docs["plantuml_doc"]
    lines = ["From TxV Require Import Core.Base Model.ExportDefs.",
             "Definition escape_chain : list (N * list N) :=",
             "  [" + ";\n   ".join("(%d%%N, %s)" % (ord(a), coq_codes(b)) for a, b in chain) + "].",
             "Definition repr_limit : nat := %d." % limit,
             "Definition export_header : list N := %s." % coq_codes(model_doc[1][0][1] if model_doc[1][0][0] == "Lit" else ""),
             "Definition base_type_names : list (list N) := [%s]." % "; ".join(coq_codes(x) for x in type_names()[0]),
             "Definition object_name : list N := %s." % coq_codes(type_names()[1]),
             "Definition model_doc : tx :=\n  %s." % coq_tx(simp(model_doc)),
             "Definition metamodel_doc : tx :=\n  %s." % coq_tx(simp(mm_doc)),
             "Definition plantuml_doc : tx :=\n  %s." % coq_tx(simp(pu_doc)),
             "Definition model_labels : list tx :=\n  [%s]." % ";\n   ".join(coq_tx(t) for t in node_labels(model_doc)),
             "Definition metamodel_labels : list tx :=\n  [%s]." % ";\n   ".join(coq_tx(t) for t in node_labels(mm_doc))]
    emit("SrcExport", "\n".join(lines) + "\n")
    return []


def describe():
    """human-readable dump (used by design notes / debugging)"""
    import re
    translate()
    from vt import core
    import os
    return re.sub(r"\[([0-9;]+)\]%N", lambda m: repr("".join(chr(int(x)) for x in m.group(1).split(";"))), open(os.path.join(core.GEN, "SrcExport.v")).read())
