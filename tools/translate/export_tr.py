"""textx/export.py -> Gen/SrcExport.v: the dot_escape replacement chain, the dot_repr truncation
and quoting, and every output template of model_export_to_file / _export / _export_subgraph and of
DotRenderer.render_class / render_attr_link / render_inherited_by with each hole classified."""
import ast
from .common import parse_file, find_func, need, emit, coq_codes, TranslateError

SAFE_NAMES = {"attr_name": "HIdent", "idx": "HDigits", "required": "HConst", "endmark": "HConst", "arrowtail": "HConst", "mult": "HConst"}


def chain_of(fn):
    """dot_escape: a chain of .replace(one_char, string) on the argument."""
    need(len(fn.body) == 1 and isinstance(fn.body[0], ast.Return), "dot_escape is not a single return")
    e = fn.body[0].value
    chain = []
    while isinstance(e, ast.Call) and isinstance(e.func, ast.Attribute) and e.func.attr == "replace":
        need(len(e.args) == 2 and all(isinstance(a, ast.Constant) and isinstance(a.value, str) for a in e.args), "replace arguments are not literals")
        need(len(e.args[0].value) == 1, "replace pattern is not a single character")
        chain.append((e.args[0].value, e.args[1].value))
        e = e.func.value
    need(isinstance(e, ast.Name) and e.id == "s", "dot_escape chain does not start from its argument")
    return list(reversed(chain))


def repr_of(fn):
    src = ast.unparse(fn)
    want = ("def dot_repr(o):\n    if isinstance(o, str):\n        escaped = dot_escape(str(o))\n        if len(escaped) > %d:\n"
            "            return f\"'{escaped[:%d]}...'\"\n        else:\n            return f\"'{escaped}'\"\n    else:\n        return str(o)")
    for n in range(1, 200):
        if src == want % (n, n):
            return n
    raise TranslateError("dot_repr changed: " + src[:200])


class Classifier:
    def __init__(self, fn):
        self.fn = fn
        self.assigns = {}
        for n in ast.walk(fn):
            if isinstance(n, ast.Assign) and len(n.targets) == 1 and isinstance(n.targets[0], ast.Name):
                self.assigns.setdefault(n.targets[0].id, []).append(n.value)
            elif isinstance(n, ast.AugAssign) and isinstance(n.target, ast.Name):
                self.assigns.setdefault(n.target.id, []).append(n.value)
        self.busy = set()

    def kind(self, e):
        s = ast.unparse(e)
        if isinstance(e, ast.Call) and isinstance(e.func, ast.Name):
            if e.func.id == "id":
                return "HDigits"
            if e.func.id == "dot_escape":
                return "HEscaped"
            if e.func.id == "dot_repr":
                return "HRepr"
        if isinstance(e, ast.Attribute) and e.attr in ("__name__", "name", "fqn") and s != "obj.name":
            return "HIdent"       # class / attribute / rule names: grammar identifiers
        if isinstance(e, ast.Attribute) and e.attr == "mult":
            return "HConst"       # one of the multiplicity constants of textx/const.py
        if isinstance(e, ast.JoinedStr):
            return self.value_kind(e)
        if isinstance(e, ast.Name):
            if e.id in SAFE_NAMES and e.id not in self.assigns:
                return SAFE_NAMES[e.id]
            if e.id == "attr_value":
                return self.attr_value_kind()
            if e.id in self.busy:
                return "HSafeText"    # self-reference while classifying the variable's own definitions
            if e.id in self.assigns:
                self.busy.add(e.id)
                try:
                    ks = [self.value_kind(v) for v in self.assigns[e.id]]
                finally:
                    self.busy.discard(e.id)
                return "HRaw" if "HRaw" in ks else "HSafeText"
        if isinstance(e, ast.Constant) and isinstance(e.value, str):
            return "HRaw" if '"' in e.value else "HConst"
        if isinstance(e, ast.IfExp):
            ks = [self.kind(e.body), self.kind(e.orelse)]
            return "HRaw" if "HRaw" in ks else "HSafeText"
        return "HRaw"

    def value_kind(self, v):
        """kind of a string-valued expression used to build a variable"""
        if isinstance(v, ast.Constant) and isinstance(v.value, str):
            return "HRaw" if '"' in v.value else "HConst"
        if isinstance(v, ast.JoinedStr):
            for p in v.values:
                if isinstance(p, ast.Constant):
                    if '"' in p.value:
                        return "HRaw"
                elif self.kind(p.value) == "HRaw":
                    return "HRaw"
            return "HSafeText"
        if isinstance(v, ast.Call) and ast.unparse(v.func) == "','.join" and len(v.args) == 1:
            a = v.args[0]
            if isinstance(a, (ast.ListComp, ast.GeneratorExp)) and self.kind(a.elt) in ("HRepr", "HEscaped", "HDigits"):
                return "HSafeText"
            return "HRaw"
        if isinstance(v, ast.Call) and isinstance(v.func, ast.Attribute) and v.func.attr == "format":
            ks = [self.kind(a) for a in v.args]
            base = v.func.value
            if isinstance(base, ast.Constant) and '"' not in base.value and "HRaw" not in ks:
                return "HSafeText"
            return "HRaw"
        if isinstance(v, ast.BinOp) and isinstance(v.op, ast.Add):
            ks = [self.value_kind(v.left), self.value_kind(v.right)]
            return "HRaw" if "HRaw" in ks else "HSafeText"
        return self.kind(v)

    def attr_value_kind(self):
        """`attr_value` interpolated as text: safe iff strings other than the name were passed through
        dot_repr beforehand and the hole sits in the non-name branch of the primitive-type test."""
        src = " ".join(ast.unparse(self.fn).split())
        guard = "if isinstance(attr_value, str) and attr_name != 'name': attr_value = dot_repr(attr_value)"
        branch = "if type(attr_value) in PRIMITIVE_PYTHON_TYPES: if attr_name == 'name':"
        if guard in src and branch in src:
            return "HPrim"
        return "HRaw"


def templates_of(fn, cl):
    """every f.write(<template>) of the function (not of nested defs handled separately)"""
    out = []
    for n in ast.walk(fn):
        if isinstance(n, ast.Call) and ast.unparse(n.func) == "f.write" and len(n.args) == 1:
            out.append(parts_of(n.args[0], cl))
    return out


def parts_of(e, cl):
    if isinstance(e, ast.Constant) and isinstance(e.value, str):
        return [("Lit", e.value)]
    if isinstance(e, ast.JoinedStr):
        parts = []
        for p in e.values:
            if isinstance(p, ast.Constant):
                parts.append(("Lit", p.value))
            else:
                need(p.format_spec is None and p.conversion == -1, "format spec in template")
                parts.append(("Hole", cl.kind(p.value), ast.unparse(p.value)))
        return parts
    if isinstance(e, ast.Call) and isinstance(e.func, ast.Attribute) and e.func.attr == "format" and isinstance(e.func.value, ast.Constant):
        # '...{}...{}'.format(a, b): positional holes only
        fmt = e.func.value.value
        parts, buf, i, k = [], "", 0, 0
        while i < len(fmt):
            two = fmt[i:i + 2]
            if two == "{{":
                buf += "{"
                i += 2
            elif two == "}}":
                buf += "}"
                i += 2
            elif two == "{}":
                need(k < len(e.args), "format() template with more holes than arguments")
                parts.append(("Lit", buf))
                buf = ""
                parts.append(("Hole", cl.kind(e.args[k]), ast.unparse(e.args[k])))
                k += 1
                i += 2
            else:
                need(fmt[i] not in "{}", "format() template with non-positional holes")
                buf += fmt[i]
                i += 1
        need(k == len(e.args), "format() arguments not all used")
        parts.append(("Lit", buf))
        return parts
    if isinstance(e, ast.Name) and e.id in MODULE_CONSTS:
        return [("Lit", MODULE_CONSTS[e.id])]
    if isinstance(e, ast.Name) or isinstance(e, ast.Call):
        return [("Hole", cl.kind(e), ast.unparse(e))]
    raise TranslateError("unsupported template expression: " + ast.unparse(e)[:80])


def c_parts(parts):
    out = []
    for p in parts:
        if p[0] == "Lit":
            out.append("Lit %s" % coq_codes(p[1]))
        else:
            out.append("Hole %s" % p[1])
    return "[" + "; ".join(out) + "]"


MODULE_CONSTS = {}


def translate():
    tree, _ = parse_file("textx/export.py")
    MODULE_CONSTS.clear()
    for n in tree.body:
        if isinstance(n, ast.Assign) and len(n.targets) == 1 and isinstance(n.targets[0], ast.Name) and isinstance(n.value, ast.Constant) and isinstance(n.value.value, str):
            MODULE_CONSTS[n.targets[0].id] = n.value.value
    chain = chain_of(find_func(tree, "dot_escape"))
    limit = repr_of(find_func(tree, "dot_repr"))
    mfn = find_func(tree, "model_export_to_file")
    cl = Classifier(mfn)
    templates = templates_of(mfn, cl)
    need(len(templates) >= 6, "model_export_to_file templates not found")
    # DotRenderer methods return their templates
    rtemps = []
    for meth in ("render_class", "render_attr_link", "render_inherited_by"):
        fn = find_func(tree, meth, cls="DotRenderer")
        c2 = Classifier(fn)
        for n in ast.walk(fn):
            if isinstance(n, ast.Return) and n.value is not None and not (isinstance(n.value, ast.Constant) and n.value.value == ""):
                rtemps.append(parts_of(n.value, c2))
    need(len(rtemps) == 3, "DotRenderer templates not found (%d)" % len(rtemps))
    lines = ["From TxV Require Import Core.Base Model.ExportDefs.",
             "Definition escape_chain : list (N * list N) :=",
             "  [" + ";\n   ".join("(%d%%N, %s)" % (ord(a), coq_codes(b)) for a, b in chain) + "].",
             "Definition repr_limit : nat := %d." % limit,
             "Definition model_templates : list (list tpart) :=",
             "  [" + ";\n   ".join(c_parts(t) for t in templates) + "].",
             "Definition metamodel_templates : list (list tpart) :=",
             "  [" + ";\n   ".join(c_parts(t) for t in rtemps) + "]."]
    emit("SrcExport", "\n".join(lines) + "\n")
    return []
