"""textx/metamodel.py namespace machinery (+ the visit order facts of textx/lang.py) -> Gen/SrcImports.v

Fail closed: every method the Imports model transcribes is either turned into data
(look-up order of __getitem__, the qualified split, import-name normalisation, when an import is
registered, the initial import list of a namespace, the _cls_fqn construction) or compared as text
(ast.unparse, docstrings dropped) with the transcription the model was written from.  Any other
shape raises TranslateError, i.e. `translator-failed`.
"""
import ast

from .common import parse_file, find_func, need, emit, coq_codes, TranslateError

CLS = "TextXMetaModel"
IMPORTS_EXPR = "self._imported_namespaces[self._namespace_stack[-1]]"


def body_of(fn):
    b = fn.body
    if b and isinstance(b[0], ast.Expr) and isinstance(b[0].value, ast.Constant) and isinstance(b[0].value.value, str):
        b = b[1:]
    return b


def text_of(stmts):
    return "\n".join(ast.unparse(s) for s in stmts)


def expect_text(tree, name, want, cls=CLS):
    got = text_of(body_of(find_func(tree, name, cls)))
    need(got == want, "%s changed:\n%s" % (name, got))


def lookup_steps(stmts):
    """The unqualified branch of __getitem__ as a list of search steps."""
    steps = []
    need(stmts and isinstance(stmts[-1], ast.Raise) and ast.unparse(stmts[-1]).startswith("raise KeyError("),
         "__getitem__: unqualified branch does not end in raise KeyError")
    for s in stmts[:-1]:
        u = ast.unparse(s)
        if u == "if name in self._current_namespace:\n    return self._current_namespace[name]":
            steps.append("LCurrent")
        elif u == "if name in self.namespaces['__base__']:\n    return self.namespaces['__base__'][name]":
            steps.append("LBase")
        elif isinstance(s, ast.For) and ast.unparse(s.target) == "namespace" and not s.orelse \
                and text_of(s.body) == "if name in namespace:\n    return namespace[name]":
            it = s.iter
            rev = False
            if isinstance(it, ast.Call) and ast.unparse(it.func) == "reversed" and len(it.args) == 1 and not it.keywords:
                rev, it = True, it.args[0]
            skip = 0
            if isinstance(it, ast.Subscript) and isinstance(it.slice, ast.Slice):
                sl = it.slice
                need(sl.upper is None and sl.step is None and isinstance(sl.lower, ast.Constant) and isinstance(sl.lower.value, int)
                     and sl.lower.value >= 0, "__getitem__: unsupported slice of the import list: " + ast.unparse(s.iter))
                skip, it = sl.lower.value, it.value
            need(ast.unparse(it) == IMPORTS_EXPR, "__getitem__: loop over something else than the import list: " + ast.unparse(s.iter))
            steps.append("LImports %s %d" % ("true" if rev else "false", skip))
        else:
            raise TranslateError("__getitem__: unrecognised search step: " + u)
    return steps


def translate():
    tree, _ = parse_file("textx/metamodel.py")
    ltree, _ = parse_file("textx/lang.py")

    # ---- __getitem__
    gi = body_of(find_func(tree, "__getitem__", CLS))
    need(len(gi) == 1 and isinstance(gi[0], ast.If) and ast.unparse(gi[0].test) == "'.' in name", "__getitem__: qualified test changed")
    q = gi[0].body
    need(len(q) == 2, "__getitem__: qualified branch changed")
    split = ast.unparse(q[0])
    if split == "namespace, name = name.rsplit('.', 1)":
        split_last = True
    elif split == "namespace, name = name.split('.', 1)":
        split_last = False
    else:
        raise TranslateError("__getitem__: qualified split changed: " + split)
    need(ast.unparse(q[1]) == ("if namespace in self.referenced_languages:\n"
                               "    language = self.referenced_languages[namespace]\n"
                               "    referenced_metamodel = metamodel_for_language(language)\n"
                               "    return referenced_metamodel[name]\n"
                               "else:\n"
                               "    return self.namespaces[namespace][name]"), "__getitem__: qualified look-up changed")
    steps = lookup_steps(gi[0].orelse)

    # ---- _new_import
    ni = body_of(find_func(tree, "_new_import", CLS))
    texts = [ast.unparse(s) for s in ni]
    need(len(texts) >= 6 and texts[0].startswith("assert self.root_path is not None"), "_new_import: head changed")
    need(texts[1] == "current_namespace = self._namespace_stack[-1]", "_new_import: current namespace changed")
    rel_body = ("\n    root_namespace = current_namespace.rsplit('.', 1)[0]\n"
                "    import_name = f'{root_namespace}.{import_name}'")
    if texts[2] == "if current_namespace != self._main_namespace and '.' in current_namespace:" + rel_body:
        main_in_root = True       # the main grammar's folder is the root whatever its file name is
    elif texts[2] == "if '.' in current_namespace:" + rel_body:
        main_in_root = False
    else:
        raise TranslateError("_new_import: relative import name changed:\n" + texts[2])
    i = 3
    normalise = False
    if texts[i] == "import_name = '.'.join((part for part in import_name.split('.') if part))":
        normalise = True
        i += 1
    need(texts[i] == "import_file_name = '{}.tx'.format(os.path.join(self.root_path, *import_name.split('.')))",
         "_new_import: file name construction changed: " + texts[i])
    i += 1
    guard = ni[i]
    need(isinstance(guard, ast.If) and ast.unparse(guard.test) == "import_name not in self.namespaces" and not guard.orelse,
         "_new_import: load-once guard changed")
    gb = [ast.unparse(s) for s in guard.body]
    reg = "self._imported_namespaces[current_namespace].append(self.namespaces[import_name])"
    rest = texts[i + 1:]
    # the nested load and the namespace stack discipline around it, as an operation list
    ops_of = {"self._enter_namespace(import_name)": "NEnter",
              "metamodel_from_file(import_file_name, metamodel=self)": "NLoad",
              "self._leave_namespace()": "NLeave"}
    nested_ops = []
    reg_inside = False
    for k, g in enumerate(gb):
        if g == "if self.debug:\n    self.dprint(f'*** IMPORTING FILE: {import_file_name}')":
            continue
        if g == reg and k == len(gb) - 1:
            reg_inside = True
            continue
        need(g in ops_of, "_new_import: unrecognised statement in the load-once branch: " + g)
        nested_ops.append(ops_of[g])
    need(nested_ops.count("NLoad") == 1, "_new_import: the imported file is not loaded exactly once in the load-once branch")
    if not reg_inside and rest == [reg]:
        always = True
    elif reg_inside and rest == []:
        always = False
    else:
        raise TranslateError("_new_import: registration of the import changed:\n" + "\n".join(gb + ["--"] + rest))

    # ---- _enter_namespace: the import list a new namespace starts with
    en = body_of(find_func(tree, "_enter_namespace", CLS))
    need(len(en) == 2 and isinstance(en[0], ast.If) and ast.unparse(en[0].test) == "namespace_name not in self.namespaces"
         and len(en[0].body) == 2 and not en[0].orelse
         and ast.unparse(en[0].body[0]) == "self.namespaces[namespace_name] = {}"
         and ast.unparse(en[1]) == "self._namespace_stack.append(namespace_name)", "_enter_namespace changed")
    asg = en[0].body[1]
    need(isinstance(asg, ast.Assign) and ast.unparse(asg.targets[0]) == "self._imported_namespaces[namespace_name]"
         and isinstance(asg.value, ast.List), "_enter_namespace: initial import list changed")
    initial = []
    for e in asg.value.elts:
        need(isinstance(e, ast.Subscript) and ast.unparse(e.value) == "self.namespaces" and isinstance(e.slice, ast.Constant)
             and isinstance(e.slice.value, str), "_enter_namespace: initial import list element: " + ast.unparse(e))
        initial.append(e.slice.value)

    # ---- _cls_fqn
    cf = body_of(find_func(tree, "_cls_fqn", CLS))
    need(len(cf) == 2 and ast.unparse(cf[0]) == "ns = self._namespace_stack[-1]" and isinstance(cf[1], ast.If), "_cls_fqn changed")
    t = cf[1].test
    need(isinstance(t, ast.Compare) and ast.unparse(t.left) == "ns" and len(t.ops) == 1 and isinstance(t.ops[0], ast.In)
         and isinstance(t.comparators[0], ast.List), "_cls_fqn: bare-name test changed")
    bare = []
    for e in t.comparators[0].elts:
        need(isinstance(e, ast.Constant) and (e.value is None or isinstance(e.value, str)), "_cls_fqn: bare-name list element")
        if e.value is not None:        # None = meta-model built from a string (no imports possible)
            bare.append(e.value)
    need(text_of(cf[1].body) == "return cls.__name__" and len(cf[1].orelse) == 1 and isinstance(cf[1].orelse[0], ast.Return),
         "_cls_fqn: branches changed")
    r = cf[1].orelse[0].value
    need(isinstance(r, ast.BinOp) and isinstance(r.op, ast.Add) and ast.unparse(r.right) == "cls.__name__"
         and isinstance(r.left, ast.BinOp) and isinstance(r.left.op, ast.Add) and isinstance(r.left.right, ast.Constant)
         and isinstance(r.left.right.value, str), "_cls_fqn: qualified name construction changed: " + ast.unparse(r))
    sep = r.left.right.value
    nsx = ast.unparse(r.left.left)
    if nsx == "ns":
        whole = True
    elif nsx == "ns.rsplit('.', 1)[-1]":
        whole = False
    else:
        raise TranslateError("_cls_fqn: namespace part changed: " + nsx)

    # ---- text comparisons of the remaining transcribed pieces
    expect_text(tree, "_leave_namespace", "self._namespace_stack.pop()")
    expect_text(tree, "_current_namespace", "return self.namespaces[self._namespace_stack[-1]]")
    expect_text(tree, "__contains__", "try:\n    self[name]\n    return True\nexcept KeyError:\n    return False")
    expect_text(tree, "_namespace_for_file_name",
                "if file_name is None or self.root_path is None:\n    return None\n"
                "file_name = os.path.abspath(file_name)\np = os.path\n"
                "q = p.splitext(p.relpath(file_name, start=self.root_path))[0]\nreturn '.'.join(p.split(q)[1:])")
    ic = [ast.unparse(s) for s in body_of(find_func(tree, "_init_class", CLS))]
    want = ["current_namespace = self.namespaces[self._namespace_stack[-1]]", "cls._tx_fqn = self._cls_fqn(cls)",
            "current_namespace[cls.__name__] = cls"]
    pos = [ic.index(w) if w in ic else -1 for w in want]
    need(-1 not in pos and pos == sorted(pos) and pos[2] == pos[0] + 2, "_init_class: namespace registration changed")
    init = [ast.unparse(s) for s in body_of(find_func(tree, "__init__", CLS))]
    if main_in_root:
        need("self._main_namespace = self._namespace_for_file_name(file_name)" in init, "__init__: _main_namespace is not the main grammar's namespace")
        enter_main = "self._enter_namespace(self._main_namespace)"
        need(init.index("self._main_namespace = self._namespace_for_file_name(file_name)") < init.index(enter_main) if enter_main in init else False,
             "__init__: main namespace set-up changed")
    else:
        enter_main = "self._enter_namespace(self._namespace_for_file_name(file_name))"
    for w in ("self.namespaces = {}", "self._namespace_stack = []", "self._imported_namespaces = {}",
              "self._enter_namespace('__base__')", "self._leave_namespace()", enter_main):
        need(w in init, "__init__: missing " + w)
    need(init.index("self._enter_namespace('__base__')") < init.index("self._leave_namespace()") < init.index(enter_main),
         "__init__: namespace set-up order changed")
    need(sum("_main_namespace" in ast.unparse(n) for n in ast.walk(tree) if isinstance(n, ast.Assign)) == (1 if main_in_root else 0),
         "_main_namespace is assigned elsewhere")
    base_calls = [x for x in init[init.index("self._enter_namespace('__base__')"):init.index("self._leave_namespace()")] if "_new_class(" in x]
    need(len(base_calls) == 9, "__init__: %d built-in classes, the model has 9" % len(base_calls))

    # ---- lang.py: when names are created and looked up
    need(text_of(body_of(find_func(ltree, "textx_model"))) == "return (ZeroOrMore(import_or_reference_stm), OneOrMore(textx_rule), EOF)",
         "lang.textx_model: imports no longer precede the rules")
    expect_text(ltree, "visit_import_stm", "self.metamodel._new_import(children[0])", cls="TextXVisitor")
    sp = text_of(body_of(find_func(ltree, "second_textx_model", "TextXVisitor")))
    for w in ("self._resolve_rule_refs(self.grammar_parser, model_parser)", "self._determine_rule_types(model_parser.metamodel)",
              "self._resolve_cls_refs(self.grammar_parser, model_parser)"):
        need(w in sp, "second_textx_model: missing " + w)
    need(sp.index("_resolve_rule_refs") < sp.index("_resolve_cls_refs"), "second_textx_model: pass order changed")
    vr = text_of(body_of(find_func(ltree, "visit_rule_name", "TextXVisitor")))
    need("cls = self.metamodel._new_class(rule_name, None, node.position)" in vr, "visit_rule_name no longer creates the class")
    need("_(r'\\\\w+(\\\\.\\\\w+)*')" in ast.unparse(find_func(ltree, "rule_ref")) or "\\\\w+(\\\\.\\\\w+)*" in ast.unparse(find_func(ltree, "rule_ref")),
         "lang.rule_ref does not accept qualified names")

    # ---- the load algorithm: what a nested load does before _new_import returns
    mf = None
    for n in tree.body:
        if isinstance(n, ast.FunctionDef) and n.name == "metamodel_from_file":
            mf = n
    need(mf is not None, "metamodel_from_file not found")
    need(text_of(body_of(mf)) == ("with open(file_name, encoding='utf-8') as f:\n    lang_desc = f.read()\n"
                                  "metamodel = metamodel_from_str(lang_desc=lang_desc, file_name=file_name, **kwargs)\n"
                                  "return metamodel"), "metamodel_from_file changed")
    ms = [n for n in tree.body if isinstance(n, ast.FunctionDef) and n.name == "metamodel_from_str"]
    need(len(ms) == 1 and text_of(body_of(ms[0])) == (
        "is_main_metamodel = metamodel is None\nif not metamodel:\n    metamodel = TextXMetaModel(**kwargs)\n"
        "file_name = kwargs.get('file_name')\nlanguage_from_str(lang_desc, metamodel, file_name)\n"
        "if is_main_metamodel:\n    metamodel.validate_user_classes()\nreturn metamodel"), "metamodel_from_str changed")
    lf = [ast.unparse(x) for x in body_of(find_func(ltree, "language_from_str"))]
    both = "lang_parser = visit_parse_tree(parse_tree, TextXVisitor(parser, metamodel))"
    first_only = "lang_parser = parse_tree.visit(TextXVisitor(parser, metamodel))"
    second_inside = both in lf       # visit_parse_tree = both passes; a bare .visit() = first pass only (second pass deferred)
    need(second_inside or first_only in lf, "language_from_str no longer runs the visitor on the grammar in a recognised way")
    k = lf.index(both if second_inside else first_only)
    need(any(x.startswith("try:\n    parse_tree = parser.parse(language_def, file_name)") for x in lf[:k]), "language_from_str: parse step changed")
    need(lf[k + 1:k + 4] == ["metamodel.validate()", "lang_parser.metamodel = metamodel", "metamodel._parser_blueprint = lang_parser"]
         and lf[-1] == "return lang_parser", "language_from_str: steps after the visitor changed")
    # Arpeggio (dependency): visit_parse_tree = first pass, then every recorded second_* action;
    # a non-terminal visits its children left to right before its own action
    import importlib.util
    spec = importlib.util.find_spec("arpeggio")
    need(spec is not None and spec.origin, "arpeggio not found")
    with open(spec.origin, encoding="utf-8") as f:
        atree = ast.parse(f.read())
    vpt = text_of(body_of(find_func(atree, "visit_parse_tree")))
    need("result = parse_tree.visit(visitor)" in vpt and
         "for sa_name, asg_node in visitor.for_second_pass:\n    getattr(visitor, 'second_%s' % sa_name)(asg_node)" in vpt
         and vpt.index("result = parse_tree.visit(visitor)") < vpt.index("for sa_name, asg_node in visitor.for_second_pass")
         and vpt.rstrip().endswith("return result"), "arpeggio.visit_parse_tree changed")
    pv = text_of(body_of(find_func(atree, "visit", "ParseTreeNode")))
    loop = ("if isinstance(self, NonTerminal):\n    for node in self:\n        child = node.visit(visitor)\n"
            "        if child is not None:\n            children.append_result(node.rule_name, child)")
    need(loop in pv and "result = getattr(visitor, visit_name)(self, children)" in pv and pv.index(loop) < pv.index("result = getattr(visitor, visit_name)(self, children)"),
         "arpeggio ParseTreeNode.visit no longer visits children in order before the node")
    need("if hasattr(visitor, 'second_%s' % self.rule_name):\n        visitor.for_second_pass.append((self.rule_name, result))" in pv,
         "arpeggio ParseTreeNode.visit no longer records second-pass actions")
    need(text_of(body_of(find_func(ltree, "import_or_reference_stm"))) == "return [import_stm, reference_stm]", "lang.import_or_reference_stm changed")
    need(text_of(body_of(find_func(ltree, "import_stm"))) == "return ('import', grammar_to_import)", "lang.import_stm changed")
    expect_text(ltree, "visit_grammar_to_import", "return str(node)", cls="TextXVisitor")
    text_order = True         # import statements are visited left to right, before the rules

    b2c = lambda x: "true" if x else "false"
    emit("SrcImports", "\n".join([
        "From TxV Require Import Core.Base.",
        "(* one search step of the unqualified branch of TextXMetaModel.__getitem__ *)",
        "Inductive lstep := LCurrent | LBase | LImports (reversed : bool) (skip : nat).",
        "Definition lookup_steps : list lstep := [%s]." % "; ".join(steps),
        "Definition qualified_split_last : bool := %s." % b2c(split_last),
        "Definition normalise_import : bool := %s." % b2c(normalise),
        "(* the folder of the MAIN grammar is the root whatever its file name is (dots in the name) *)",
        "Definition main_in_root : bool := %s." % b2c(main_in_root),
        "Definition register_import_always : bool := %s." % b2c(always),
        "Definition initial_imports : list (list N) := [%s]." % "; ".join(coq_codes(x) for x in initial),
        "Definition fqn_bare : list (list N) := [%s]." % "; ".join(coq_codes(x) for x in bare),
        "Definition fqn_sep : list N := %s." % coq_codes(sep),
        "Definition fqn_ns_whole : bool := %s." % b2c(whole),
        "(* the nested load inside _new_import's load-once branch, in statement order *)",
        "Inductive nop := NEnter | NLoad | NLeave.",
        "Definition nested_ops : list nop := [%s]." % "; ".join(nested_ops),
        "(* metamodel_from_file -> metamodel_from_str -> language_from_str -> arpeggio.visit_parse_tree:",
        "   both passes of the imported grammar run before _new_import returns *)",
        "Definition second_pass_inside_import : bool := %s." % b2c(second_inside),
        "(* import statements are visited in textual order, before the rule names of the file *)",
        "Definition imports_in_text_order : bool := %s." % b2c(text_order),
    ]) + "\n")
    return []
