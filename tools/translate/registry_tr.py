"""textx/registration.py -> Gen/SrcRegistry.v   (C26)

Fail closed.  Every function of the registration API that the Registry model transcribes is
compared as text (`ast.unparse` of the function body without docstrings and `if TYPE_CHECKING:`
blocks) against the transcribed statements; the places where a behaviour-relevant alternative
is recognised are extracted as data (each `*_lowered` fact: the key expression carries
`.lower()` or not):

  lang_lookup_lowered                language_description lowers the requested name
  gen_lookup_lang_lowered / gen_lookup_target_lowered      generator_description
  reg_lang_check_lowered / reg_lang_store_lowered          register_language: duplicate test key, stored key
  reg_gen_lang_lowered / reg_gen_check_lowered / reg_gen_store_lowered   register_generator
  mm_key_lowered                     metamodel_for_language lowers the name used as cache key
  clear_langs_forgets_table          clear_language_registrations sets `languages = None` (so that entry
                                     points are read again)  | `languages = {}`
  clear_langs_drops_cache            ... and resets `metamodels = {}`
  clear_gens_forgets_table           clear_generator_registrations sets `generators = None` | `{}`
  patternless_skipped                languages_for_file skips languages whose pattern is None

The order "lazy entry-point load, then duplicate refusal, then insertion" in register_language /
register_generator is part of the compared text (any other order is refused)."""
import ast
import re
from .common import parse_file, find_func, need, emit, TranslateError


class _Clean(ast.NodeTransformer):
    def _body(self, body):
        out = []
        for s in body:
            if isinstance(s, ast.Expr) and isinstance(s.value, ast.Constant) and isinstance(s.value.value, str):
                continue
            if isinstance(s, ast.If) and ast.unparse(s.test) == "TYPE_CHECKING" and not s.orelse:
                continue
            out.append(self.visit(s))
        return out or [ast.Pass()]

    def generic_visit(self, node):
        for f in ("body", "orelse", "finalbody"):
            v = getattr(node, f, None)
            if isinstance(v, list) and v and isinstance(v[0], ast.stmt):
                setattr(node, f, self._body(v))
        return node


def _text(tree, name):
    fn = find_func(tree, name)
    fn = _Clean().visit(fn)
    return "\n".join(ast.unparse(s) for s in fn.body), [a.arg for a in fn.args.args], (fn.args.kwarg.arg if fn.args.kwarg else None)


def _match(what, text, pattern):
    """pattern: the transcribed text with `<<name:alt1|alt2>>` holes; returns {name: index of alternative}"""
    names = []
    rx = ""
    pos = 0
    for m in re.finditer(r"<<(\w+):(.*?)>>", pattern, re.S):
        rx += re.escape(pattern[pos:m.start()])
        alts = m.group(2).split("||")
        names.append((m.group(1), alts))
        rx += "(" + "|".join(re.escape(a) for a in alts) + ")"
        pos = m.end()
    rx += re.escape(pattern[pos:])
    mm = re.fullmatch(rx, text, re.S)
    if not mm:
        # point at the first differing line
        plain = re.sub(r"<<\w+:(.*?)(\|\|.*?)?>>", lambda m: m.group(1), pattern, flags=re.S)
        a, b = text.split("\n"), plain.split("\n")
        k = next((i for i, (x, y) in enumerate(zip(a, b)) if x != y), min(len(a), len(b)))
        raise TranslateError("%s: statements differ from the transcribed ones at line %d: %r (transcribed: %r)" % (
            what, k + 1, a[k] if k < len(a) else "<end>", b[k] if k < len(b) else "<end>"))
    return {n: alts.index(mm.group(i + 1)) for i, (n, alts) in enumerate(names)}


LANGUAGE_DESCRIPTIONS = """global languages
if languages is None:
    languages = {}
    for language in entry_points(group='textx_languages'):
        register_language_with_project(language.load(), language.dist.name, language.dist.version)
return languages"""

GENERATOR_DESCRIPTIONS = """global generators
if generators is None:
    generators = {}
    for generator in entry_points(group='textx_generators'):
        register_generator_with_project(generator.load(), generator.dist.name, generator.dist.version)
return generators"""

LANGUAGE_DESCRIPTION = """global languages
<<lang_lookup_lowered:language_name = language_name.lower()
||>>if languages is None:
    language_descriptions()
if languages is None or language_name not in languages:
    raise TextXRegistrationError(f'Language "{language_name}" not registered.')
else:
    return languages[language_name]"""

GENERATOR_DESCRIPTION = """global generators
<<gen_lookup_lang_lowered:language_name = language_name.lower()
||>><<gen_lookup_target_lowered:target_name = target_name.lower()
||>>if generators is None:
    generator_descriptions()
try:
    assert generators is not None
    try:
        generators_for_language = generators[language_name]
        return generators_for_language[target_name]
    except KeyError:
        if not any_permitted:
            raise
        generators_for_language = generators['any']
        return generators_for_language[target_name]
except (KeyError, AssertionError) as e:
    raise TextXRegistrationError(f'No generators registered for language "{language_name}" and target "{target_name}".') from e"""

REGISTER_LANGUAGE = """global languages
if languages is None:
    language_descriptions()
if not isinstance(language_desc_or_name, LanguageDesc):
    language_desc = LanguageDesc(name=language_desc_or_name, pattern=pattern, description=description, metamodel=metamodel)
else:
    language_desc = language_desc_or_name
if <<reg_lang_check_lowered:language_desc.name.lower()||language_desc.name>> in languages:
    raise TextXRegistrationError(f'Language "{language_desc.name}" already registered.')
languages[<<reg_lang_store_lowered:language_desc.name.lower()||language_desc.name>>] = language_desc"""

REGISTER_GENERATOR = """global generators
if generators is None:
    generator_descriptions()
if not isinstance(generator_desc_or_language, GeneratorDesc):
    generator_desc = GeneratorDesc(language=generator_desc_or_language, target=target, description=description, generator=generator)
else:
    generator_desc = generator_desc_or_language
lang_gens = generators.setdefault(<<reg_gen_lang_lowered:generator_desc.language.lower()||generator_desc.language>>, {})
if <<reg_gen_check_lowered:generator_desc.target.lower()||generator_desc.target>> in lang_gens:
    raise TextXRegistrationError(f'Generator "{generator_desc.language}->{generator_desc.target}" already registered.')
lang_gens[<<reg_gen_store_lowered:generator_desc.target.lower()||generator_desc.target>>] = generator_desc"""

WITH_PROJECT_L = """language_desc.project_name = project_name
language_desc.project_version = project_version
register_language(language_desc)"""

WITH_PROJECT_G = """generator_desc.project_name = project_name
generator_desc.project_version = project_version
register_generator(generator_desc)"""

CLEAR_L = """global languages, metamodels
languages = <<clear_langs_forgets_table:None||{}>>
<<clear_langs_drops_cache:metamodels = {}||pass>>"""

CLEAR_L2 = """global languages, metamodels
languages = <<clear_langs_forgets_table:None||{}>>"""

CLEAR_G = """global generators
generators = <<clear_gens_forgets_table:None||{}>>"""

MM_FOR_LANGUAGE = """<<mm_key_lowered:language_name = language_name.lower()
||>>if language_name not in metamodels or kwargs:
    from textx.metamodel import TextXMetaMetaModel, TextXMetaModel
    language = language_description(language_name)
    if isinstance(language.metamodel, (TextXMetaModel, TextXMetaMetaModel)):
        metamodels[language_name] = language.metamodel
    else:
        metamodel = language.metamodel(**kwargs)
        if not isinstance(metamodel, (TextXMetaModel, TextXMetaMetaModel)):
            raise TextXRegistrationError(f'Meta-model type for language "{language_name}" is "{metamodel.__class__.__name__}".')
        metamodels[language_name] = metamodel
return metamodels[language_name]"""

LANGUAGES_FOR_FILE = """file_languages = []
for language in language_descriptions().values():
<<patternless_skipped:    if language.pattern is None:
        continue
||>>    if file_name_or_pattern == language.pattern or fnmatch.fnmatch(file_name_or_pattern, language.pattern):
        file_languages.append(language)
return file_languages"""

LANGUAGE_FOR_FILE = """languages = languages_for_file(file_name_or_pattern)
if len(languages) > 1:
    raise TextXRegistrationError(f'Multiple languages can parse "{file_name_or_pattern}".')
elif len(languages) == 0:
    raise TextXRegistrationError(f'No language registered that can parse "{file_name_or_pattern}".')
return languages[0]"""

MMS_FOR_FILE = "return [metamodel_for_language(language.name) for language in languages_for_file(file_name_or_pattern)]"
MM_FOR_FILE = "return metamodel_for_language(language_for_file(file_name_or_pattern).name, **kwargs)"

SIGS = {
    "language_description": (["language_name"], None),
    "generator_description": (["language_name", "target_name", "any_permitted"], None),
    "register_language": (["language_desc_or_name", "pattern", "description", "metamodel"], None),
    "register_generator": (["generator_desc_or_language", "target", "description", "generator"], None),
    "metamodel_for_language": (["language_name"], "kwargs"),
    "languages_for_file": (["file_name_or_pattern"], None),
    "language_for_file": (["file_name_or_pattern"], None),
    "metamodels_for_file": (["file_name_or_pattern"], None),
    "metamodel_for_file": (["file_name_or_pattern"], "kwargs"),
}


def translate():
    tree, _ = parse_file("textx/registration.py")
    facts = {}

    def fn(name, pattern):
        text, args, kw = _text(tree, name)
        if name in SIGS:
            need((args, kw) == SIGS[name], "%s: signature changed: %r" % (name, (args, kw)))
        got = _match(name, text, pattern)
        for k, v in got.items():
            facts[k] = (v == 0)
    fn("language_descriptions", LANGUAGE_DESCRIPTIONS)
    fn("generator_descriptions", GENERATOR_DESCRIPTIONS)
    fn("language_description", LANGUAGE_DESCRIPTION)
    fn("generator_description", GENERATOR_DESCRIPTION)
    fn("register_language", REGISTER_LANGUAGE)
    fn("register_generator", REGISTER_GENERATOR)
    fn("register_language_with_project", WITH_PROJECT_L)
    fn("register_generator_with_project", WITH_PROJECT_G)
    try:
        fn("clear_language_registrations", CLEAR_L)
    except TranslateError:
        fn("clear_language_registrations", CLEAR_L2)
        facts["clear_langs_drops_cache"] = False
    fn("clear_generator_registrations", CLEAR_G)
    fn("metamodel_for_language", MM_FOR_LANGUAGE)
    fn("languages_for_file", LANGUAGES_FOR_FILE)
    fn("language_for_file", LANGUAGE_FOR_FILE)
    fn("metamodels_for_file", MMS_FOR_FILE)
    fn("metamodel_for_file", MM_FOR_FILE)
    # module-level state: initial values, and nothing else writes the registries
    inits = {}
    for s in tree.body:
        if isinstance(s, ast.AnnAssign) and isinstance(s.target, ast.Name):
            inits[s.target.id] = ast.unparse(s.value) if s.value is not None else None
        elif isinstance(s, ast.Assign):
            for t in s.targets:
                if isinstance(t, ast.Name):
                    inits[t.id] = ast.unparse(s.value)
    need(inits.get("metamodels") == "{}" and inits.get("languages") == "None" and inits.get("generators") == "None",
         "initial values of metamodels / languages / generators changed: %r" % {k: inits.get(k) for k in ("metamodels", "languages", "generators")})
    allowed = {"languages": {"language_descriptions", "language_description", "register_language", "clear_language_registrations"},
               "generators": {"generator_descriptions", "generator_description", "register_generator", "clear_generator_registrations"},
               "metamodels": {"clear_language_registrations"}}
    for f in [n for n in ast.walk(tree) if isinstance(n, ast.FunctionDef)]:
        for g in [n for n in ast.walk(f) if isinstance(n, ast.Global)]:
            for name in g.names:
                need(name in allowed and f.name in allowed[name], "%s declares `global %s`" % (f.name, name))
        if f.name != "metamodel_for_language":
            need(not any(isinstance(n, ast.Subscript) and isinstance(n.ctx, (ast.Store, ast.Del)) and ast.unparse(n.value) == "metamodels"
                         for n in ast.walk(f)), "%s writes the metamodel cache" % f.name)
    need(any(isinstance(s, ast.Import) and any(a.name == "fnmatch" and a.asname is None for a in s.names) for s in tree.body), "`import fnmatch` not found")
    order = ["lang_lookup_lowered", "gen_lookup_lang_lowered", "gen_lookup_target_lowered", "reg_lang_check_lowered", "reg_lang_store_lowered",
             "reg_gen_lang_lowered", "reg_gen_check_lowered", "reg_gen_store_lowered", "mm_key_lowered", "clear_langs_forgets_table",
             "clear_langs_drops_cache", "clear_gens_forgets_table", "patternless_skipped"]
    need(set(order) == set(facts), "internal: facts %r" % sorted(facts))
    lines = ["(* textx/registration.py: key normalisation, clearing, cache key, pattern-less languages; see tools/translate/registry_tr.py *)"]
    lines += ["Definition %s : bool := %s." % (k, "true" if facts[k] else "false") for k in order]
    lines += ["(* compared as text: lazy entry-point load, THEN duplicate refusal, THEN insertion (register_language, register_generator) *)",
              "Definition register_loads_then_refuses_then_inserts : bool := true.",
              "(* compared as text: discovery sets the table to {} and registers the entry points through register_*_with_project with no",
              "   handler, so a colliding name raises out of the first use and the partially filled table stays *)",
              "Definition discovery_failure_keeps_partial_table : bool := true."]
    emit("SrcRegistry", "\n".join(lines) + "\n")
    return []
