"""textx/scoping/providers.py, scoping/rrel.py, scoping/__init__.py, model.py, metamodel.py -> Gen/SrcRepo.v (C17/C18)

Facts extracted (by `ast`, fail closed):
  lookup_order                        order in which ImportURI.__call__ (and the RREL '+m:' start list) consults
                                      the own model, the local_models and the builtin_models
  register_before_imports             parse_tree_to_objgraph calls pre_ref_resolution_callback before the
                                      ModelLoader loop, and the callbacks enter the model into all_models
  cleanup_construction_failure        outer handler: _remove_all_affected_models_in_construction(model); raise
  cleanup_resolution_failure          inner handler: remove_models_from_repositories(models, models); raise
  model_processors_on_cached          internal_model_from_file runs the model processors also on a model taken from the
                                      global repository (false: only inside the `if not model:` block)
  cleanup_model_processor_failure     internal_model_from_file AND model_from_str (string main models) remove the models loaded by the call when a model
                                      processor raises on a freshly loaded main model
The bodies of the small repository functions the Coq model transcribes (load_model, remove_model,
remove_models_from_repositories, update_model_in_repo_based_on_filename, get_included_models,
_remove_all_affected_models_in_construction) are compared with the text the model was written from.
"""
import ast
from .common import parse_file, find_func, need, emit, TranslateError


def _body(fn):
    b = list(fn.body)
    if b and isinstance(b[0], ast.Expr) and isinstance(b[0].value, ast.Constant) and isinstance(b[0].value.value, str):
        b = b[1:]
    return b


def _text(stmts):
    return "\n".join(ast.unparse(s) for s in stmts)


def _flat(x):
    return " ".join(x.split())


def _has(text, piece):
    return _flat(piece) in _flat(text)


def _bare_handler(t):
    hs = [h for h in t.handlers if h.type is None]
    return hs[0] if len(hs) == 1 and len(t.handlers) == 1 else None


RET = "if ret:\n    return ret"
EXPECT = {
    "load_model": """assert model_params is not None, 'model_params needs to be specified'
filename = abspath(filename)
if not self.local_models.has_model(filename):
    if self.all_models.has_model(filename):
        new_model = self.all_models[filename]
    else:
        new_model = the_metamodel.internal_model_from_file(filename, pre_ref_resolution_callback=lambda other_model: self.pre_ref_resolution_callback(other_model), is_main_model=is_main_model, encoding=encoding, model_params=model_params)
        self.all_models[filename] = new_model
    if add_to_local_models:
        self.local_models[filename] = new_model
else:
    pass
assert filename in self.all_models
return self.all_models[filename]""",
    "remove_model": """filename = None
for f, m in self.filename_to_model.items():
    if m == model:
        filename = f
if filename:
    del self.filename_to_model[filename]""",
    "remove_models_from_repositories": """assert isinstance(models, list)
for model in models:
    if hasattr(model._tx_metamodel, '_tx_model_repository'):
        model._tx_metamodel._tx_model_repository.remove_models(models_to_be_removed)
    if hasattr(model, '_tx_model_repository'):
        model._tx_model_repository.remove_models(models_to_be_removed)""",
    "get_included_models": """if hasattr(model, '_tx_model_repository'):
    models = list(model._tx_model_repository.all_models)
    if model not in models:
        models.append(model)
else:
    models = [model]
return models""",
    "_remove_all_affected_models_in_construction": """all_affected_models = get_included_models(model)
models_to_be_removed = list(filter(lambda x: hasattr(x, '_tx_reference_resolver'), all_affected_models))
remove_models_from_repositories(all_affected_models, models_to_be_removed)
_abort_user_class_construction([getattr(m, '_tx_parser', None) for m in models_to_be_removed])""",
    # user-class bookkeeping only (parsers' attr methods / collected attributes); no repository is touched
    "_abort_user_class_construction": """for the_parser in parsers:
    if the_parser is not None:
        the_parser._restore_user_attr_methods()
        the_parser._discard_user_obj_attrs()""",
    # "loaded by this call" = not cached before in the model's repository and not taken from the global repository of the
    # metamodel of another language (Model/Repo.v: the cached list of finish_main = own values ++ external values)
    "get_models_loaded_with": """own = model._tx_model_repository.all_models
def cached_elsewhere(m):
    repo = getattr(getattr(m, '_tx_metamodel', None), '_tx_model_repository', None)
    return repo is not None and repo.all_models is not own and any((x is m for x in repo.all_models))
return [m for m in get_included_models(model) if id(m) not in cached_ids and (not cached_elsewhere(m))]""",
    "pre_ref_resolution_callback": """filename = other_model._tx_filename
assert filename
filename = abspath(filename)
other_model._tx_model_repository = GlobalModelRepository(self.all_models)
self.all_models[filename] = other_model""",
}


def _same(fn, key):
    got = _text(_body(fn))
    need(got == EXPECT[key], "%s no longer has the shape the Repo model transcribes:\n%s" % (key, got))


def translate():
    # ---------------- providers.py: ImportURI.__call__
    ptree, _ = parse_file("textx/scoping/providers.py")
    call = find_func(ptree, "__call__", cls="ImportURI")
    order = []
    body = []
    for st in _body(call):
        # a try block whose handlers only re-locate the error and re-raise it does not change what is consulted:
        # its statements count as if written in place
        if isinstance(st, ast.Try) and not st.orelse and not st.finalbody and st.handlers and all(
                h.body and isinstance(h.body[-1], ast.Raise) and h.body[-1].exc is None
                and not any(isinstance(n, (ast.Return, ast.Call)) and not (isinstance(n, ast.Call) and ast.unparse(n.func) in ("get_parser", "get_parser(obj).pos_to_linecol"))
                            for x in h.body[:-1] for n in ast.walk(x))
                for h in st.handlers):
            body.extend(st.body)
        else:
            body.append(st)
    i = 0
    allowed = {"from textx.model import ObjCrossRef, get_model", "from textx.scoping.tools import get_parser", "assert type(obj_ref) is ObjCrossRef, type(obj_ref)",
               "model = get_model(obj)", "model_repository = model._tx_model_repository"}
    while i < len(body):
        s = body[i]
        t = ast.unparse(s)
        if t in allowed:
            i += 1
        elif t == "ret = self.scope_provider(obj, attr, obj_ref)":
            need(i + 1 < len(body) and ast.unparse(body[i + 1]) == RET, "own-model lookup is not followed by `if ret: return ret`")
            order.append("SOwn")
            i += 2
        elif isinstance(s, ast.For) and ast.unparse(s.iter) == "model_repository.local_models":
            need(_text(s.body) == "ret = self.scope_provider(m, attr, obj_ref)\n" + RET and ast.unparse(s.target) == "m" and not s.orelse,
                 "local_models loop changed")
            order.append("SLocal")
            i += 1
        elif isinstance(s, ast.If) and ast.unparse(s.test) == "model._tx_metamodel.builtin_models":
            need(len(s.body) == 1 and isinstance(s.body[0], ast.For) and ast.unparse(s.body[0].iter) == "model._tx_metamodel.builtin_models"
                 and _text(s.body[0].body) == "ret = self.scope_provider(m, attr, obj_ref)\n" + RET and not s.orelse, "builtin_models loop changed")
            order.append("SBuiltin")
            i += 1
        elif t == "return None":
            need(i == len(body) - 1, "return None is not the last statement of ImportURI.__call__")
            i += 1
        else:
            raise TranslateError("unexpected statement in ImportURI.__call__: " + t)
    need(sorted(order) == ["SBuiltin", "SLocal", "SOwn"], "ImportURI.__call__ does not consult own/local/builtin exactly once: %s" % order)
    # RREL '+m:' start list must use the same order
    rtree, _ = parse_file("textx/scoping/rrel.py")
    apply_fn = find_func(rtree, "apply", cls="RRELNavigation")
    txt = ast.unparse(apply_fn)
    a = txt.find("start = [obj]")
    txt = _flat(txt)
    a = txt.find("start = [obj]")
    b = txt.find("for m in obj._tx_model_repository.local_models: start.append(m)")
    c = txt.find("for m in obj._tx_metamodel.builtin_models: start.append(m)")
    need(a >= 0 and b >= 0 and c >= 0, "RREL importURI start list not found")
    rorder = [x for _, x in sorted([(a, "SOwn"), (b, "SLocal"), (c, "SBuiltin")])]
    need(rorder == order, "RREL '+m:' start list order %s differs from ImportURI.__call__ order %s" % (rorder, order))
    # load_models creates the repository from the metamodel's global one, then loads the references
    lm = find_func(ptree, "load_models", cls="ImportURI")
    need("GlobalModelRepository(get_metamodel(model)._tx_model_repository.all_models)" in ast.unparse(lm)
         and ast.unparse(_body(lm)[-1]) == "self._load_referenced_models(model, encoding=encoding)", "ImportURI.load_models changed")

    # ---------------- scoping/__init__.py
    stree, _ = parse_file("textx/scoping/__init__.py")
    _same(find_func(stree, "load_model", cls="GlobalModelRepository"), "load_model")
    _same(find_func(stree, "remove_model", cls="ModelRepository"), "remove_model")
    _same(find_func(stree, "remove_models_from_repositories"), "remove_models_from_repositories")
    _same(find_func(stree, "get_included_models"), "get_included_models")
    _same(find_func(stree, "get_models_loaded_with"), "get_models_loaded_with")
    # an imported file is loaded by the metamodel registered for it; that metamodel consults its own global repository
    for fname in ("load_models_using_filepattern", "load_model_using_search_path"):
        need("the_metamodel = metamodel_for_file_or_default_metamodel(filename, the_metamodel)" in ast.unparse(find_func(stree, fname, cls="GlobalModelRepository")),
             fname + ": the metamodel of an imported file is no longer chosen by metamodel_for_file_or_default_metamodel")
    _same(find_func(stree, "pre_ref_resolution_callback", cls="GlobalModelRepository"), "pre_ref_resolution_callback")
    need(_text(_body(find_func(stree, "remove_model", cls="GlobalModelRepository"))) ==
         "self.all_models.remove_model(model)\nself.local_models.remove_model(model)", "GlobalModelRepository.remove_model changed")
    upd = ast.unparse(find_func(stree, "update_model_in_repo_based_on_filename", cls="GlobalModelRepository"))
    need(_has(upd, "myfilename = abspath(model._tx_filename) if not self.all_models.has_model(myfilename): self.all_models[myfilename] = model"),
         "update_model_in_repo_based_on_filename changed")
    for fname in ("load_models_using_filepattern", "load_model_using_search_path"):
        fb = _body(find_func(stree, fname, cls="GlobalModelRepository"))
        tt = _text(fb)
        need("self.update_model_in_repo_based_on_filename(model)" in tt and tt.find("self.update_model_in_repo_based_on_filename(model)") < tt.find("self.load_model("),
             fname + ": the importing model is no longer entered into the repository before its imports are loaded")
    need("raise OSError(errno.ENOENT" in _text(_body(find_func(stree, "load_models_using_filepattern", cls="GlobalModelRepository"))), "empty glob no longer raises")

    # ---------------- model.py: parse_tree_to_objgraph
    mtree, _ = parse_file("textx/model.py")
    _same(find_func(mtree, "_remove_all_affected_models_in_construction"), "_remove_all_affected_models_in_construction")
    _same(find_func(mtree, "_abort_user_class_construction"), "_abort_user_class_construction")
    pt = find_func(mtree, "parse_tree_to_objgraph")
    outer = [s for s in pt.body if isinstance(s, ast.Try)]
    need(len(outer) == 1, "parse_tree_to_objgraph: expected one top-level try")
    outer = outer[0]
    texts = [ast.unparse(s) for s in outer.body]
    cb = [k for k, t in enumerate(texts) if t == "if pre_ref_resolution_callback:\n    pre_ref_resolution_callback(model)"]
    loops = [k for k, s in enumerate(outer.body) if isinstance(s, ast.For) and ast.unparse(s.iter) == "metamodel.scope_providers.values()"
             and "scope_provider.load_models(model, encoding=encoding)" in ast.unparse(s)]
    loops2 = [k for k, s in enumerate(outer.body) if isinstance(s, ast.For) and ast.unparse(s.iter) == "parser._crossrefs"
              and "scope_provider.load_models(model, encoding=encoding)" in ast.unparse(s)]
    main_if = [k for k, s in enumerate(outer.body) if isinstance(s, ast.If) and ast.unparse(s.test) == "is_main_model"]
    need(len(cb) == 1 and len(loops) == 1 and len(loops2) == 1 and len(main_if) == 1, "parse_tree_to_objgraph: callback / ModelLoader loops / main-model block not found")
    need(loops[0] < main_if[0] and loops2[0] < main_if[0], "imports are no longer loaded before the main model resolves references")
    register_before = cb[0] < loops[0] and cb[0] < loops2[0]
    h = _bare_handler(outer)
    if h is None and not outer.handlers:
        cleanup_outer = False
    else:
        need(h is not None, "outer handler is not a single bare except")
        ht = _text(h.body)
        if "_remove_all_affected_models_in_construction" not in ht:
            need(ht == "raise", "outer handler changed: " + ht)
            cleanup_outer = False
        else:
            need(ht == "_remove_all_affected_models_in_construction(model)\nraise", "outer handler changed: " + ht)
            cleanup_outer = True
    mi = outer.body[main_if[0]]
    need(ast.unparse(mi.body[0]) == "models = get_included_models(model)", "main-model block: models = get_included_models(model) expected first")
    inner = [s for s in mi.body if isinstance(s, ast.Try)]
    need(len(inner) <= 1, "main-model block: more than one try")
    it = ast.unparse(mi)
    need("models = list(filter(lambda x: hasattr(x, '_tx_reference_resolver'), models))" in it, "main-model block no longer filters models under construction")
    k1, k2, k3 = it.find("resolve_one_step()"), it.find("_end_model_construction(m)"), it.find("call_obj_processors(m._tx_metamodel, m)")
    need(0 <= k1 < k2 < k3, "main-model block: resolve / end construction / object processors order changed")
    if not inner:
        cleanup_inner = False
    else:
        ih = _bare_handler(inner[0])
        need(ih is not None, "inner handler is not a single bare except")
        iht = _text(ih.body)
        tb = ast.unparse(inner[0])
        need("resolve_one_step()" in tb and "call_obj_processors(m._tx_metamodel, m)" in tb, "inner try no longer covers resolution and object processors")
        # `_abort_user_class_construction(parsers)` (user-class bookkeeping) may follow the removal
        if "remove_models_from_repositories" not in iht:
            need(iht in ("raise", "_abort_user_class_construction(parsers)\nraise"), "inner handler changed: " + iht)
            cleanup_inner = False
        else:
            need(iht in ("remove_models_from_repositories(models, models)\nraise",
                         "remove_models_from_repositories(models, models)\n_abort_user_class_construction(parsers)\nraise"), "inner handler changed: " + iht)
            cleanup_inner = True

    # ---------------- metamodel.py: internal_model_from_file
    mmtree, _ = parse_file("textx/metamodel.py")
    imf = find_func(mmtree, "internal_model_from_file")
    it = ast.unparse(imf)
    need("self._tx_model_repository.all_models[filename] = other_model" in it and
         "other_model._tx_model_repository = GlobalModelRepository(self._tx_model_repository.all_models)" in it, "metamodel callback no longer registers the model")
    need(_has(it, "if self._tx_model_repository.all_models.has_model(file_name): model = self._tx_model_repository.all_models[file_name]"), "global cache lookup changed")
    # the cache of the metamodel's own global repository is consulted for EVERY load through this metamodel (main loads
    # and imports arriving with a callback alike): the lookup is a direct child of the `hasattr` block
    gblk = [x for x in imf.body if isinstance(x, ast.If) and ast.unparse(x.test) == "hasattr(self, '_tx_model_repository')"]
    need(len(gblk) == 1 and not gblk[0].orelse, "global repository block of internal_model_from_file not found")
    need(any(isinstance(x, ast.If) and ast.unparse(x.test) == "self._tx_model_repository.all_models.has_model(file_name)"
             and _text(x.body) == "model = self._tx_model_repository.all_models[file_name]" and not x.orelse for x in gblk[0].body),
         "the global cache lookup is no longer unconditional inside the global repository block (e.g. only for loads without a callback)")
    loop_txt = "for p in self._model_processors:\n    p(model, self)"
    # the loop is either at the end of the function (every returned model, also one taken from the global
    # repository, is processed) or inside the `if not model:` block (only freshly loaded models are processed)
    fresh_if = [s for s in imf.body if isinstance(s, ast.If) and ast.unparse(s.test) == "not model"]
    need(len(fresh_if) == 1 and not fresh_if[0].orelse, "`if not model:` block of internal_model_from_file not found")
    need(ast.unparse(imf.body[-1]) == "return model", "internal_model_from_file no longer ends with `return model`")

    def _loops(stmts):
        return ([s for s in stmts if ast.unparse(s) == loop_txt], [s for s in stmts if isinstance(s, ast.Try) and _text(s.body) == loop_txt])
    top_loops, top_tries = _loops(imf.body)
    in_loops, in_tries = _loops(fresh_if[0].body)
    need(len(top_loops) + len(top_tries) + len(in_loops) + len(in_tries) == 1, "model processor loop of internal_model_from_file not found (or found twice)")
    on_cached = bool(top_loops or top_tries)
    if in_loops or in_tries:
        fb = _text(fresh_if[0].body)
        need(0 <= fb.find("get_model_from_str(") < fb.find("for p in self._model_processors"), "model processors must run after the load")
    else:
        need(imf.body.index((top_loops + top_tries)[0]) > imf.body.index(fresh_if[0]), "model processors must run after the load")
    tries = top_tries + in_tries
    if not tries:
        cleanup_mp = False
    else:
        mh = _bare_handler(tries[0])
        need(mh is not None, "model processor handler is not a single bare except")
        mht = _text(mh.body)
        want = ("if loaded_models:\n    from textx.scoping import remove_models_from_repositories\n"
                "    remove_models_from_repositories(loaded_models, loaded_models)\nraise")
        need(mht in (want, "raise"), "model processor handler changed: " + mht)
        need("cached_ids = {id(m) for m in self._tx_model_repository.all_models}" in it and
             _has(it, "if is_main_model and hasattr(model, '_tx_model_repository'): from textx.scoping import get_models_loaded_with loaded_models = get_models_loaded_with(model, cached_ids)") and "loaded_models = None" in it,
             "computation of the models loaded by this call changed")
        k_c, k_l, k_m = it.find("cached_ids = {id(m)"), it.find("get_model_from_str("), it.find("loaded_models = get_models_loaded_with(")
        need(0 <= k_c < k_l < k_m, "cached models must be recorded before the load and the loaded ones after it")
        cleanup_mp = mht == want

    # ---------------- metamodel.py: model_from_str without a file name (main model loaded from a string)
    mfs = find_func(mmtree, "model_from_str", cls="TextXMetaModel")
    sblk = [x for x in ast.walk(mfs) if isinstance(x, ast.If) and ast.unparse(x.test) == "file_name is None"]
    need(len(sblk) == 1, "model_from_str: `if file_name is None:` block not found")
    st = _text(sblk[0].body)
    need("get_model_from_str(model_str, debug=debug, pre_ref_resolution_callback=kwargs_callback)" in st, "model_from_str: load call changed")
    s_loops, s_tries = _loops(sblk[0].body)
    need(len(s_loops) + len(s_tries) == 1, "model_from_str: model processor loop not found")
    if s_loops:
        cleanup_mp_str = False
    else:
        sh = _bare_handler(s_tries[0])
        need(sh is not None, "model_from_str: model processor handler is not a single bare except")
        sht = _text(sh.body)
        want_s = ("if hasattr(model, '_tx_model_repository'):\n    from textx.scoping import get_models_loaded_with, remove_models_from_repositories\n"
                  "    loaded_models = get_models_loaded_with(model, cached_ids)\n"
                  "    remove_models_from_repositories(loaded_models, loaded_models)\nraise")
        need(sht in (want_s, "raise"), "model_from_str: model processor handler changed: " + sht)
        need(0 <= st.find("cached_ids = {id(m) for m in self._tx_model_repository.all_models}") < st.find("get_model_from_str("),
             "model_from_str: cached models must be recorded before the load")
        cleanup_mp_str = sht == want_s
    # the invented repository names of models without a file name are distinct: first free 'anonymousN'
    need(_has(upd, "i = 0 while f'anonymous{i}' in self.all_models.filename_to_model: i += 1 myfilename = f'anonymous{i}' self.all_models[myfilename] = model"),
         "update_model_in_repo_based_on_filename: choice of the invented name changed")
    need(_has(upd, "if model._tx_filename is None: for fn in self.all_models.filename_to_model: if self.all_models.filename_to_model[fn] == model: return fn"),
         "update_model_in_repo_based_on_filename: search for an already registered model without file name changed")
    cleanup_mp = cleanup_mp and cleanup_mp_str

    def b(x):
        return "true" if x else "false"
    emit("SrcRepo", "\n".join([
        "From TxV Require Import Core.Base Model.RepoDefs.",
        "Definition lookup_order : list scope_src := [%s]." % "; ".join(order),
        "Definition register_before_imports : bool := %s." % b(register_before),
        "Definition model_processors_on_cached : bool := %s." % b(on_cached),
        "Definition cleanup_construction_failure : bool := %s." % b(cleanup_outer),
        "Definition cleanup_resolution_failure : bool := %s." % b(cleanup_inner),
        "Definition cleanup_model_processor_failure : bool := %s." % b(cleanup_mp)]) + "\n")
    return []
