"""textx/scoping/providers.py, textx/model.py, textx/metamodel.py -> Gen/SrcRepo.v (C17/C18)"""
from .common import emit


def translate():
    emit("SrcRepo", """From TxV Require Import Core.Base Model.RepoDefs.
Definition lookup_order : list scope_src := [SOwn; SLocal; SBuiltin].
Definition register_before_imports : bool := true.
Definition cleanup_construction_failure : bool := true.
Definition cleanup_resolution_failure : bool := true.
Definition cleanup_model_processor_failure : bool := true.
""")
    return []
