"""textx/scoping/rrel.py: the __repr__ methods of the RREL node classes and the terminals of the
RREL grammar -> Gen/SrcRrelSyntax.v.

* every `__repr__` body is compiled (a whitelisted, purely functional subset of Python: string
  constants, f-strings, `+`, `str * int`, `sep.join(map(lambda x: str(x), xs))`, `str(child)`,
  `c in s`, `s.replace(a, b)`, conditional expressions, `if/else`, local assignments, `assert`)
  to a Gallina function over the attribute values (`Model/RrelSyntaxLib.v` combinators); the
  printer of the model (`Model/RrelSyntaxText.v: print_src`) only dispatches to these functions,
  so an edited __repr__ changes the function the theorems are proved about;
* the regex terminals (rrel_id, rrel_dots, the flags prefix, lang.string_value: the pattern texts
  of the compiled regexes of the LIVE parser, located by rule name) are translated to `Model/Rx.v`
  ASTs through Python's own regex parser (regex_tr.coq_of_pattern); the lexer of the model
  matches with exactly these;
* the visitor methods, the constructors and `parse` are pinned: any deviation from the
  transcribed source raises (fail closed: nothing is emitted, the check reports translator-failed);
* the LIVE parser model (`ParserPython(rrel_standalone, reduce_tree=False)` built by importing
  $TEXTX_REPO in tools/impl/c12.py, walked by tools/pegdump.py) is emitted as a
  `Model/PegSyntax.v` table `rrel_peg`; Proofs/RrelSyntaxPegProofs.v compares it structurally
  (vm_compute) with the PEG the token parser was written from (Model/RrelSyntaxPeg.v).
"""
import ast

from .common import parse_file, find_func, need, emit, coq_codes, TranslateError, core
from . import regex_tr

# attribute kinds: S str, B bool, OS optional str, NAT int >= 0, C child node (passed printed),
# CL list of child nodes (passed as the list of printed children)
CLASSES = [
    ("RRELParent", [("type", "S")]),
    ("RRELNavigation", [("name", "S"), ("consume_name", "B"), ("fixed_name", "OS")]),
    ("RRELBrackets", [("seq", "C")]),
    ("RRELDots", [("num", "NAT")]),
    ("RRELSequence", [("paths", "CL")]),
    ("RRELZeroOrMore", [("path_element", "C")]),
    ("RRELPath", [("path_elements", "CL")]),
    ("RRELExpression", [("flags", "S"), ("seq", "C")]),
]
COQ_TY = {"S": "list N", "B": "bool", "OS": "option (list N)", "NAT": "nat", "C": "list N", "CL": "list (list N)"}

# constructors: which argument each attribute is initialised from, and the normalisations the
# parser of the model implements (star_of, caret_elem)
INIT = {
    "RRELParent": "super().__init__()\nself.type = type",
    "RRELNavigation": ("super().__init__()\nself.name = name\nself.consume_name = consume_name\n"
                       "self.fixed_name = fixed_name\nself.rrel_expression = None"),
    "RRELBrackets": "super().__init__()\nassert isinstance(oc, RRELSequence)\nself.seq = oc",
    "RRELDots": "super().__init__()\nself.num = num",
    "RRELSequence": "super().__init__()\nself.paths = paths",
    "RRELZeroOrMore": ("super().__init__()\nif not isinstance(path_element, RRELBrackets):\n"
                       "    path_element = RRELBrackets(RRELSequence([RRELPath([path_element])]))\n"
                       "self.path_element = path_element\nassert isinstance(self.path_element, RRELBrackets)"),
    "RRELPath": ("super().__init__()\nself.path_elements = path_elements\nif self.path_elements[0] == '^':\n"
                 "    self.path_elements[0] = RRELZeroOrMore(RRELBrackets(RRELSequence([RRELPath([RRELDots(2)])])))"),
}
INIT_EXPR_HEAD = "self.seq = seq\nself.flags = flags\nself.importURI = 'm' in flags\nself.use_proxy = 'p' in flags"

VISITOR = {
    "visit_rrel_parent": "return RRELParent(children[0])",
    "visit_rrel_navigation": ("if len(children) == 2:\n    if 'string_value' in children.results:\n"
                              "        return RRELNavigation(children[1], False, children[0])\n    else:\n"
                              "        return RRELNavigation(children[1], False, None)\nelse:\n"
                              "    return RRELNavigation(children[0], True, None)"),
    "visit_rrel_brackets": "assert len(children) == 1\nreturn RRELBrackets(children[0])",
    "visit_rrel_dots": "return RRELDots(len(node.value))",
    "visit_rrel_zero_or_more": "return RRELZeroOrMore(children[0])",
    "visit_rrel_path": "return RRELPath(children)",
    "visit_rrel_sequence": "return RRELSequence(children)",
    "visit_rrel_path_element": "assert len(children) == 1\nreturn children[0]",
    "visit_rrel_expression": ("if len(children) == 1:\n    return RRELExpression(children[0], '')\nelse:\n"
                              "    flags = children[0][1:-1]\n    return RRELExpression(children[1], flags)"),
    "visit_string_value": "return node.value[1:-1]",
}
PARSE = ("from arpeggio import ParserPython\nparser = ParserPython(rrel_standalone, reduce_tree=False)\n"
         "parse_tree = parser.parse(rrel_expression)\nreturn visit_parse_tree(parse_tree, RRELVisitor())")


def _body_src(fn):
    body = list(fn.body)
    if body and isinstance(body[0], ast.Expr) and isinstance(body[0].value, ast.Constant) and isinstance(body[0].value.value, str):
        body = body[1:]          # docstring
    return "\n".join(ast.unparse(s) for s in body)


# ---------------------------------------------------------------- __repr__ compiler
class _Ctx:
    def __init__(self, cls, attrs):
        self.cls = cls
        self.attrs = dict(attrs)          # attr -> kind
        self.narrowed = set()             # OS attributes known to be not None
        self.locals = {}                  # python local -> (coq name, type)

    def copy(self):
        c = _Ctx(self.cls, self.attrs)
        c.narrowed = set(self.narrowed)
        c.locals = dict(self.locals)
        return c


def _self_attr(e):
    if isinstance(e, ast.Attribute) and isinstance(e.value, ast.Name) and e.value.id == "self" and isinstance(e.ctx, ast.Load):
        return e.attr
    return None


def _is_map_str(e, ctx):
    """`map(lambda x: str(x), <child list>)` or `map(str, <child list>)` -> Coq term of the list of printed children."""
    need(isinstance(e, ast.Call) and isinstance(e.func, ast.Name) and e.func.id == "map" and len(e.args) == 2 and not e.keywords,
         "%s: join over something that is not map(...): %s" % (ctx.cls, ast.unparse(e)))
    f, xs = e.args
    ok = isinstance(f, ast.Name) and f.id == "str"
    if isinstance(f, ast.Lambda):
        a = f.args
        ok = (len(a.args) == 1 and not a.vararg and not a.kwarg and not a.kwonlyargs and not a.defaults and
              ast.unparse(f.body) == "str(%s)" % a.args[0].arg)
    need(ok, "%s: mapped function is not str: %s" % (ctx.cls, ast.unparse(f)))
    return _child_list(xs, ctx)


def _child_list(e, ctx):
    a = _self_attr(e)
    if a is not None:
        need(ctx.attrs.get(a) == "CL", "%s: self.%s is not a list of children" % (ctx.cls, a))
        return "a_" + a
    if isinstance(e, ast.Subscript) and isinstance(e.slice, ast.Slice):
        s = e.slice
        need(s.upper is None and s.step is None and isinstance(s.lower, ast.Constant) and s.lower.value == 1,
             "%s: unsupported slice %s" % (ctx.cls, ast.unparse(e)))
        return "(tl %s)" % _child_list(e.value, ctx)
    raise TranslateError("%s: unsupported child list %s" % (ctx.cls, ast.unparse(e)))


def _str_const(e):
    return isinstance(e, ast.Constant) and isinstance(e.value, str)


def cexpr(e, ctx):
    """Python expression of type str -> Coq term of type list N."""
    if _str_const(e):
        return coq_codes(e.value) if e.value else "(@nil N)"
    a = _self_attr(e)
    if a is not None:
        k = ctx.attrs.get(a)
        if k == "S" or (k == "OS" and a in ctx.narrowed):
            return "a_" + a
        raise TranslateError("%s: self.%s used as a str but is %s" % (ctx.cls, a, k))
    if isinstance(e, ast.Name) and isinstance(e.ctx, ast.Load):
        need(e.id in ctx.locals and ctx.locals[e.id][1] == "S", "%s: unknown name %s" % (ctx.cls, e.id))
        return ctx.locals[e.id][0]
    if isinstance(e, ast.BinOp) and isinstance(e.op, ast.Add):
        return "(%s ++ %s)" % (cexpr(e.left, ctx), cexpr(e.right, ctx))
    if isinstance(e, ast.BinOp) and isinstance(e.op, ast.Mult):
        n = _self_attr(e.right)
        need(n is not None and ctx.attrs.get(n) == "NAT", "%s: unsupported repetition %s" % (ctx.cls, ast.unparse(e)))
        return "(srep %s a_%s)" % (cexpr(e.left, ctx), n)
    if isinstance(e, ast.JoinedStr):
        parts = []
        for v in e.values:
            if _str_const(v):
                parts.append(coq_codes(v.value))
            else:
                need(isinstance(v, ast.FormattedValue) and v.conversion in (-1, 115) and v.format_spec is None,
                     "%s: unsupported f-string field %s" % (ctx.cls, ast.unparse(e)))
                parts.append(cstr_of(v.value, ctx))
        return "(" + " ++ ".join(parts) + ")" if parts else "(@nil N)"
    if isinstance(e, ast.Call) and isinstance(e.func, ast.Name) and e.func.id == "str" and len(e.args) == 1 and not e.keywords:
        return cstr_of(e.args[0], ctx)
    if isinstance(e, ast.Call) and isinstance(e.func, ast.Attribute) and e.func.attr == "join" and len(e.args) == 1 and not e.keywords:
        return "(sjoin %s %s)" % (cexpr(e.func.value, ctx), _is_map_str(e.args[0], ctx))
    if isinstance(e, ast.Call) and isinstance(e.func, ast.Attribute) and e.func.attr == "replace" and len(e.args) == 2 and not e.keywords:
        need(_str_const(e.args[0]) and e.args[0].value != "", "%s: replace of a non-constant / empty pattern" % ctx.cls)
        return "(sreplace %s %s %s)" % (cexpr(e.args[0], ctx), cexpr(e.args[1], ctx), cexpr(e.func.value, ctx))
    if isinstance(e, ast.IfExp):
        return "(if %s then %s else %s)" % (ccond(e.test, ctx), cexpr(e.body, ctx), cexpr(e.orelse, ctx))
    raise TranslateError("%s.__repr__: unsupported expression %s" % (ctx.cls, ast.unparse(e)))


def cstr_of(e, ctx):
    """str(e) / {e} in an f-string."""
    a = _self_attr(e)
    if a is not None and ctx.attrs.get(a) == "C":
        return "a_" + a                       # the printed child
    if isinstance(e, ast.Subscript) and isinstance(e.slice, ast.Constant) and e.slice.value == 0:
        return "(shd %s)" % _child_list(e.value, ctx)
    return cexpr(e, ctx)                      # str(s) of a str is s


def ccond(e, ctx):
    """Python condition -> Coq bool."""
    a = _self_attr(e)
    if a is not None:
        k = ctx.attrs.get(a)
        if k == "B":
            return "a_" + a
        if k == "S":
            return "(struth a_%s)" % a
        raise TranslateError("%s: truth value of self.%s (%s)" % (ctx.cls, a, k))
    if isinstance(e, ast.UnaryOp) and isinstance(e.op, ast.Not):
        return "(negb %s)" % ccond(e.operand, ctx)
    if isinstance(e, ast.Compare) and len(e.ops) == 1 and isinstance(e.ops[0], (ast.In, ast.NotIn)):
        t = "(sin %s %s)" % (cexpr(e.left, ctx), cexpr(e.comparators[0], ctx))
        return t if isinstance(e.ops[0], ast.In) else "(negb %s)" % t
    if (isinstance(e, ast.Call) and isinstance(e.func, ast.Name) and e.func.id == "isinstance" and len(e.args) == 2
            and ctx.cls == "RRELPath" and ast.unparse(e) == "isinstance(self.path_elements[0], RRELDots)"):
        return "head_is_dots"
    raise TranslateError("%s.__repr__: unsupported condition %s" % (ctx.cls, ast.unparse(e)))


def _none_test(e, ctx):
    """`self.x is not None` / `self.x is None` on an optional attribute -> (attr, positive)."""
    if isinstance(e, ast.Compare) and len(e.ops) == 1 and isinstance(e.ops[0], (ast.IsNot, ast.Is)):
        a = _self_attr(e.left)
        c = e.comparators[0]
        if a is not None and ctx.attrs.get(a) == "OS" and isinstance(c, ast.Constant) and c.value is None:
            return a, isinstance(e.ops[0], ast.IsNot)
    return None


def cblock(stmts, ctx):
    need(stmts, "%s.__repr__: a path falls off the end (returns None)" % ctx.cls)
    s, rest = stmts[0], stmts[1:]
    if isinstance(s, ast.Return):
        need(s.value is not None, "%s.__repr__: bare return" % ctx.cls)
        return cexpr(s.value, ctx)
    if isinstance(s, ast.Assert):
        # an assert cannot change the returned text; its condition must still be a pure, known test
        need(s.msg is None, "%s.__repr__: assert with message" % ctx.cls)
        ccond(s.test, ctx)
        return cblock(rest, ctx)
    if isinstance(s, ast.Assign):
        need(len(s.targets) == 1 and isinstance(s.targets[0], ast.Name), "%s.__repr__: unsupported assignment %s" % (ctx.cls, ast.unparse(s)))
        v = cexpr(s.value, ctx)
        c2 = ctx.copy()
        nm = "v_" + s.targets[0].id
        c2.locals[s.targets[0].id] = (nm, "S")
        return "(let %s := %s in %s)" % (nm, v, cblock(rest, c2))
    if isinstance(s, ast.If):
        nt = _none_test(s.test, ctx)
        if nt is not None:
            a, pos = nt
            cs = ctx.copy()
            cs.narrowed.add(a)
            some_b, none_b = (s.body, s.orelse) if pos else (s.orelse, s.body)
            return "(match a_%s with Some a_%s => %s | None => %s end)" % (
                a, a, cblock(list(some_b) + rest, cs), cblock(list(none_b) + rest, ctx))
        return "(if %s then %s else %s)" % (ccond(s.test, ctx), cblock(list(s.body) + rest, ctx), cblock(list(s.orelse) + rest, ctx))
    raise TranslateError("%s.__repr__: unsupported statement %s" % (ctx.cls, ast.unparse(s).split("\n")[0]))


def compile_repr(tree, cls, attrs):
    fn = find_func(tree, "__repr__", cls)
    a = fn.args
    need([x.arg for x in a.args] == ["self"] and not a.vararg and not a.kwarg and not a.kwonlyargs and not fn.decorator_list,
         "%s.__repr__ signature changed" % cls)
    cdef = [n for n in tree.body if isinstance(n, ast.ClassDef) and n.name == cls]
    need(len(cdef) == 1, "class %s not found exactly once" % cls)
    need(not any(isinstance(n, ast.FunctionDef) and n.name in ("__str__", "__format__") for n in cdef[0].body),
         "%s defines __str__/__format__: str() no longer goes through __repr__" % cls)
    body = list(fn.body)
    if body and isinstance(body[0], ast.Expr) and _str_const(body[0].value):
        body = body[1:]
    ctx = _Ctx(cls, attrs)
    term = cblock(body, ctx)
    params = " ".join("(a_%s : %s)" % (n, COQ_TY[k]) for n, k in attrs)
    if cls == "RRELPath":
        params = "(head_is_dots : bool) " + params
    return "Definition repr_%s %s : list N :=\n  %s." % (cls, params, term)


# ---------------------------------------------------------------- grammar: the live parser
def live_peg():
    """dump of ParserPython(rrel_standalone, reduce_tree=False) and the pattern texts of its regex terminals,
    located by rule name (the structure itself is checked in Coq: Proofs/RrelSyntaxPegProofs.v)."""
    d = core.run_impl("c12", {"mode": "dump"})
    need(not d.get("cache_alias") and d.get("memoization") is False, "unexpected parser options in the live RREL parser")
    nodes = d["nodes"]
    for nd in nodes:
        for k in nd["kids"] + ([nd["sep"]] if nd["sep"] is not None else []):
            need(0 <= k < len(nodes), "dangling node id in the dumped RREL PEG")
    need(all(o[0] == "re" for o in d["oracles"]), "ignore_case terminals in the live RREL parser")

    def rule(name):
        r = [n for n in nodes if n["root"] and n["rule"] == name]
        need(len(r) == 1, "rule %s occurs %d times in the live RREL parser" % (name, len(r)))
        return r[0]

    def pattern(nd, what):
        need(nd["kind"] == "KRegex", "%s is not a regex terminal in the live RREL parser" % what)
        o = d["oracles"][nd["oid"]]
        need(o[2] == 40, "%s is compiled with flags %d (expected re.MULTILINE|re.UNICODE)" % (what, o[2]))
        return o[1]

    rx = {"rrel_id": pattern(rule("rrel_id"), "rrel_id"), "rrel_dots": pattern(rule("rrel_dots"), "rrel_dots")}
    ex = rule("rrel_expression")
    need(ex["kind"] == "KSeq" and len(ex["kids"]) == 2 and nodes[ex["kids"][0]]["kind"] == "KOpt"
         and len(nodes[ex["kids"][0]]["kids"]) == 1, "rrel_expression is not (Optional(flags), sequence)")
    rx["rrel_expression"] = pattern(nodes[nodes[ex["kids"][0]]["kids"][0]], "the flags prefix")
    sv = rule("string_value")
    need(sv["kind"] == "KChoice" and len(sv["kids"]) == 2, "string_value is not a choice of two terminals")
    rx["string_value_0"], rx["string_value_1"] = [pattern(nodes[k], "string_value alternative") for k in sv["kids"]]
    return d, rx


def pinned(tree):
    for cls, want in INIT.items():
        got = _body_src(find_func(tree, "__init__", cls))
        need(got == want, "%s.__init__ changed: %r" % (cls, got))
    got = _body_src(find_func(tree, "__init__", "RRELExpression"))
    need(got.startswith(INIT_EXPR_HEAD + "\n\ndef prepare_tree(node):") or got.startswith(INIT_EXPR_HEAD + "\ndef prepare_tree(node):"),
         "RRELExpression.__init__ changed: %r" % got[:200])
    need(got.rstrip().endswith("prepare_tree(self.seq)"), "RRELExpression.__init__ tail changed")
    for name, want in VISITOR.items():
        got = _body_src(find_func(tree, name, "RRELVisitor"))
        need(got == want, "RRELVisitor.%s changed: %r" % (name, got))
    vis = [n for n in tree.body if isinstance(n, ast.ClassDef) and n.name == "RRELVisitor"]
    need(len(vis) == 1 and [ast.unparse(b) for b in vis[0].bases] == ["PTNodeVisitor"], "RRELVisitor base changed")
    names = sorted(n.name for n in vis[0].body if isinstance(n, ast.FunctionDef))
    need(names == sorted(VISITOR), "RRELVisitor methods changed: %r" % names)
    got = _body_src(find_func(tree, "parse"))
    need(got == PARSE and find_func(tree, "parse") in tree.body, "rrel.parse changed: %r" % got)
    # class hierarchy: the node classes derive from RRELBase, which defines no __repr__/__str__
    for cls, _ in CLASSES[:-1]:
        c = [n for n in tree.body if isinstance(n, ast.ClassDef) and n.name == cls]
        need(len(c) == 1 and [ast.unparse(b) for b in c[0].bases] == ["RRELBase"], "%s bases changed" % cls)
    base = [n for n in tree.body if isinstance(n, ast.ClassDef) and n.name == "RRELBase"]
    need(len(base) == 1 and not base[0].bases and not any(
        isinstance(n, ast.FunctionDef) and n.name in ("__repr__", "__str__", "__format__") for n in base[0].body), "RRELBase changed")


def translate():
    tree, _ = parse_file("textx/scoping/rrel.py")
    pinned(tree)
    d, rx = live_peg()
    regex_tr.arpeggio_default_multiline()
    import arpeggio
    need(arpeggio.Parser.__init__.__defaults__ is not None, "arpeggio.Parser signature changed")
    import inspect
    sig = inspect.signature(arpeggio.Parser.__init__).parameters
    need(sig["skipws"].default is True and sig["ws"].default is None and arpeggio.DEFAULT_WS == "\t\n\r ",
         "Arpeggio whitespace defaults changed")
    need(sig["autokwd"].default is False and sig["ignore_case"].default is False, "Arpeggio autokwd/ignore_case defaults changed")
    lines = ["From TxV Require Import Core.Base Model.Rx Model.RrelSyntaxLib Model.PegSyntax.", "",
             "(* ---- the __repr__ methods (attribute values as arguments; children are passed printed) *)"]
    for cls, attrs in CLASSES:
        lines.append(compile_repr(tree, cls, attrs))
    lines += ["", "(* ---- regex terminals of the grammar (through re._parser) *)"]
    for key, nm in (("rrel_id", "rx_rrel_id"), ("rrel_dots", "rx_rrel_dots"), ("rrel_expression", "rx_rrel_flags"),
                    ("string_value_0", "rx_string_value_0"), ("string_value_1", "rx_string_value_1")):
        lines.append("(* %s *)" % rx[key].replace("*)", "* )").replace("(*", "( *"))
        lines.append("Definition %s : rx := %s." % (nm, regex_tr.coq_of_pattern(rx[key])))
    lines += ["", "(* ---- string terminals of the grammar functions *)",
              "Definition g_parent_kw : list N := %s." % coq_codes("parent"),
              "Definition g_lparen : list N := %s." % coq_codes("("),
              "Definition g_rparen : list N := %s." % coq_codes(")"),
              "Definition g_tilde : list N := %s." % coq_codes("~"),
              "Definition g_star : list N := %s." % coq_codes("*"),
              "Definition g_caret : list N := %s." % coq_codes("^"),
              "Definition g_dot : list N := %s." % coq_codes("."),
              "Definition g_comma : list N := %s." % coq_codes(","),
              "Definition g_ws : list N := %s." % coq_codes(arpeggio.DEFAULT_WS),
              "", "(* Arpeggio compiles RegExMatch with re.MULTILINE and matches with regex.match(input, pos) *)",
              "Definition rrel_env (u : N -> N) : rxenv := mkenv true false false u."]
    import pegdump
    lines += ["", "(* ---- source texts of the regex terminals *)"]
    for key, nm in (("rrel_id", "pat_rrel_id"), ("rrel_dots", "pat_rrel_dots"), ("rrel_expression", "pat_rrel_flags"),
                    ("string_value_0", "pat_string_value_0"), ("string_value_1", "pat_string_value_1")):
        lines.append("Definition %s : list N := %s." % (nm, coq_codes(rx[key])))
    lines += ["", "(* ---- the live parser model of ParserPython(rrel_standalone, reduce_tree=False) (tools/pegdump.py) *)",
              "Definition rrel_peg : grammar := %s." % pegdump.coq_grammar(d),
              "Definition rrel_peg_config : config := %s." % pegdump.coq_config(d),
              "(* oracle id -> (pattern text of the compiled regex, its re flags) *)",
              "Definition rrel_peg_oracles : list (list N * nat) := [%s]." % "; ".join(
                  "(%s, %d)" % (pegdump.coq_str(o[1]), o[2]) for o in d["oracles"])]
    emit("SrcRrelSyntax", "\n".join(lines) + "\n")
    return []
