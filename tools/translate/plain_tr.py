"""textx/scoping/providers.py PlainName + textx/model.py (resolve_one_step fallback, textx_isinstance)
+ textx/const.py  ->  Gen/SrcPlain.v  (C07).  Fail closed: any shape this does not understand raises."""
import ast
from .common import parse_file, find_func, need, emit, coq_codes, TranslateError

CMP = {ast.Eq: "CmpEq", ast.NotEq: "CmpNe", ast.Lt: "CmpLt", ast.LtE: "CmpLe", ast.Gt: "CmpGt", ast.GtE: "CmpGe"}


def _strip_doc(body):
    if body and isinstance(body[0], ast.Expr) and isinstance(body[0].value, ast.Constant) and isinstance(body[0].value.value, str):
        return body[1:]
    return body


def _msg_parts(e, name_exprs, cls_exprs):
    """f-string / constant -> [(kind, text)]"""
    if isinstance(e, ast.Constant) and isinstance(e.value, str):
        return [("MLit", e.value)]
    need(isinstance(e, ast.JoinedStr), "error message is not an f-string: " + ast.unparse(e))
    out = []
    for v in e.values:
        if isinstance(v, ast.Constant) and isinstance(v.value, str):
            out.append(("MLit", v.value))
        elif isinstance(v, ast.FormattedValue) and v.conversion == -1 and v.format_spec is None:
            t = ast.unparse(v.value)
            if t in name_exprs:
                out.append(("MName", None))
            elif t in cls_exprs:
                out.append(("MCls", None))
            else:
                raise TranslateError("unknown hole in error message: " + t)
        else:
            raise TranslateError("unsupported f-string part in error message")
    # merge adjacent literals
    merged = []
    for k, v in out:
        if k == "MLit" and merged and merged[-1][0] == "MLit":
            merged[-1] = ("MLit", merged[-1][1] + v)
        else:
            merged.append((k, v))
    return merged


def _raise_semantic(stmts, pos_src):
    """[line, col = pos_to_linecol(<pos_src>); raise TextXSemanticError(...)] -> the Call node"""
    need(len(stmts) == 2, "error branch is not `line, col = ...; raise ...`")
    a, r = stmts
    need(isinstance(a, ast.Assign) and ast.unparse(a.targets[0]) in ("line, col", "(line, col)")
         and ast.unparse(a.value).endswith("pos_to_linecol(%s)" % pos_src), "error position is not taken from " + pos_src)
    need(isinstance(r, ast.Raise) and isinstance(r.exc, ast.Call) and ast.unparse(r.exc.func) == "TextXSemanticError" and r.cause is None,
         "error branch does not raise TextXSemanticError")
    kw = {k.arg: k.value for k in r.exc.keywords}
    need(ast.unparse(kw.get("line", ast.Constant(None))) == "line" and ast.unparse(kw.get("col", ast.Constant(None))) == "col",
         "line/col of the error are not the reference position")
    return r.exc, kw


def _plain(tree):
    init = find_func(tree, "__init__", cls="PlainName")
    need([a.arg for a in init.args.args] == ["self", "multi_metamodel_support"] and len(init.args.defaults) == 1
         and isinstance(init.args.defaults[0], ast.Constant) and init.args.defaults[0].value is True,
         "PlainName.__init__ default multi_metamodel_support is not True")
    need(any(ast.unparse(s) == "self.multi_metamodel_support = multi_metamodel_support" for s in init.body),
         "PlainName.__init__ does not store multi_metamodel_support")
    call = find_func(tree, "__call__", cls="PlainName")
    need([a.arg for a in call.args.args] == ["self", "obj", "attr", "obj_ref"], "PlainName.__call__ signature changed")
    top = [s for s in call.body if isinstance(s, ast.If) and ast.unparse(s.test) == "self.multi_metamodel_support"]
    need(len(top) == 1, "`if self.multi_metamodel_support:` not found")
    need(call.body[-1] is not top[0] and ast.unparse(call.body[-1]) == "return result" and call.body[-2] is top[0],
         "PlainName.__call__ does not end in `if self.multi_metamodel_support: ... ; return result`")
    # nothing before may return something else than for obj_ref None / assert / debug print / imports / inner def
    for s in call.body[:-2]:
        ok = (isinstance(s, (ast.ImportFrom, ast.FunctionDef, ast.Assert))
              or (isinstance(s, ast.Expr) and isinstance(s.value, ast.Constant))
              or (isinstance(s, ast.If) and ast.unparse(s.test) == "obj_ref is None" and ast.unparse(s.body[0]) == "return None" and not s.orelse)
              or (isinstance(s, ast.If) and ast.unparse(s.test) == "get_parser(obj).debug" and not s.orelse))
        need(ok, "unexpected statement in PlainName.__call__: " + ast.unparse(s)[:80])
    body = [s for s in top[0].body if not isinstance(s, ast.ImportFrom)]
    need(len(body) == 2, "multi_metamodel_support branch is not `result_lst = get_children(...)` + if-chain")
    asg, chain = body
    need(isinstance(asg, ast.Assign) and ast.unparse(asg.targets[0]) == "result_lst" and isinstance(asg.value, ast.Call)
         and ast.unparse(asg.value.func) == "get_children" and len(asg.value.args) == 2 and not asg.value.keywords,
         "result_lst is not get_children(selector, root)")
    sel, root = asg.value.args
    need(ast.unparse(root) == "get_model(obj)", "search root is not get_model(obj)")
    need(isinstance(sel, ast.Lambda) and [a.arg for a in sel.args.args] == ["x"] and isinstance(sel.body, ast.BoolOp)
         and isinstance(sel.body.op, ast.And), "selector is not a lambda x: a and b and c")
    conj = []
    for v in sel.body.values:
        t = ast.unparse(v)
        if t == "hasattr(x, 'name')":
            conj.append("SHasName")
        elif t == "x.name == obj_ref.obj_name":
            conj.append("SNameEq")
        elif t == "textx_isinstance(x, obj_ref.cls)":
            conj.append("SIsInstance")
        else:
            raise TranslateError("unknown selector conjunct: " + t)
    need("SHasName" in conj and conj.index("SHasName") == 0, "selector does not test hasattr(x, 'name') first")
    # the if-chain over len(result_lst)
    dispatch, default, nu_msg = [], None, None
    node = chain
    while True:
        need(isinstance(node, ast.If), "dispatch on len(result_lst) is not an if-chain")
        t = node.test
        need(isinstance(t, ast.Compare) and len(t.ops) == 1 and type(t.ops[0]) in CMP and ast.unparse(t.left) == "len(result_lst)"
             and isinstance(t.comparators[0], ast.Constant) and isinstance(t.comparators[0].value, int)
             and not isinstance(t.comparators[0].value, bool) and t.comparators[0].value >= 0,
             "dispatch test is not `len(result_lst) <op> <int>`: " + ast.unparse(t))
        act, msg = _action(node.body)
        if msg is not None:
            nu_msg = msg
        dispatch.append((CMP[type(t.ops[0])], t.comparators[0].value, act))
        if len(node.orelse) == 1 and isinstance(node.orelse[0], ast.If):
            node = node.orelse[0]
            continue
        need(node.orelse, "dispatch chain has no else branch (result would be unbound)")
        default, msg = _action(node.orelse)
        if msg is not None:
            nu_msg = msg
        break
    return conj, dispatch, default, nu_msg


def _action(stmts):
    if len(stmts) == 1 and isinstance(stmts[0], ast.Assign) and ast.unparse(stmts[0].targets[0]) == "result":
        v = stmts[0].value
        if isinstance(v, ast.Constant) and v.value is None:
            return "ActNone", None
        if (isinstance(v, ast.Subscript) and ast.unparse(v.value) == "result_lst" and isinstance(v.slice, ast.Constant)
                and isinstance(v.slice.value, int) and v.slice.value >= 0):
            return "(ActPick %d)" % v.slice.value, None
        raise TranslateError("unsupported result in dispatch branch: " + ast.unparse(v))
    exc, kw = _raise_semantic(stmts, "obj_ref.position")
    need(len(exc.args) == 1 and "message" not in kw, "not-unique error message is not the first positional argument")
    need("err_type" not in kw, "not-unique error now carries an err_type")
    return "ActNotUnique", _msg_parts(exc.args[0], ("obj_ref.obj_name",), ())


ISINSTANCE_BODY = [
    "visited = set()",
    """def _isinstance(obj_cls):
    if obj_cls.__name__ == 'OBJECT':
        return True
    if isinstance(obj, obj_cls):
        return True
    if hasattr(obj_cls, '_tx_fqn') and hasattr(obj, '_tx_fqn') and (obj_cls._tx_fqn == obj._tx_fqn):
        return True
    if hasattr(obj_cls, '_tx_inh_by'):
        visited.add(id(obj_cls))
        for cls in obj_cls._tx_inh_by:
            if id(cls) not in visited and _isinstance(cls):
                return True
    return False""",
    "return _isinstance(obj_cls)",
]


def _model(tree):
    # default provider = PlainName()
    imps = [n for n in tree.body if isinstance(n, ast.ImportFrom) and n.module == "textx.scoping.providers"]
    need(any(a.name == "PlainName" and a.asname == "DefaultScopeProvider" for n in imps for a in n.names),
         "model.py no longer imports PlainName as DefaultScopeProvider")
    fn = find_func(tree, "resolve_one_step")
    ds = [n for n in ast.walk(fn) if isinstance(n, ast.Assign) and ast.unparse(n.targets[0]) == "default_scope"]
    need(len(ds) == 1 and ast.unparse(ds[0].value) == "DefaultScopeProvider()", "default_scope is not DefaultScopeProvider()")
    loops = [n for n in ast.walk(fn) if isinstance(n, ast.For) and ast.unparse(n.iter) == "current_crossrefs"]
    need(len(loops) == 1, "expected one loop over current_crossrefs")
    need(ast.unparse(loops[0].target) in ("(obj, attr, crossref)", "obj, attr, crossref"), "loop variables changed")
    outer = loops[0].body
    need(len(outer) == 1 and isinstance(outer[0], ast.If) and ast.unparse(outer[0].test) == "get_model(obj) == self.model",
         "loop body is not `if get_model(obj) == self.model:`")
    stmts = outer[0].body
    texts = [ast.unparse(s.test) if isinstance(s, ast.If) else None for s in stmts]
    fb_test = "resolved is None and metamodel.builtins and (crossref.obj_name in metamodel.builtins)"
    need(texts.count(fb_test) == 1, "builtins fallback guard changed")
    need(texts.count("resolved is None") == 1, "`if resolved is None:` (Unknown object) not found exactly once")
    i_sel = next((i for i, s in enumerate(stmts) if isinstance(s, ast.If) and ast.unparse(s.test) == "crossref.scope_provider is not None"), None)
    i_fb, i_unk = texts.index(fb_test), texts.index("resolved is None")
    i_post = next((i for i, s in enumerate(stmts) if isinstance(s, ast.If) and ast.unparse(s.test) == "type(resolved) is Postponed"), None)
    need(i_sel is not None and i_post is not None and i_sel < i_fb < i_unk < i_post, "order provider < builtins fallback < unknown-object < assignment changed")
    # between provider selection and the unknown test only the tools-support If and the fallback may occur
    for s in stmts[i_sel + 1:i_unk]:
        need(isinstance(s, ast.If) and not s.orelse, "unexpected statement between provider call and Unknown-object test")
        need(not any(isinstance(n, (ast.Assign, ast.AugAssign)) and "resolved" in [ast.unparse(t) for t in getattr(n, "targets", [getattr(n, "target", None)]) if t is not None]
                     for n in ast.walk(s)) or s is stmts[i_fb], "`resolved` reassigned outside the builtins fallback")
    fb = stmts[i_fb]
    fbb = [s for s in fb.body if not isinstance(s, ast.ImportFrom)]
    need(len(fbb) == 1 and isinstance(fbb[0], ast.If) and not fbb[0].orelse
         and ast.unparse(fbb[0].test) == "textx_isinstance(metamodel.builtins[crossref.obj_name], crossref.cls)"
         and len(fbb[0].body) == 1 and ast.unparse(fbb[0].body[0]) == "resolved = metamodel.builtins[crossref.obj_name]",
         "builtins fallback body changed")
    unk = stmts[i_unk]
    need(not unk.orelse, "unexpected else on `if resolved is None`")
    exc, kw = _raise_semantic(unk.body, "crossref.position")
    need(not exc.args and "message" in kw, "Unknown-object message is not passed as message=")
    msg = _msg_parts(kw["message"], ("crossref.obj_name",), ("crossref.cls.__name__",))
    need("err_type" in kw and isinstance(kw["err_type"], ast.Name), "Unknown-object error has no symbolic err_type")
    need(ast.unparse(kw.get("expected_obj_cls", ast.Constant(None))) == "crossref.cls", "expected_obj_cls is not crossref.cls")
    # assignment of the result
    post = stmts[i_post]
    need(post.orelse and "setattr(obj, attr.name, resolved)" in ast.unparse(post) and "attr_value.insert(idx, resolved)" in ast.unparse(post),
         "resolved value is no longer stored in the attribute")
    # textx_isinstance
    ti = find_func(tree, "textx_isinstance")
    need([a.arg for a in ti.args.args] == ["obj", "obj_cls"], "textx_isinstance signature changed")
    got = [ast.unparse(s) for s in _strip_doc(ti.body)]
    need(got == ISINSTANCE_BODY, "textx_isinstance body is not the visit-each-class-once search the model transcribes")
    return msg, kw["err_type"].id


def translate():
    ptree, _ = parse_file("textx/scoping/providers.py")
    conj, dispatch, default, nu_msg = _plain(ptree)
    need(nu_msg is not None, "no not-unique error branch found")
    mtree, _ = parse_file("textx/model.py")
    unk_msg, err_const = _model(mtree)
    ctree, _ = parse_file("textx/const.py")
    vals = [n.value for n in ctree.body if isinstance(n, ast.Assign) and len(n.targets) == 1 and ast.unparse(n.targets[0]) == err_const]
    need(len(vals) == 1 and isinstance(vals[0], ast.Constant) and isinstance(vals[0].value, str), "textx/const.py: %s is not a string constant" % err_const)
    imported = [a.name for n in mtree.body if isinstance(n, ast.ImportFrom) and n.module == "textx.const" for a in n.names]
    need(err_const in imported, "model.py does not take %s from textx.const" % err_const)

    def parts(ps):
        return "[" + "; ".join("MLit %s" % coq_codes(v) if k == "MLit" else k for k, v in ps) + "]"
    lines = ["From TxV Require Import Core.Base Model.PlainDefs.",
             "Definition default_is_plainname_mm : bool := true.",
             "Definition selector_conj : list selconj := [" + "; ".join(conj) + "].",
             "Definition plain_dispatch : list (cmp * nat * act) :=",
             "  [" + ";\n   ".join("(%s, %d%%nat, %s)" % d for d in dispatch) + "].",
             "Definition plain_default : act := %s." % default,
             "Definition notunique_msg : list mpart := %s." % parts(nu_msg),
             "Definition unknown_msg : list mpart := %s." % parts(unk_msg),
             "Definition unknown_err_type : list N := %s." % coq_codes(vals[0].value),
             "Definition isinstance_visits_once : bool := true."]
    emit("SrcPlain", "\n".join(lines) + "\n")
    return []
