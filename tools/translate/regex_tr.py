"""Regex literals of textx/lang.py -> Gen/SrcRegex.v (ASTs of coq/Model/Rx.v).

The pattern text is read from the source with `ast`; its structure comes from Python's own
regex parser (re._parser, the former sre_parse), so the Coq AST is the tree the `re` module
itself compiles.  Fail closed: any construct outside the supported subset raises
TranslateError (nothing is emitted and the check reports translator-failed).

Library use (other properties):  coq_of_pattern(pattern) -> Coq term of type Rx.rx.
"""
import ast
import re

try:
    import re._parser as sre_parse
    import re._constants as sre_c
except ImportError:  # pragma: no cover  (Python < 3.11)
    import sre_parse
    import sre_constants as sre_c

from .common import parse_file, need, emit, TranslateError

# the base types are required (theorems depend on them); the grammar-language terminals
# (functions of lang.py returning a RegExMatch) are translated on a best-effort basis
BASE_TYPES = ["ID", "BOOL", "INT", "FLOAT", "STRICTFLOAT", "STRING"]

_CATS = {
    sre_c.CATEGORY_DIGIT: ("false", "CDigit"), sre_c.CATEGORY_NOT_DIGIT: ("true", "CDigit"),
    sre_c.CATEGORY_WORD: ("false", "CWord"), sre_c.CATEGORY_NOT_WORD: ("true", "CWord"),
    sre_c.CATEGORY_SPACE: ("false", "CSpace"), sre_c.CATEGORY_NOT_SPACE: ("true", "CSpace"),
}


def _n(c):
    return "%d%%N" % c


def _seq(items):
    if not items:
        return "REps"
    out = items[-1]
    for it in reversed(items[:-1]):
        out = "(RSeq %s %s)" % (it, out)
    return out


def _alt(items):
    out = items[-1]
    for it in reversed(items[:-1]):
        out = "(RAlt %s %s)" % (it, out)
    return out


def _set_items(av):
    neg = False
    items = []
    for i, (op, a) in enumerate(av):
        if op is sre_c.NEGATE:
            need(i == 0, "NEGATE not first in set")
            neg = True
        elif op is sre_c.LITERAL:
            items.append("IChar %s" % _n(a))
        elif op is sre_c.RANGE:
            items.append("IRange %s %s" % (_n(a[0]), _n(a[1])))
        elif op is sre_c.CATEGORY:
            need(a in _CATS, "unsupported category %s" % a)
            items.append("ICat %s %s" % _CATS[a])
        else:
            raise TranslateError("unsupported set item %s" % (op,))
    return neg, items


def _nullable(sub):
    lo, _hi = sub.getwidth()
    return lo == 0


def _tr(sub):
    """SubPattern -> list of Coq terms (a sequence)."""
    out = []
    for op, av in sub:
        if op is sre_c.LITERAL:
            out.append("(RChr %s)" % _n(av))
        elif op is sre_c.NOT_LITERAL:
            out.append("(RSet true [IChar %s])" % _n(av))
        elif op is sre_c.ANY:
            out.append("RAny")
        elif op is sre_c.IN:
            neg, items = _set_items(av)
            out.append("(RSet %s [%s])" % ("true" if neg else "false", "; ".join(items)))
        elif op is sre_c.BRANCH:
            need(av[0] is None, "BRANCH with state")
            out.append(_alt([_seq(_tr(a)) for a in av[1]]))
        elif op is sre_c.SUBPATTERN:
            group, add_flags, del_flags, p = av
            need(not add_flags and not del_flags, "inline flags are not supported")
            body = _seq(_tr(p))
            out.append(body if group is None else "(RGroup %d %s)" % (group, body))
        elif op in (sre_c.MAX_REPEAT, sre_c.MIN_REPEAT):
            lo, hi, p = av
            unbounded = hi is sre_c.MAXREPEAT or hi == sre_c.MAXREPEAT
            need(not (unbounded and _nullable(p)), "unbounded repetition of a nullable body")
            need(lo <= 1000 and (unbounded or hi <= 1000), "repetition count too large")
            out.append("(RRep %s %d %s %s)" % ("true" if op is sre_c.MAX_REPEAT else "false", lo,
                                                "None" if unbounded else "(Some %d)" % hi, _seq(_tr(p))))
        elif op in (sre_c.ASSERT, sre_c.ASSERT_NOT):
            direction, p = av
            neg = "true" if op is sre_c.ASSERT_NOT else "false"
            if direction == 1:
                out.append("(RLookAhead %s %s)" % (neg, _seq(_tr(p))))
            else:
                lo, hi = p.getwidth()
                need(lo == hi, "look-behind of variable width")
                out.append("(RLookBehind %s %d %s)" % (neg, lo, _seq(_tr(p))))
        elif op is sre_c.AT:
            if av is sre_c.AT_BEGINNING:
                out.append("RBol")
            elif av is sre_c.AT_END:
                out.append("REol")
            elif av is sre_c.AT_BOUNDARY:
                out.append("(RWordB false)")
            elif av is sre_c.AT_NON_BOUNDARY:
                out.append("(RWordB true)")
            else:
                raise TranslateError("unsupported anchor %s" % (av,))
        else:
            raise TranslateError("unsupported regex construct %s" % (op,))
    return out


def coq_of_pattern(pattern, flags=0):
    """Coq term (type Rx.rx) for a Python regex; raises TranslateError outside the subset."""
    try:
        parsed = sre_parse.parse(pattern, flags)
    except re.error as ex:
        raise TranslateError("not a regex: %r: %s" % (pattern, ex))
    need(not (parsed.state.flags & ~(re.UNICODE | flags)), "inline global flags are not supported")
    return _seq(_tr(parsed))


def _regex_call_pattern(call):
    """`_(r"...", ...)` -> pattern text, else None."""
    if isinstance(call, ast.Call) and isinstance(call.func, ast.Name) and call.func.id == "_" and call.args:
        a = call.args[0]
        if isinstance(a, ast.Constant) and isinstance(a.value, str):
            return a.value
    return None


def source_patterns():
    """(base-type patterns by name, language-terminal patterns by function name, NUMBER order, BASETYPE order)."""
    tree, _ = parse_file("textx/lang.py")
    imp = [n for n in tree.body if isinstance(n, ast.ImportFrom) and n.module == "arpeggio"
           and any(a.name == "RegExMatch" and a.asname == "_" for a in n.names)]
    need(len(imp) == 1, "`from arpeggio import RegExMatch as _` not found in lang.py")
    base, choices, lang = {}, {}, {}
    for node in tree.body:
        if isinstance(node, ast.Assign) and len(node.targets) == 1 and isinstance(node.targets[0], ast.Name):
            name = node.targets[0].id
            pat = _regex_call_pattern(node.value)
            if pat is not None and name in BASE_TYPES:
                need(name not in base, "base type %s defined twice" % name)
                v = node.value
                rn = [k.value.value for k in v.keywords if k.arg == "rule_name" and isinstance(k.value, ast.Constant)]
                if len(v.args) > 1 and isinstance(v.args[1], ast.Constant):
                    rn.append(v.args[1].value)
                need(rn == [name], "rule_name of %s is %r" % (name, rn))
                extra = [k.arg for k in v.keywords if k.arg not in ("rule_name", "root")]
                need(not extra, "%s has extra RegExMatch arguments %r (flags?)" % (name, extra))
                base[name] = pat
            elif name in ("NUMBER", "BASETYPE"):
                v = node.value
                need(isinstance(v, ast.Call) and ast.unparse(v.func) == "OrderedChoice", "%s is not an OrderedChoice" % name)
                nodes = [k.value for k in v.keywords if k.arg == "nodes"]
                need(len(nodes) == 1 and isinstance(nodes[0], ast.List) and all(isinstance(e, ast.Name) for e in nodes[0].elts),
                     "%s nodes changed" % name)
                choices[name] = [e.id for e in nodes[0].elts]
        elif isinstance(node, ast.FunctionDef) and len(node.body) >= 1 and isinstance(node.body[-1], ast.Return):
            rv = node.body[-1].value
            pat = _regex_call_pattern(rv)
            if pat is not None:
                lang[node.name] = [pat]
            elif isinstance(rv, ast.List) and rv.elts and all(_regex_call_pattern(e) is not None for e in rv.elts):
                lang[node.name] = [_regex_call_pattern(e) for e in rv.elts]
    need(sorted(base) == sorted(BASE_TYPES), "base type regexes found: %r" % sorted(base))
    need("NUMBER" in choices and "BASETYPE" in choices, "NUMBER/BASETYPE choices not found")
    # the base types are compiled right there with the default flags
    src = ast.unparse(tree)
    need("for regex in [ID, BOOL, INT, FLOAT, STRICTFLOAT, STRING]:\n    regex.compile()" in src,
         "base types are no longer compiled with default flags at import")
    return base, lang, choices


def arpeggio_default_multiline():
    import inspect
    import arpeggio
    d = inspect.signature(arpeggio.RegExMatch.__init__).parameters["re_flags"].default
    need(d in (re.MULTILINE, int(re.MULTILINE)), "Arpeggio RegExMatch default flags are %r" % (d,))
    src = inspect.getsource(arpeggio.RegExMatch._parse)
    need("self.regex.match(parser.input, c_pos)" in src, "RegExMatch._parse no longer uses regex.match(input, pos)")
    return True


def translate():
    base, lang, choices = source_patterns()
    arpeggio_default_multiline()
    lines = ["From TxV Require Import Core.Base Model.Rx.", ""]
    for name in BASE_TYPES:
        lines.append("(* %s = %s *)" % (name, base[name].replace("*)", "* )").replace("(*", "( *")))
        lines.append("Definition rx_%s : rx := %s." % (name, coq_of_pattern(base[name])))
        lines.append("Definition pat_%s : list N := [%s]%%N." % (name, ";".join(str(ord(c)) for c in base[name])))
    bt = {"ID": 0, "BOOL": 1, "INT": 2, "FLOAT": 3, "STRICTFLOAT": 4, "STRING": 5, "NUMBER": 6, "BASETYPE": 7}
    for ch in ("NUMBER", "BASETYPE"):
        need(all(x in bt for x in choices[ch]), "%s refers to unknown rules %r" % (ch, choices[ch]))
    lines.append("")
    lines.append("(* ordered choices, as rule names; codes: %s *)" % ", ".join("%s=%d" % kv for kv in sorted(bt.items(), key=lambda kv: kv[1])))
    lines.append("Definition choice_NUMBER : list nat := [%s]%%nat." % "; ".join(str(bt[x]) for x in choices["NUMBER"]))
    lines.append("Definition choice_BASETYPE : list nat := [%s]%%nat." % "; ".join(str(bt[x]) for x in choices["BASETYPE"]))
    lines.append("")
    lines.append("(* Arpeggio compiles RegExMatch with re.MULTILINE and matches with regex.match(input, pos) *)")
    lines.append("Definition src_env (u : N -> N) : rxenv := mkenv true false false u.")
    lines.append("")
    skipped = []
    for fn in sorted(lang):
        for k, pat in enumerate(lang[fn]):
            nm = "rx_lang_%s%s" % (fn, "" if len(lang[fn]) == 1 else "_%d" % k)
            try:
                term = coq_of_pattern(pat)
            except TranslateError as ex:
                skipped.append("%s (%s)" % (nm, ex))
                continue
            lines.append("Definition %s : rx := %s." % (nm, term))
    if skipped:
        lines.append("(* not translated (outside the subset): %s *)" % "; ".join(skipped).replace("*)", "* )"))
    emit("SrcRegex", "\n".join(lines) + "\n")
    return []
