"""textx/lang.py _determine_rule_types (+ nested _determine_rule_type, _has_nonmatch_ref,
_add_reffered_classes), textx/model.py textx_isinstance and the abstract / match branch of
process_node  ->  Gen/SrcKinds.v

Fail closed: each function is reduced to a skeleton (docstrings dropped, the few fact-bearing
statements cut out) whose text must equal the text transcribed in Model/Kinds.v; the cut-out
statements are classified into the facts below (an unrecognised form raises).

facts (bool):
  common_sets_change    the branch that turns a rule common sets the loop's has_change flag
  abstract_sets_change  the branch that turns a rule abstract sets it
                        (both need the flag to be the cell the `while` reads: `has_change[0]` of a
                        list of the enclosing function, or a `nonlocal` name)
  pass_resets_resolved  resolved_classes is emptied at the start of every pass
  abstract_pick_by_kind the abstract result is the first node whose rule KIND is not match
  isinstance_visited    textx_isinstance skips classes it has already visited
"""
import ast
import copy

from .common import parse_file, find_func, need, emit, TranslateError

DET_SKELETON = '''def _determine_rule_types(self, metamodel):

    def _determine_rule_type(cls):
        if cls in resolved_classes:
            return
        resolved_classes.add(cls)
        if len(cls._tx_attrs) > 0:
            if cls._tx_type != RULE_COMMON:
                cls._tx_type = RULE_COMMON
            return
        rule = cls._tx_peg_rule
        abstract = False
        if rule.rule_name and cls.__name__ != rule.rule_name:
            target_cls = rule._tx_class
            _determine_rule_type(target_cls)
            abstract = target_cls._tx_type != RULE_MATCH
        else:

            def _has_nonmatch_ref(rule):
                for r in rule.nodes:
                    if r.root:
                        _determine_rule_type(r._tx_class)
                        result = r._tx_class._tx_type != RULE_MATCH
                    else:
                        result = _has_nonmatch_ref(r)
                    if result:
                        return True
            abstract = _has_nonmatch_ref(rule)
        if abstract and cls._tx_type != RULE_ABSTRACT:
            cls._tx_type = RULE_ABSTRACT
            if rule.rule_name and cls.__name__ != rule.rule_name:
                if rule._tx_class not in cls._tx_inh_by:
                    cls._tx_inh_by.append(rule._tx_class)
            else:

                def _add_reffered_classes(rule, inh_by, start=False):
                    if rule.root and (not start):
                        _determine_rule_type(rule._tx_class)
                        if rule._tx_class._tx_type != RULE_MATCH and rule._tx_class not in inh_by:
                            inh_by.append(rule._tx_class)
                            return True
                    else:
                        is_ordered_choice = isinstance(rule, OrderedChoice)
                        inh_added = False
                        for r in rule.nodes:
                            inh_added |= _add_reffered_classes(r, inh_by)
                            if inh_added and (not is_ordered_choice):
                                break
                        return inh_added
                    return False
                _add_reffered_classes(rule, cls._tx_inh_by, start=True)
    FLAG = True
    while FLAG:
        FLAG = False
        for cls in metamodel:
            _determine_rule_type(cls)'''

# the single-reference special case used to look the class up by name; same class
ALIAS_VARIANTS = {"target_cls = metamodel[rule.rule_name]": "target_cls = rule._tx_class"}

ISINSTANCE_SKELETON = '''def textx_isinstance(obj: Any, obj_cls: type[Any]) -> bool:
    visited = set()

    def _isinstance(obj_cls):
        if obj_cls.__name__ == 'OBJECT':
            return True
        if isinstance(obj, obj_cls):
            return True
        if hasattr(obj_cls, '_tx_fqn') and hasattr(obj, '_tx_fqn') and (obj_cls._tx_fqn == obj._tx_fqn):
            return True
        if hasattr(obj_cls, '_tx_inh_by'):
            visited.add(id(obj_cls))
            for cls in obj_cls._tx_inh_by:
                if RECURSE:
                    return True
        return False
    return _isinstance(obj_cls)'''

ABSTRACT_SKELETON = '''if mclass._tx_type == RULE_ABSTRACT:
    if len(node) > 1:
        nonterminals = [n for n in node if type(n) is not Terminal]
        for n in nonterminals:
            if PICK:
                return process_node(n)
        if nonterminals:
            return process_node(nonterminals[0])
        return ''.join((str(n) for n in node))
    else:
        return process_node(node[0])
elif mclass._tx_type == RULE_MATCH:
    return process_match(node)'''


def strip_docstrings(fn):
    for node in ast.walk(fn):
        if isinstance(node, (ast.FunctionDef,)) and node.body and isinstance(node.body[0], ast.Expr) \
                and isinstance(node.body[0].value, ast.Constant) and isinstance(node.body[0].value.value, str):
            node.body = node.body[1:] or [ast.Pass()]
    return fn


def is_flag_set(stmt, value):
    """`has_change[0] = <value>` -> 'cell', `has_change = <value>` -> 'name', else None"""
    if not (isinstance(stmt, ast.Assign) and len(stmt.targets) == 1 and isinstance(stmt.value, ast.Constant)
            and stmt.value.value is value):
        return None
    t = ast.unparse(stmt.targets[0])
    return {"has_change[0]": "cell", "has_change": "name"}.get(t)


def cut_flag(body):
    """remove the `has_change... = True` statements of a statement list; returns their kinds"""
    kinds = [is_flag_set(s, True) for s in body]
    found = [k for k in kinds if k]
    body[:] = [s for s, k in zip(body, kinds) if not k]
    return found


def determine_facts(tree):
    fn = strip_docstrings(copy.deepcopy(find_func(tree, "_determine_rule_types", cls="TextXVisitor")))
    inner = [n for n in fn.body if isinstance(n, ast.FunctionDef) and n.name == "_determine_rule_type"]
    need(len(inner) == 1, "_determine_rule_type not found")
    inner = inner[0]
    nonlocal_decl = False
    for s in list(inner.body):
        if isinstance(s, ast.Nonlocal):
            need(s.names == ["has_change"], "unexpected nonlocal " + ast.unparse(s))
            nonlocal_decl = True
            inner.body.remove(s)
    ifs = [s for s in inner.body if isinstance(s, ast.If)]
    com = [s for s in ifs if ast.unparse(s.test) == "len(cls._tx_attrs) > 0"]
    ab = [s for s in ifs if ast.unparse(s.test) == "abstract and cls._tx_type != RULE_ABSTRACT"]
    need(len(com) == 1 and len(ab) == 1, "the common / abstract branches of _determine_rule_type changed")
    need(isinstance(com[0].body[0], ast.If), "common branch changed")
    com_flags = cut_flag(com[0].body[0].body)
    ab_flags = cut_flag(ab[0].body)
    # the driver loop
    outer = [s for s in fn.body if not isinstance(s, ast.FunctionDef) and ast.unparse(s) != "resolved_classes = set()"]
    need(len(outer) == 2 and isinstance(outer[1], ast.While), "the pass loop of _determine_rule_types changed")
    init, loop = outer
    need(isinstance(init, ast.Assign) and ast.unparse(init.targets[0]) == "has_change", "has_change initialisation changed")
    init_s = ast.unparse(init.value)
    need(init_s in ("[True]", "True"), "has_change initial value changed: " + init_s)
    cell = init_s == "[True]"
    test = ast.unparse(loop.test)
    need(test == ("has_change[0]" if cell else "has_change"), "loop test does not read the flag: " + test)
    need(not loop.orelse, "loop has an else branch")
    clear = [s for s in loop.body if is_flag_set(s, False)]
    need(len(clear) == 1 and loop.body[0] is clear[0] and is_flag_set(clear[0], False) == ("cell" if cell else "name"),
         "the flag is not cleared at the start of each pass")
    res_in = [s for s in loop.body if ast.unparse(s) == "resolved_classes = set()"]
    res_out = [s for s in fn.body if ast.unparse(s) == "resolved_classes = set()"]
    need(len(res_in) + len(res_out) == 1, "resolved_classes initialisation changed")
    resets = len(res_in) == 1
    for s in res_in:
        loop.body.remove(s)
    for s in res_out:
        fn.body.remove(s)
    # is the flag written by the nested function the one the loop reads?
    want = "cell" if cell else "name"

    def effective(flags):
        if not flags:
            return False
        need(len(flags) == 1, "flag set twice")
        if flags[0] != want:
            return False if (cell and flags[0] == "name") else _unrec("flag statement does not match the flag's shape")
        return True if cell else nonlocal_decl
    com_f, ab_f = effective(com_flags), effective(ab_flags)
    text = ast.unparse(fn)
    text = text.replace("has_change[0]", "FLAG").replace("has_change = [True]", "FLAG = True").replace("has_change", "FLAG")
    for a, b in ALIAS_VARIANTS.items():
        text = text.replace(a, b)
    need(text == DET_SKELETON, "the text of _determine_rule_types differs from the transcribed one:\n" + _diff(DET_SKELETON, text))
    return com_f, ab_f, resets


def _unrec(msg):
    raise TranslateError(msg)


def _diff(a, b):
    import difflib
    return "\n".join(list(difflib.unified_diff(a.splitlines(), b.splitlines(), "transcribed", "source", lineterm=""))[:30])


def isinstance_fact(tree):
    fn = strip_docstrings(copy.deepcopy(find_func(tree, "textx_isinstance")))
    fors = [n for n in ast.walk(fn) if isinstance(n, ast.For) and ast.unparse(n.iter) == "obj_cls._tx_inh_by"]
    need(len(fors) == 1 and len(fors[0].body) == 1 and isinstance(fors[0].body[0], ast.If), "the _tx_inh_by loop of textx_isinstance changed")
    test = ast.unparse(fors[0].body[0].test)
    fact = {"id(cls) not in visited and _isinstance(cls)": True, "_isinstance(cls)": False}.get(test)
    need(fact is not None, "unrecognised recursion test in textx_isinstance: " + test)
    fors[0].body[0].test = ast.Name("RECURSE", ast.Load())
    text = ast.unparse(fn)
    need(text == ISINSTANCE_SKELETON, "the text of textx_isinstance differs from the transcribed one:\n" + _diff(ISINSTANCE_SKELETON, text))
    return fact


def abstract_fact(tree):
    outer = find_func(tree, "parse_tree_to_objgraph")
    pn = [n for n in outer.body if isinstance(n, ast.FunctionDef) and n.name == "process_node"]
    need(len(pn) == 1, "process_node not found")
    ifs = [n for n in ast.walk(pn[0]) if isinstance(n, ast.If) and ast.unparse(n.test) == "mclass._tx_type == RULE_ABSTRACT"]
    need(len(ifs) == 1, "the abstract branch of process_node not found")
    br = copy.deepcopy(ifs[0])
    picks = [n for n in ast.walk(br) if isinstance(n, ast.For) and ast.unparse(n.iter) == "nonterminals"]
    need(len(picks) == 1 and len(picks[0].body) == 1 and isinstance(picks[0].body[0], ast.If), "abstract result selection changed")
    test = ast.unparse(picks[0].body[0].test)
    fact = {"n.rule._tx_class._tx_type != RULE_MATCH": True, "n.rule._tx_class is not RULE_MATCH": False}.get(test)
    need(fact is not None, "unrecognised test for the abstract result: " + test)
    picks[0].body[0].test = ast.Name("PICK", ast.Load())
    text = ast.unparse(br)
    need(text == ABSTRACT_SKELETON, "the abstract / match branch of process_node differs from the transcribed one:\n" + _diff(ABSTRACT_SKELETON, text))
    # the object is created only after both branches returned
    src = ast.unparse(pn[0])
    need(src.index("mclass._tx_type == RULE_ABSTRACT") < src.index("inst = mclass.__new__(mclass)"), "instance creation moved before the kind test")
    return fact


def translate():
    ltree, _ = parse_file("textx/lang.py")
    mtree, _ = parse_file("textx/model.py")
    com_f, ab_f, resets = determine_facts(ltree)
    visited = isinstance_fact(mtree)
    pick = abstract_fact(mtree)
    b = lambda x: "true" if x else "false"
    emit("SrcKinds", "\n".join([
        "(* facts read off textx/lang.py _determine_rule_types and textx/model.py textx_isinstance / process_node;",
        "   the rest of those functions was compared textually with the transcription in Model/Kinds.v *)",
        "Definition common_sets_change : bool := %s." % b(com_f),
        "Definition abstract_sets_change : bool := %s." % b(ab_f),
        "Definition pass_resets_resolved : bool := %s." % b(resets),
        "Definition abstract_pick_by_kind : bool := %s." % b(pick),
        "Definition isinstance_visited : bool := %s." % b(visited),
    ]) + "\n")
    return []
