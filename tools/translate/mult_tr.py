"""C02: multiplicity constants, operator table and the shape of _update_attr_multiplicities -> Gen/SrcMult.v

Reads (by `ast`, fail closed):
  textx/const.py        MULT_* constants, `priority`, `mult_lt`
  textx/metamodel.py    MetaAttr.__init__/_new_cls_attr default multiplicity, the list test of _init_obj_attrs
  textx/lang.py         visit_assignment (operator -> PEG class, rule name, base multiplicity, `?=` reuse check),
                        _update_attr_multiplicities (repetition promotion, many-test, duplicate promotion, and
                        how an OrderedChoice treats the per-branch set: inherited from the enclosing set? merged back?)
  textx/model.py        the `optional` / `plain` / list branches of the assignment handler (guard and storage)
"""
import ast
from .common import parse_file, find_func, need, emit, TranslateError

MULTS = {"1": "M1", "0..1": "M01", "0..*": "M0s", "1..*": "M1s"}


def u(n):
    return ast.unparse(n)


def _consts():
    tree, _ = parse_file("textx/const.py")
    names = {}
    prio = None
    for st in tree.body:
        if isinstance(st, ast.Assign) and len(st.targets) == 1 and isinstance(st.targets[0], ast.Name):
            t = st.targets[0].id
            if t.startswith("MULT_") and isinstance(st.value, ast.Constant) and isinstance(st.value.value, str):
                if t == "MULT_ASSIGN_ERROR":
                    need(st.value.value == "Multiple assignments", "MULT_ASSIGN_ERROR text changed")
                    continue
                need(st.value.value in MULTS, "unknown multiplicity constant %s=%r" % (t, st.value.value))
                names[t] = MULTS[st.value.value]
            elif t == "priority":
                need(isinstance(st.value, ast.List) and all(isinstance(e, ast.Name) for e in st.value.elts), "priority is not a list of names")
                prio = [e.id for e in st.value.elts]
    need(sorted(names) == ["MULT_ONE", "MULT_ONEORMORE", "MULT_OPTIONAL", "MULT_ZEROORMORE"], "MULT_* constants changed: %r" % sorted(names))
    need(len(set(names.values())) == 4, "MULT_* constants are not distinct")
    need(prio is not None and all(p in names for p in prio), "priority list not found")
    f = find_func(tree, "mult_lt")
    need([a.arg for a in f.args.args] == ["left", "right"], "mult_lt signature changed")
    body = [s for s in f.body if not (isinstance(s, ast.Expr) and isinstance(s.value, ast.Constant))]
    need(len(body) == 1 and u(body[0]) == "return priority.index(left) < priority.index(right)", "mult_lt body changed")
    return names, [names[p] for p in prio]


def _mult_list(node, names, what):
    need(isinstance(node, (ast.List, ast.Tuple)) and all(isinstance(e, ast.Name) and e.id in names for e in node.elts), what + ": not a list of MULT_* names")
    return [names[e.id] for e in node.elts]


def _name(node, names, what):
    need(isinstance(node, ast.Name) and node.id in names, what + ": not a MULT_* name: " + u(node))
    return names[node.id]


def _default_of(func, arg, names):
    args = func.args.args
    defaults = func.args.defaults
    k = [a.arg for a in args].index(arg) - (len(args) - len(defaults))
    need(k >= 0, "parameter %s of %s has no default" % (arg, func.name))
    return _name(defaults[k], names, "%s default of %s" % (arg, func.name))


def _metamodel(names):
    tree, _ = parse_file("textx/metamodel.py")
    d1 = _default_of(find_func(tree, "__init__", cls="MetaAttr"), "mult", names)
    nca = find_func(tree, "_new_cls_attr")
    d2 = _default_of(nca, "mult", names)
    need(d1 == d2, "MetaAttr and _new_cls_attr default multiplicities differ")
    need("MetaAttr(name, cls, mult, cont, ref, bool_assignment, position)" in u(nca), "_new_cls_attr no longer forwards mult to MetaAttr")
    f = find_func(tree, "_init_obj_attrs")
    loops = [s for s in f.body if isinstance(s, ast.For)]
    need(len(loops) == 1 and u(loops[0].iter) == "obj.__class__._tx_attrs.values()", "_init_obj_attrs loop changed")
    first = loops[0].body[0]
    need(isinstance(first, ast.If) and isinstance(first.test, ast.Compare) and u(first.test.left) == "attr.mult"
         and len(first.test.ops) == 1 and isinstance(first.test.ops[0], ast.In), "_init_obj_attrs list test changed")
    lst = _mult_list(first.test.comparators[0], names, "_init_obj_attrs list test")
    need(len(first.body) == 1 and u(first.body[0]) == "setattr(obj, attr.name, [])", "_init_obj_attrs list initialisation changed")
    return d1, lst


def _visit_assignment(tree, names):
    f = find_func(tree, "visit_assignment")
    src = u(f)
    need("cls_attr = self.metamodel._new_cls_attr(cls, name=attr_name, position=node.position)" in src, "attribute creation changed")
    # reuse check
    reuse = [n for n in ast.walk(f) if isinstance(n, ast.If) and u(n.test) == "attr_name in cls._tx_attrs"]
    need(len(reuse) == 1, "attribute reuse test not found")
    rb = reuse[0].body
    need(len(rb) == 2 and isinstance(rb[0], ast.If) and isinstance(rb[0].body[-1], ast.Raise) and not rb[0].orelse
         and u(rb[1]) == "cls_attr = cls._tx_attrs[attr_name]", "attribute reuse branch changed")
    need(u(rb[0].test) == "op == '?='", "unrecognised `?=` reuse test: " + u(rb[0].test))
    chain = [n for n in ast.walk(f) if isinstance(n, ast.If) and u(n.test) == "op == '+='"]
    need(len(chain) == 1, "operator chain not found")
    table = {}
    node = chain[0]
    expect = [("op == '+='", "OpPlus", "OneOrMore", "__asgn_oneormore"), ("op == '*='", "OpStar", "ZeroOrMore", "__asgn_zeroormore"),
              ("op == '?='", "OpBool", "Optional", "__asgn_optional"), (None, "OpPlain", "Sequence", "__asgn_plain")]
    for test, op, klass, rname in expect:
        if test is not None:
            need(isinstance(node, ast.If) and u(node.test) == test, "operator chain: expected `%s`" % test)
            body = node.body
        else:
            body = node
        need(isinstance(body[0], ast.Assign) and u(body[0]) == "assignment_rule = %s(nodes=[rhs_rule], rule_name='%s', root=True)" % (klass, rname),
             "assignment rule for %s changed: %s" % (op, u(body[0])))
        eff = "m"
        for st in body[1:]:
            s = u(st)
            if isinstance(st, ast.Assign) and u(st.targets[0]) == "cls_attr.mult":
                eff = _name(st.value, names, "base multiplicity of " + op)
            elif isinstance(st, ast.If) and len(st.body) == 1 and isinstance(st.body[0], ast.Assign) and u(st.body[0].targets[0]) == "cls_attr.mult" and not st.orelse:
                tt = st.test
                need(isinstance(tt, ast.Compare) and u(tt.left) == "cls_attr.mult" and len(tt.ops) == 1
                     and isinstance(tt.ops[0], (ast.IsNot, ast.NotEq)), "conditional base multiplicity of %s changed: %s" % (op, s))
                keep = _name(tt.comparators[0], names, "conditional base multiplicity of " + op)
                eff = "if mult_eqb m %s then m else %s" % (keep, _name(st.body[0].value, names, "base multiplicity of " + op))
            elif s in ("base_rule_name = 'BOOL'", "cls_attr.bool_assignment = True"):
                pass
            else:
                raise TranslateError("unexpected statement in operator branch %s: %s" % (op, s))
        table[op] = eff
        if test is not None:
            node = node.orelse[0] if len(node.orelse) == 1 and isinstance(node.orelse[0], ast.If) else node.orelse
    return table


def _walk(tree, names):
    f = find_func(tree, "_update_attr_multiplicities")
    need([a.arg for a in f.args.args] == ["rule", "oc_branch_set", "mult"], "_update_attr_multiplicities signature changed")
    init = _default_of(f, "mult", names)
    body = f.body
    need(len(body) == 2 and u(body[0]) == "if isinstance(rule, RuleCrossRef):\n    return", "rule-reference guard changed")
    top = body[1]
    need(isinstance(top, ast.If) and u(top.test) == "isinstance(rule, OrderedChoice)", "OrderedChoice test changed")
    oc = "\n".join(u(s) for s in top.body)
    old = "for on in rule.nodes:\n    oc_branch_set = set()\n    _update_attr_multiplicities(on, oc_branch_set, mult)"
    new = ("branch_sets = []\nfor on in rule.nodes:\n    branch_set = set(oc_branch_set)\n    _update_attr_multiplicities(on, branch_set, mult)\n"
           "    branch_sets.append(branch_set)\nfor branch_set in branch_sets:\n    oc_branch_set.update(branch_set)")
    if oc == old:
        inherits, merged = False, False
    elif oc == new:
        inherits, merged = True, True
    else:
        raise TranslateError("unrecognised OrderedChoice branch handling:\n" + oc)
    rest = top.orelse
    need(len(rest) == 3, "non-choice branch has %d statements, expected 3" % len(rest))
    rep = rest[0]
    need(isinstance(rep, ast.If) and u(rep.test) == "isinstance(rule, OneOrMore)" and len(rep.body) == 1 and u(rep.body[0].targets[0]) == "mult",
         "OneOrMore promotion changed")
    plus = _name(rep.body[0].value, names, "OneOrMore promotion")
    need(len(rep.orelse) == 1 and isinstance(rep.orelse[0], ast.If) and not rep.orelse[0].orelse, "ZeroOrMore promotion changed")
    z = rep.orelse[0]
    need(isinstance(z.test, ast.BoolOp) and isinstance(z.test.op, ast.And) and len(z.test.values) == 2 and u(z.test.values[0]) == "isinstance(rule, ZeroOrMore)",
         "ZeroOrMore test changed")
    c = z.test.values[1]
    need(isinstance(c, ast.Compare) and u(c.left) == "mult" and len(c.ops) == 1 and isinstance(c.ops[0], (ast.NotEq, ast.IsNot)), "ZeroOrMore guard changed")
    star_keep = _name(c.comparators[0], names, "ZeroOrMore guard")
    need(len(z.body) == 1 and u(z.body[0].targets[0]) == "mult", "ZeroOrMore promotion changed")
    star = _name(z.body[0].value, names, "ZeroOrMore promotion")
    asg = rest[1]
    need(isinstance(asg, ast.If) and u(asg.test) == "rule.rule_name.startswith('__asgn')" and not asg.orelse, "assignment test changed")
    need(len(asg.body) == 2 and u(asg.body[0]) == "cls_attr = cls._tx_attrs[rule._attr_name]", "assignment branch changed")
    m = asg.body[1]
    need(isinstance(m, ast.If) and isinstance(m.test, ast.Compare) and u(m.test.left) == "mult" and isinstance(m.test.ops[0], ast.In), "many-test changed")
    many = _mult_list(m.test.comparators[0], names, "many-test")
    need(len(m.body) == 2 and isinstance(m.body[0], ast.If) and u(m.body[0].test) == "rule.rule_name == '__asgn_optional'"
         and isinstance(m.body[0].body[-1], ast.Raise) and not m.body[0].orelse, "bool-in-repetition check changed")
    need(u(m.body[1]) == "if mult_lt(cls_attr.mult, mult):\n    cls_attr.mult = mult", "promotion by mult_lt changed: " + u(m.body[1]))
    need(len(m.orelse) == 1 and isinstance(m.orelse[0], ast.If), "duplicate test changed")
    d = m.orelse[0]
    need(u(d.test) == "rule._attr_name in oc_branch_set" and len(d.body) == 1 and u(d.body[0].targets[0]) == "cls_attr.mult", "duplicate promotion changed")
    dup = _name(d.body[0].value, names, "duplicate promotion")
    need(len(d.orelse) == 1 and u(d.orelse[0]) == "oc_branch_set.add(rule._attr_name)", "branch-set bookkeeping changed")
    need(u(rest[2]) == "if rule is root_rule or not rule.root:\n    for n in rule.nodes:\n        _update_attr_multiplicities(n, oc_branch_set, mult)",
         "recursion into sub-expressions changed")
    return dict(init=init, inherits=inherits, merged=merged, plus=plus, star=star, star_keep=star_keep, many=many, dup=dup)


def _caller(tree):
    f = find_func(tree, "visit_textx_rule")
    calls = [n for n in ast.walk(f) if isinstance(n, ast.Expr) and isinstance(n.value, ast.Call) and u(n.value.func) == "_update_attr_multiplicities"
             and n in f.body]
    need(len(calls) == 1 and u(calls[0]) == "_update_attr_multiplicities(root_rule, set())", "top-level call of _update_attr_multiplicities changed")
    post = [n for n in f.body if isinstance(n, ast.For) and u(n.iter) == "cls._tx_attrs.values()"]
    if not post:
        return False
    need(len(post) == 1, "more than one attribute post-check")
    p = post[0]
    need(len(p.body) == 1 and isinstance(p.body[0], ast.If) and isinstance(p.body[0].body[-1], ast.Raise) and not p.body[0].orelse,
         "attribute post-check changed")
    t = p.body[0].test
    need(isinstance(t, ast.BoolOp) and isinstance(t.op, ast.And) and len(t.values) == 2 and u(t.values[0]) == "attr.bool_assignment"
         and isinstance(t.values[1], ast.Compare) and u(t.values[1].left) == "attr.mult" and isinstance(t.values[1].ops[0], ast.In),
         "attribute post-check test changed: " + u(t))
    need(f.body.index(p) > f.body.index(calls[0]), "attribute post-check runs before the multiplicity update")
    return t.values[1].comparators[0]


def _model_py():
    tree, _ = parse_file("textx/model.py")
    f = find_func(tree, "process_node")
    ifs = [n for n in ast.walk(f) if isinstance(n, ast.If) and u(n.test) == "op == 'optional'"]
    need(len(ifs) == 1, "assignment handler not found")
    o = ifs[0]
    need(len(o.body) == 1 and u(o.body[0]) == "setattr(obj_attr, attr_name, True)", "`?=` handler changed")
    need(len(o.orelse) == 1 and isinstance(o.orelse[0], ast.If) and u(o.orelse[0].test) == "op == 'plain'", "plain handler not found")
    p = o.orelse[0]
    need(u(p.body[0]) == "attr_value = getattr(obj_attr, attr_name)", "plain handler: value fetch changed")
    g = p.body[1]
    need(isinstance(g, ast.If) and u(g.test) == "attr_value and (not isinstance(attr_value, list))" and isinstance(g.body[-1], ast.Raise) and not g.orelse,
         "plain handler: multiple-assignment guard changed: " + (u(g.test) if isinstance(g, ast.If) else u(g)))
    need("err_type=MULT_ASSIGN_ERROR" in u(g.body[-1]), "plain handler: error type changed")
    need(u(p.body[2]) == "value = process_node(node[0])", "plain handler: value conversion changed")
    need(u(p.body[-1]) == "if isinstance(attr_value, list):\n    attr_value.append(value)\nelse:\n    setattr(obj_attr, attr_name, value)",
         "plain handler: storage changed")
    need(len(p.orelse) == 1 and isinstance(p.orelse[0], ast.If) and u(p.orelse[0].test) == "op in ['list', 'oneormore', 'zeroormore']", "list handler not found")
    lh = p.orelse[0]
    # how separator nodes are told from value nodes: three recognised shapes
    lbody = list(lh.body)
    shapes = {
        "SepByName": (None, "for n in node", "n.rule_name != 'sep'"),
        "SepByNode": ("sep_rule = getattr(node.rule, 'sep', None)", "for n in node", "sep_rule is None or n.rule is not sep_rule"),
        "SepByPosition": ("has_sep = getattr(node.rule, 'sep', None) is not None", "for (idx, n) in enumerate(node)", "not (has_sep and idx % 2)"),
    }
    sep_mode = None
    for mode, (prelude, head, test) in shapes.items():
        lb = lbody
        if prelude is not None:
            if not (len(lb) == 2 and u(lb[0]) == prelude):
                continue
            lb = lb[1:]
        if len(lb) == 1 and isinstance(lb[0], ast.For) and "for %s in %s" % (u(lb[0].target), u(lb[0].iter)) == head \
                and len(lb[0].body) == 1 and isinstance(lb[0].body[0], ast.If) and u(lb[0].body[0].test) == test and not lb[0].body[0].orelse:
            sep_mode = mode
            inner = lb[0].body
            break
    need(sep_mode is not None, "list handler loop / separator test changed: " + " ; ".join(u(x).split("\n")[0] for x in lbody))
    tail = inner[0].body[-2:]
    need(u(tail[0]) == "if not hasattr(obj_attr, attr_name) or getattr(obj_attr, attr_name) is None:\n    setattr(obj_attr, attr_name, [])"
         and u(tail[1]) == "getattr(obj_attr, attr_name).append(value)", "list handler storage changed")
    need(u(inner[0].body[0]) == "value = process_node(n)", "list handler value conversion changed")
    return sep_mode


def translate():
    names, prio = _consts()
    default, lists = _metamodel(names)
    tree, _ = parse_file("textx/lang.py")
    table = _visit_assignment(tree, names)
    w = _walk(tree, names)
    post = _caller(tree)
    if post is False:
        bool_many_rejected = "[]"
    else:
        bool_many_rejected = "[" + "; ".join(_mult_list(post, names, "attribute post-check")) + "]"
    sep_mode = _model_py()
    b2c = lambda x: "true" if x else "false"
    lst = lambda l: "[" + "; ".join(l) + "]"
    emit("SrcMult", "\n".join([
        "From TxV Require Import Core.Base Model.MultBase.",
        "(* textx/const.py *)",
        "Definition src_priority : list mult := %s." % lst(prio),
        "(* textx/metamodel.py: MetaAttr default, _init_obj_attrs list test *)",
        "Definition src_default_mult : mult := %s." % default,
        "Definition src_list_mults : list mult := %s." % lst(lists),
        "(* textx/lang.py visit_assignment: operator -> base multiplicity (m = multiplicity so far) *)",
        "Definition src_op_base (op : asgop) (m : mult) : mult :=",
        "  match op with",
        "  | OpPlus => %s" % table["OpPlus"],
        "  | OpStar => %s" % table["OpStar"],
        "  | OpBool => %s" % table["OpBool"],
        "  | OpPlain => %s" % table["OpPlain"],
        "  end.",
        "(* textx/lang.py _update_attr_multiplicities *)",
        "Definition src_walk_init : mult := %s." % w["init"],
        "Definition src_rep_plus (m : mult) : mult := %s." % w["plus"],
        "Definition src_rep_star (m : mult) : mult := if mult_eqb m %s then m else %s." % (w["star_keep"], w["star"]),
        "Definition src_many_mults : list mult := %s." % lst(w["many"]),
        "Definition src_dup_mult : mult := %s." % w["dup"],
        "Definition src_branch_inherits : bool := %s." % b2c(w["inherits"]),
        "Definition src_branch_merged : bool := %s." % b2c(w["merged"]),
        "(* visit_textx_rule: multiplicities for which a `?=` attribute is rejected after the update ([] = no such check) *)",
        "Definition src_bool_rejected_mults : list mult := %s." % bool_many_rejected,
        "(* textx/model.py list-assignment handler: how separator nodes are skipped *)",
        "Definition src_sep_mode : sepmode := %s." % sep_mode,
    ]) + "\n")
    return []
