"""Error-location facts of textx/model.py, textx/scoping/providers.py, textx/metamodel.py -> Gen/SrcLoc.v

For every error site of C28 the translator reads WHICH parser object computes line/col and WHICH
file name is put on the error; for C33 which fields TextXMetaModel.process fills, which keys
get_location returns and which keyword arguments the match dispatch passes.  Everything else about the
sites (the offset expression, the guard that ties `self.parser` to the model of the reference, the
shape of textxerror_wrap and of get_location) is checked literally and the translator fails closed.
"""
import ast
from .common import parse_file, find_func, need, emit, TranslateError

FIELDS = {"line": "FLine", "col": "FCol", "nchar": "FNchar", "filename": "FFile"}


def U(n):
    return ast.unparse(n)


def kw(call):
    need(all(k.arg is not None for k in call.keywords), "unexpected ** in " + U(call))
    return {k.arg: U(k.value) for k in call.keywords}


def find_class(tree, name):
    for n in ast.walk(tree):
        if isinstance(n, ast.ClassDef) and n.name == name:
            return n
    raise TranslateError("class %s not found" % name)


def method(cls, name):
    for n in cls.body:
        if isinstance(n, ast.FunctionDef) and n.name == name:
            return n
    raise TranslateError("method %s.%s not found" % (cls.name, name))


def raises_of(node, exc):
    return [n for n in ast.walk(node) if isinstance(n, ast.Raise) and isinstance(n.exc, ast.Call) and U(n.exc.func) == exc]


def linecol_assign(stmts, offset_expr):
    """the statement `line, col = <recv>.pos_to_linecol(<offset_expr>)` among stmts -> unparsed receiver"""
    for s in stmts:
        if isinstance(s, ast.Assign) and U(s.targets[0]) in ("(line, col)", "line, col") and isinstance(s.value, ast.Call) \
                and isinstance(s.value.func, ast.Attribute) and s.value.func.attr == "pos_to_linecol":
            need(len(s.value.args) == 1 and U(s.value.args[0]) == offset_expr and not s.value.keywords,
                 "pos_to_linecol argument is %s, expected %s" % (U(s.value), offset_expr))
            return U(s.value.func.value)
    raise TranslateError("no `line, col = ....pos_to_linecol(%s)` found" % offset_expr)


def translate():
    mtree, _ = parse_file("textx/model.py")
    ptree, _ = parse_file("textx/scoping/providers.py")
    mmtree, _ = parse_file("textx/metamodel.py")

    # ---- syntax error: TextXModelParser._parse
    fp = find_func(mtree, "_parse")
    hs = [h for h in ast.walk(fp) if isinstance(h, ast.ExceptHandler)]
    need(len(hs) == 1 and U(hs[0].type) == "NoMatch" and hs[0].name == "e", "_parse: NoMatch handler changed")
    need(U(hs[0].body[0]) == "e.eval_attrs()", "_parse: e.eval_attrs() is not the first statement of the handler")
    rs = raises_of(hs[0], "TextXSyntaxError")
    need(len(rs) == 1 and hs[0].body[1] is rs[0], "_parse: raise TextXSyntaxError changed")
    k = kw(rs[0].exc)
    need(k.get("line") == "e.line" and k.get("col") == "e.col", "_parse: line/col are not e.line/e.col")
    need("nchar" not in k, "_parse: unexpected nchar")
    syn_file = {"e.parser.file_name": "OfRef", None: "Nobody"}.get(k.get("filename"))
    need(syn_file is not None, "_parse: unrecognised filename expression " + str(k.get("filename")))
    # NoMatch.eval_attrs (installed Arpeggio): line/col from the parser that raised, at e.position
    import inspect
    import arpeggio
    src = inspect.getsource(arpeggio.NoMatch.eval_attrs)
    need("self.line, self.col = self.parser.pos_to_linecol(self.position)" in src, "arpeggio NoMatch.eval_attrs changed")
    syn = ("OfRef", syn_file)

    # ---- unknown object: ReferenceResolver.resolve_one_step
    rr = find_class(mtree, "ReferenceResolver")
    init = method(rr, "__init__")
    need([a.arg for a in init.args.args][:3] == ["self", "parser", "model"]
         and "self.parser = parser" in U(init) and "self.model = model" in U(init), "ReferenceResolver.__init__ changed")
    need(U(mtree).count("ReferenceResolver(parser, model, pos_crossref_list)") == 1, "ReferenceResolver construction changed")
    ros = method(rr, "resolve_one_step")
    loops = [n for n in ast.walk(ros) if isinstance(n, ast.For) and U(n.iter) == "current_crossrefs"]
    need(len(loops) == 1 and U(loops[0].target) == "(obj, attr, crossref)", "resolve loop changed")
    guard = loops[0].body[0]
    need(len(loops[0].body) == 1 and isinstance(guard, ast.If) and U(guard.test) == "get_model(obj) == self.model",
         "resolve loop is not guarded by get_model(obj) == self.model")
    ifs = [n for n in guard.body if isinstance(n, ast.If) and U(n.test) == "resolved is None"]
    need(len(ifs) == 1, "`if resolved is None:` branch not found")
    recv = linecol_assign(ifs[0].body, "crossref.position")
    rs = raises_of(ifs[0], "TextXSemanticError")
    need(len(rs) == 1 and ifs[0].body[-1] is rs[0], "unknown-object raise changed")
    k = kw(rs[0].exc)
    need(k.get("line") == "line" and k.get("col") == "col" and "nchar" not in k, "unknown-object line/col changed")
    unk = ({"self.parser": "OfRef"}.get(recv), {"self.model._tx_filename": "OfRef", None: "Nobody"}.get(k.get("filename")))
    need(None not in unk, "unknown-object: unrecognised parser %s / filename %s" % (recv, k.get("filename")))

    # ---- unresolvable cross references: parse_tree_to_objgraph
    pt = find_func(mtree, "parse_tree_to_objgraph")
    need("parser" in [a.arg for a in pt.args.args], "parse_tree_to_objgraph(parser, ...) changed")
    ifs = [n for n in ast.walk(pt) if isinstance(n, ast.If) and U(n.test) == "unresolved_count > 0"]
    need(len(ifs) == 1, "`if unresolved_count > 0:` not found")
    body = ifs[0].body
    need(len(body) == 3 and isinstance(body[1], ast.For) and isinstance(body[2], ast.Raise), "unresolvable branch changed")
    outer = body[1]
    need(U(outer.target) == "m" and U(outer.iter) == "models" and len(outer.body) == 1 and isinstance(outer.body[0], ast.For),
         "unresolvable outer loop changed")
    inner = outer.body[0]
    need(U(inner.target) == "(_, _, delayed)" and U(inner.iter) == "m._tx_reference_resolver.delayed_crossrefs",
         "unresolvable inner loop changed")
    recv = linecol_assign(inner.body, "delayed.position")
    need(isinstance(inner.body[0], ast.Assign) and "pos_to_linecol" in U(inner.body[0]), "line, col must be computed first in the loop body")
    msg = [s for s in inner.body if isinstance(s, ast.AugAssign) and U(s.target) == "error_text"]
    need(len(msg) == 1 and "at {(line, col)}" in U(msg[0].value), "message no longer reports `at (line, col)` per reference")
    file_assigned = [U(s.value) for s in inner.body if isinstance(s, ast.Assign) and U(s.targets[0]) == "filename"]
    need(len(inner.body) == 2 + len(file_assigned), "unexpected statements in the unresolvable loop body")
    need(U(body[2].exc.func) == "TextXSemanticError", "unresolvable raise changed")
    k = kw(body[2].exc)
    need(k.get("line") == "line" and k.get("col") == "col" and "nchar" not in k, "unresolvable line/col changed")
    p = {"parser": "OfMain", "m._tx_parser": "OfRef", "m._tx_reference_resolver.parser": "OfRef"}.get(recv)
    need(p is not None, "unresolvable: unrecognised parser expression " + recv)
    if "filename" not in k:
        f = "Nobody"
        need(not file_assigned, "filename assigned but not passed")
    elif k["filename"] == "filename" and file_assigned == ["m._tx_filename"]:
        f = "OfRef"
    elif k["filename"] == "file_name":
        f = "OfMain"
    else:
        raise TranslateError("unresolvable: unrecognised filename expression " + k["filename"])
    unres = (p, f)
    need("m._tx_parser" != recv or U(pt).count("model._tx_parser = parser") == 1, "model._tx_parser = parser not found")

    # ---- not unique: PlainName.__call__
    pn = method(find_class(ptree, "PlainName"), "__call__")
    need([a.arg for a in pn.args.args] == ["self", "obj", "attr", "obj_ref"], "PlainName.__call__ signature changed")
    rs = raises_of(pn, "TextXSemanticError")
    need(len(rs) == 1, "PlainName: expected exactly one raise")
    branch = [n for n in ast.walk(pn) if isinstance(n, ast.If) and U(n.test) == "len(result_lst) > 1"]
    need(len(branch) == 1 and branch[0].body[-1] is rs[0] and len(branch[0].body) == 2, "PlainName not-unique branch changed")
    recv = linecol_assign(branch[0].body, "obj_ref.position")
    k = kw(rs[0].exc)
    need(k.get("line") == "line" and k.get("col") == "col" and "nchar" not in k, "not-unique line/col changed")
    nu = ({"get_parser(obj)": "OfSearched"}.get(recv), {"get_model(obj)._tx_filename": "OfSearched", None: "Nobody"}.get(k.get("filename")))
    need(None not in nu, "not-unique: unrecognised parser %s / filename %s" % (recv, k.get("filename")))
    gp = find_func(parse_file("textx/scoping/tools.py")[0], "get_parser")
    need("the_model = get_model(model_obj)" in U(gp) and U(gp.body[-1]) == "return the_model._tx_parser", "scoping.tools.get_parser changed")
    # ImportURI.__call__: first the referencing object, then every other model; relocation of errors from the latter
    iu = method(find_class(ptree, "ImportURI"), "__call__")
    need([a.arg for a in iu.args.args] == ["self", "obj", "attr", "obj_ref"], "ImportURI.__call__ signature changed")
    calls = [U(n) for n in ast.walk(iu) if isinstance(n, ast.Call) and U(n.func) == "self.scope_provider"]
    need(sorted(calls) == sorted(["self.scope_provider(obj, attr, obj_ref)"] + ["self.scope_provider(m, attr, obj_ref)"] * 2),
         "ImportURI.__call__ lookups changed: %r" % calls)
    tries = [n for n in iu.body if isinstance(n, ast.Try)]
    relocates = False
    if tries:
        need(len(tries) == 1 and len(tries[0].handlers) == 1, "ImportURI.__call__: unexpected try structure")
        t = tries[0]
        inside = [U(n) for n in ast.walk(ast.Module(body=t.body, type_ignores=[])) if isinstance(n, ast.Call) and U(n.func) == "self.scope_provider"]
        need(inside == ["self.scope_provider(m, attr, obj_ref)"] * 2, "ImportURI.__call__: the try must cover exactly the searches of other models")
        h = t.handlers[0]
        need(U(h.type) == "TextXSemanticError" and h.name == "e", "ImportURI.__call__: handler type changed")
        want = ["e.line, e.col = get_parser(obj).pos_to_linecol(obj_ref.position)", "e.filename = model._tx_filename", "raise"]
        need([U(s) for s in h.body] == want, "ImportURI.__call__: relocation handler changed: %r" % [U(s) for s in h.body])
        need("model = get_model(obj)" in [U(s) for s in iu.body], "ImportURI.__call__: model = get_model(obj) not found")
        relocates = True

    # ---- TextXMetaModel.process
    pr = method(find_class(mmtree, "TextXMetaModel"), "process")
    need([a.arg for a in pr.args.args] == ["self", "value", "_type", "filename", "col", "line", "nchar"]
         and [U(d) for d in pr.args.defaults] == ["None"], "process signature changed")
    tr = [n for n in pr.body if isinstance(n, ast.Try)]
    need(len(tr) == 1 and len(tr[0].handlers) == 1 and U(tr[0].handlers[0].type) == "Exception" and tr[0].handlers[0].name == "e"
         and not tr[0].finalbody and not tr[0].orelse, "process: try/except Exception as e changed")
    need(len(tr[0].body) == 1 and U(tr[0].body[0]) == "return self._obj_processors.get(_type, lambda x: x)(value)", "process: call changed")
    top = [s for s in tr[0].handlers[0].body if not isinstance(s, (ast.ImportFrom, ast.Import))]
    need(len(top) == 1 and isinstance(top[0], ast.If) and U(top[0].test) == "isinstance(e, TextXError)", "process: isinstance test changed")
    need(len(top[0].orelse) == 1 and U(top[0].orelse[0]) == "raise", "process: non-TextX exceptions are no longer re-raised unchanged")
    stmts = top[0].body
    need(U(stmts[-1]) == "raise e", "process: `raise e` changed")
    fills = []
    for s in stmts[:-1]:
        ok = isinstance(s, ast.If) and not s.orelse and len(s.body) == 1 and isinstance(s.test, ast.Compare)
        need(ok, "process: unexpected statement " + U(s))
        for f in FIELDS:
            if U(s.test) == "e.%s is None" % f and U(s.body[0]) == "e.%s = %s" % (f, f):
                fills.append(FIELDS[f])
                break
        else:
            raise TranslateError("process: unrecognised enrichment " + U(s))
    need(len(set(fills)) == len(fills), "process: duplicate enrichment")

    # ---- get_location
    gl = find_func(mtree, "get_location")
    body = [U(s) for s in gl.body if not (isinstance(s, ast.Expr) and isinstance(s.value, ast.Constant))]
    need(body[:4] == ["from textx.model import get_model", "the_model = get_model(model_obj)",
                      "line, col = the_model._tx_parser.pos_to_linecol(model_obj._tx_position)",
                      "nchar = model_obj._tx_position_end - model_obj._tx_position"] and len(body) == 5, "get_location body changed")
    ret = gl.body[-1]
    need(isinstance(ret, ast.Return) and isinstance(ret.value, ast.Dict), "get_location no longer returns a dict literal")
    loc_keys = []
    for kk, vv in zip(ret.value.keys, ret.value.values):
        need(isinstance(kk, ast.Constant) and kk.value in FIELDS, "get_location: unexpected key " + U(kk))
        want = {"line": "line", "col": "col", "nchar": "nchar", "filename": "the_model._tx_filename"}[kk.value]
        need(U(vv) == want, "get_location: %s is %s" % (kk.value, U(vv)))
        loc_keys.append(FIELDS[kk.value])

    # ---- object processor dispatch
    cop = find_func(mtree, "call_obj_processors")
    pcalls = [n for n in ast.walk(cop) if isinstance(n, ast.Call) and U(n.func) == "metamodel.process"]
    need(len(pcalls) == 2, "call_obj_processors: expected two metamodel.process calls")
    for c in pcalls:
        need(len(c.keywords) == 1 and c.keywords[0].arg is None and U(c.keywords[0].value) in ("get_location(model_obj)", "loc")
             and U(c.args[0]) == "model_obj", "call_obj_processors: process call changed: " + U(c))
    if any(U(c.keywords[0].value) == "loc" for c in pcalls):
        need(U(cop).count("loc = get_location(model_obj)") == 1, "loc is not get_location(model_obj)")
        assigns = [n for n in ast.walk(cop) if isinstance(n, ast.Assign) and U(n.targets[0]) == "loc"]
        # the only other value of loc: no location at all for a plain Python value (no _tx_position)
        others = [U(a.value) for a in assigns if U(a.value) != "get_location(model_obj)"]
        need(others in ([], ["{'line': None, 'col': None, 'nchar': None, 'filename': None}"]), "loc assigned from %r" % others)
        if others:
            guards = [n for n in ast.walk(cop) if isinstance(n, ast.If) and U(n.test) == "hasattr(model_obj, '_tx_position')"]
            need(len(guards) == 1 and U(guards[0].body[0]) == "loc = get_location(model_obj)" and len(guards[0].body) == 1
                 and len(guards[0].orelse) == 1, "guard of the plain-value location changed")

    # ---- match dispatch
    kwsets = []
    for fname, var in (("process_match", "nt"), ("process_node", "node")):
        f = find_func(pt, fname)
        first = [s for s in f.body if not (isinstance(s, ast.Expr) and isinstance(s.value, ast.Constant))][0]
        need(U(first) == "line, col = parser.pos_to_linecol(%s.position)" % var, fname + ": line/col computation changed")
        cs = [n for n in ast.walk(f) if isinstance(n, ast.Call) and U(n.func) == "metamodel.process"]
        need(len(cs) == (2 if fname == "process_match" else 3), fname + ": number of process calls changed")
        for c in cs:
            k = kw(c)
            for a, v in k.items():
                need(a in FIELDS and v == {"filename": "parser.file_name", "line": "line", "col": "col"}.get(a), fname + ": keyword %s=%s" % (a, v))
            kwsets.append(tuple(sorted(k)))
    need(len(set(kwsets)) == 1, "match dispatch calls pass different keyword sets")
    match_keys = [FIELDS[a] for a in kwsets[0]]

    # ---- textxerror_wrap
    tw = find_func(mtree, "textxerror_wrap")
    wr = [n for n in tw.body if isinstance(n, ast.FunctionDef) and n.name == "wrapper"]
    need(len(wr) == 1, "textxerror_wrap.wrapper not found")
    want = ("def wrapper(obj):\n    try:\n        return obj_processor(obj)\n    except Exception as e:\n        if isinstance(e, TextXError):\n            raise\n"
            "        elif hasattr(obj, '_tx_position') and hasattr(obj, '_tx_filename'):\n            raise TextXError(str(e), **get_location(obj)) from e\n"
            "        else:\n            raise TextXError(str(e)) from e")
    need(U(wr[0]) == want, "textxerror_wrap.wrapper changed")

    d = lambda n, x: "Definition %s : locdesc := {| d_parser := %s; d_file := %s |}." % (n, x[0], x[1])
    l = lambda xs: "[" + "; ".join(xs) + "]"
    emit("SrcLoc", "\n".join([
        "From TxV Require Import Core.Base Model.ErrLoc.",
        d("syntax_desc", syn), d("unknown_desc", unk), d("unresolvable_desc", unres), d("nonunique_desc", nu),
        "Definition importuri_relocates : bool := %s." % ("true" if relocates else "false"),
        "Definition process_fills : list field := %s." % l(fills),
        "Definition location_keys : list field := %s." % l(loc_keys),
        "Definition match_keys : list field := %s." % l(match_keys),
    ]) + "\n")
    return []
