"""Fingerprint of the Arpeggio interpreter that coq/Model/Peg.v transcribes.

Arpeggio is a dependency (it lives in the interpreter's site-packages, not in $TEXTX_REPO), so it
cannot be translated from the tree under test; instead the text (ast.unparse, i.e. without comments
and formatting) of every function/method that Peg.v transcribes is hashed and compared with the hashes
committed in tools/translate/arpeggio_fp.json.  A different Arpeggio version, or a patched file,
makes `translate()` report an error (fail closed): the model may no longer describe the interpreter.

    /venv/bin/python tools/translate/arpeggio_tr.py --update     # re-record after re-validating Peg.v
"""
import ast
import hashlib
import importlib.util
import json
import os
import sys

DATA = os.path.join(os.path.dirname(os.path.abspath(__file__)), "arpeggio_fp.json")

# (class or None, function): what Peg.v / pegdump.py rely on
UNITS = [
    (None, "flatten"),
    ("NoMatch", "__init__"),
    ("ParsingExpression", "__init__"), ("ParsingExpression", "parse"), ("ParsingExpression", "_clear_cache"),
    ("Sequence", "__init__"), ("Sequence", "_parse"),
    ("OrderedChoice", "_parse"),
    ("Repetition", "__init__"),
    ("Optional", "_parse"), ("ZeroOrMore", "_parse"), ("OneOrMore", "_parse"), ("UnorderedGroup", "_parse"),
    ("And", "_parse"), ("Not", "_parse"), ("Empty", "_parse"),
    ("Match", "__init__"), ("Match", "_parse_comments"), ("Match", "parse"),
    ("RegExMatch", "__init__"), ("RegExMatch", "compile"), ("RegExMatch", "_parse"),
    ("StrMatch", "__init__"), ("StrMatch", "_parse"), ("StrMatch", "__eq__"), ("StrMatch", "__hash__"),
    ("EndOfFile", "__init__"), ("EndOfFile", "_parse"), (None, "EOF"),
    ("ParseTreeNode", "__init__"), ("Terminal", "__init__"), ("Terminal", "position_end"),
    ("NonTerminal", "__init__"), ("NonTerminal", "position_end"),
    ("Parser", "__init__"), ("Parser", "ws"), ("Parser", "eolterm"), ("Parser", "parse"),
    ("Parser", "_nm_raise"), ("Parser", "_clear_caches"),
]
# class hierarchy facts used by the dumper (exact types) and by the model (which _parse is inherited)
BASES = ["Sequence", "OrderedChoice", "Repetition", "Optional", "ZeroOrMore", "OneOrMore", "UnorderedGroup",
         "SyntaxPredicate", "And", "Not", "Empty", "Match", "RegExMatch", "StrMatch", "EndOfFile", "Terminal", "NonTerminal"]


def source_path():
    # the module the implementation runners will import: PYTHONPATH=$TEXTX_REPO comes first
    import importlib.machinery
    repo = os.environ.get("TEXTX_REPO", "/repo")
    spec = importlib.machinery.PathFinder.find_spec("arpeggio", [repo] + sys.path)
    if spec is None or not spec.origin:
        raise RuntimeError("arpeggio not found")
    return spec.origin


def fingerprint(path=None):
    path = path or source_path()
    tree = ast.parse(open(path, encoding="utf-8").read())
    classes = {n.name: n for n in tree.body if isinstance(n, ast.ClassDef)}
    funcs = {}
    for n in tree.body:
        if isinstance(n, ast.FunctionDef):
            funcs.setdefault((None, n.name), []).append(n)
    for cname, c in classes.items():
        for n in c.body:
            if isinstance(n, ast.FunctionDef):
                funcs.setdefault((cname, n.name), []).append(n)     # property getter + setter share a name
    out = {}
    for key in UNITS:
        nodes = funcs.get(key)
        name = "%s.%s" % key if key[0] else key[1]
        if not nodes:
            out[name] = "MISSING"
            continue
        text = "\n".join(ast.unparse(n) for n in nodes)
        out[name] = hashlib.sha256(text.encode()).hexdigest()[:20]
    for c in BASES:
        out["bases:" + c] = ",".join(ast.unparse(b) for b in classes[c].bases) if c in classes else "MISSING"
    consts = {}
    for n in tree.body:
        if isinstance(n, ast.Assign) and len(n.targets) == 1 and isinstance(n.targets[0], ast.Name) and \
                n.targets[0].id in ("DEFAULT_WS", "NOMATCH_MARKER"):
            consts[n.targets[0].id] = ast.unparse(n.value)
    out["const:DEFAULT_WS"] = consts.get("DEFAULT_WS", "MISSING")
    out["const:NOMATCH_MARKER"] = consts.get("NOMATCH_MARKER", "MISSING")
    return out


def translate():
    """Fail closed: returns a list of error strings (empty = the installed Arpeggio is the transcribed one)."""
    if not os.path.exists(DATA):
        return ["arpeggio_tr: %s missing" % os.path.basename(DATA)]
    want = json.load(open(DATA))["units"]
    got = fingerprint()
    errs = []
    for k in sorted(set(want) | set(got)):
        if want.get(k) != got.get(k):
            errs.append("arpeggio_tr: %s differs from the version Model/Peg.v transcribes (recorded %s, installed %s)"
                        % (k, want.get(k), got.get(k)))
    return errs


if __name__ == "__main__":
    if "--update" in sys.argv:
        import importlib.metadata as md
        json.dump({"arpeggio_version": md.version("Arpeggio"), "units": fingerprint()}, open(DATA, "w"), indent=1, sort_keys=True)
        print("recorded", DATA)
    else:
        e = translate()
        print("\n".join(e) if e else "ok")
        sys.exit(1 if e else 0)
