"""mmdump: dump the part of a LIVE textX metamodel that model construction (textx/model.py
parse_tree_to_objgraph) reads, keyed by the node ids of tools/pegdump.py.

Per parser-model node (index = pegdump node id) one entry:
    {"k": "asgn", "attr": name, "op": "plain"|"optional"|"list"|"oneormore"|"zeroormore"|<other>}
    {"k": "rule", "type": "common"|"abstract"|"match", "cls": class name,
     "attrs": [{"name", "mult", "cont", "ref", "cls", "bool"}], "user": bool}
    {"k": "term", "rule": rule_name, "groups": number of regex groups (0 for StrMatch/EOF)}
    {"k": "other"}                 (non-root inner expression, or a root without class)
This is the per-case 'translator' for the metamodel: the grammar compiler (textx/lang.py) is not
modelled, its output is read off the live objects.  Fails closed (pegdump.Unsupported) on anything
unexpected.  Must run with PYTHONPATH=$TEXTX_REPO.

Checker-side pure helpers: coq_mm(list) -> Coq term of type `list ninfo` (Model/Build.v).
"""
import pegdump
from pegdump import Unsupported, coq_str


def dump_mm(mm, dump):
    """dump: the pegdump.Dump of mm._parser_blueprint (dumping side, has .objs)."""
    from textx.const import RULE_ABSTRACT, RULE_COMMON, RULE_MATCH
    tnames = {RULE_COMMON: "common", RULE_ABSTRACT: "abstract", RULE_MATCH: "match"}
    out = []
    for nid, n in enumerate(dump.objs):
        d = dump.nodes[nid]
        if d["kind"] in ("KStr", "KRegex", "KEOF"):
            groups = 0
            if d["kind"] == "KRegex":
                groups = int(n.regex.groups)
            out.append({"k": "term", "rule": n.rule_name or "", "groups": groups})
            continue
        rn = n.rule_name or ""
        if rn.startswith("__asgn"):
            an = getattr(n, "_attr_name", None)
            if not isinstance(an, str):
                raise Unsupported("assignment node without _attr_name")
            out.append({"k": "asgn", "attr": an, "op": rn.split("_")[-1]})
            continue
        cls = getattr(n, "_tx_class", None)
        if not n.root or cls is None:
            out.append({"k": "other"})
            continue
        ty = getattr(cls, "_tx_type", None)
        if ty not in tnames:
            raise Unsupported("class %s has rule type %r" % (cls.__name__, ty))
        attrs = []
        for name, a in cls._tx_attrs.items():
            if name != a.name:
                raise Unsupported("attribute key differs from its name")
            if a.mult not in ("1", "0..1", "0..*", "1..*"):
                raise Unsupported("multiplicity %r" % (a.mult,))
            attrs.append({"name": a.name, "mult": a.mult, "cont": bool(a.cont), "ref": bool(a.ref),
                          "cls": a.cls.__name__, "bool": bool(a.bool_assignment)})
        out.append({"k": "rule", "type": tnames[ty], "cls": cls.__name__, "attrs": attrs,
                    "user": cls.__name__ in mm.user_classes})
    return out


# ---------------------------------------------------------------- Coq text (checker side, pure)
MULT = {"1": "M1", "0..1": "MOpt", "0..*": "MStar", "1..*": "MPlus"}
OPS = {"plain": "OpPlain", "optional": "OpOptional", "list": "OpList", "oneormore": "OpList", "zeroormore": "OpList"}
KINDS = {"common": "RCommon", "abstract": "RAbstract", "match": "RMatch"}


def coq_bool(b):
    return "true" if b else "false"


def coq_ninfo(e):
    k = e["k"]
    if k == "term":
        return "ITerm %s %d" % (coq_str(e["rule"]), e["groups"])
    if k == "asgn":
        return "IAsgn %s %s" % (coq_str(e["attr"]), OPS.get(e["op"], "OpOther"))
    if k == "rule":
        attrs = "[" + ";".join("mkAttr %s %s %s %s %s %s" % (coq_str(a["name"]), MULT[a["mult"]], coq_bool(a["cont"]),
                                                             coq_bool(a["ref"]), coq_str(a["cls"]), coq_bool(a["bool"]))
                               for a in e["attrs"]) + "]"
        return "IRule %s %s %s" % (KINDS[e["type"]], coq_str(e["cls"]), attrs)
    return "IOther"


def coq_mm(mm):
    return "[" + ";\n  ".join(coq_ninfo(e) for e in mm) + "]"


def group_table(dump, mminfo, text):
    """[[oid, pos, gstart, glen]] for regex terminals with exactly one group: span of group(1) of the
    match at pos (absent when the group did not participate).  Dumping side."""
    import re
    tbl = []
    for nid, e in enumerate(mminfo):
        d = dump.nodes[nid]
        if e["k"] == "term" and d["kind"] == "KRegex" and e["groups"] == 1:
            o = dump.oracles[d["oid"]]
            rx = re.compile(o[1], o[2])
            for p in range(len(text) + 1):
                m = rx.match(text, p)
                if m and m.group(1) is not None:
                    tbl.append([d["oid"], p, m.start(1), len(m.group(1))])
    return tbl


def coq_gtable(tbl):
    if not tbl:
        return "(@nil ((nat * nat) * (nat * nat)))"
    return "[" + ";".join("((%d,%d),(%d,%d))" % tuple(x) for x in tbl) + "]"
