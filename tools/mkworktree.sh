#!/bin/sh
# tools/mkworktree.sh <TAG>: private worktrees of /verif and /repo for building one property's check
# (/tmp/w/<TAG>/verif on branch w-<TAG>, /tmp/w/<TAG>/repo on branch w-<TAG>), with the Coq development built.
T="$1"; D=/tmp/w/$T; mkdir -p /tmp/w
git -C /verif worktree add -q -B "w-$T" "$D/verif" HEAD || exit 2
git -C /repo worktree add -q -B "w-$T" "$D/repo" HEAD || exit 2
cd "$D/verif" && TEXTX_REPO="$D/repo" ./setup.sh >/dev/null 2>&1
echo "$D"
