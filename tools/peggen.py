"""Structured generator of textX grammars and of inputs derived from them (shared by the PEG-core
properties).  Every random choice comes from the `Rng` passed in.  Pure (no textX import).

Grammar AST (python tuples):
    ("str", text) | ("re", index into REGEXES) | ("ref", rule name)
    ("seq", [e...]) | ("alt", [e...])
    ("rep", op, e, sep, eolterm)      op in ? * + #   sep: None | ("str", t) | ("re", i)
    ("pred", "&"|"!", e) | ("sup", e)                 e-
    ("asg", attr, op, rhs, sep, eolterm)              op in = ?= *= +=   rhs: str/re/ref
A grammar: {"rules": [(name, params: dict, body)], "comment": None | "line" | "both" | "shared"}
"""

LITS = ["a", "b", "x", "y", "q", "r", "if", "k", ";", ",", "+", "kw", "x y"]
REGEXES = [(r"\d+", ["1", "42", "7"]), (r"[a-z]+", ["ab", "x", "foo", "q"]), (r"\w+", ["a1", "zz", "x"]),
           (r"x*", ["", "x", "xx"]), (r"[ \t]*", ["", " "]), (r"[A-Z]\w*", ["Ab", "Q"]), (r"[^;\n]+", ["a b", "x"]),
           (r"\s*x", ["x", " x"])]
BASE = {"ID": ["id1", "foo", "x", "a"], "INT": ["3", "12"], "STRING": ['"s"', "'t u'"], "FLOAT": ["1.5", "2"],
        "BOOL": ["true", "0"]}
RULE_NAMES = ["Model", "A", "B", "C", "D", "E", "F"]
ATTRS = ["x", "y", "items", "name", "v", "w"]
WS_CHOICES = [" ", " \t", "\n", " \n", ""]


def quote(t):
    return "'" + t.replace("\\", "\\\\").replace("'", "\\'").replace("\n", "\\n").replace("\t", "\\t") + "'"


# ---------------------------------------------------------------- printing
def p_simple(e):
    if e[0] == "str":
        return quote(e[1])
    return "/" + REGEXES[e[1]][0].replace("/", "\\/") + "/"


def p_mods(sep, eol):
    parts = ([p_simple(sep)] if sep else []) + (["eolterm"] if eol else [])
    return "[" + " ".join(parts) + "]" if parts else ""


def p_expr(e, top=False):
    k = e[0]
    if k in ("str", "re"):
        return p_simple(e)
    if k == "ref":
        return e[1]
    if k == "seq":
        return " ".join(p_atom(x) for x in e[1])
    if k == "alt":
        s = " | ".join(p_expr(x) for x in e[1])
        return s if top else "(" + s + ")"
    if k == "rep":
        return p_group(e[2]) + e[1] + p_mods(e[3], e[4])
    if k == "pred":
        return e[1] + p_group(e[2])
    if k == "sup":
        return p_atom(e[1]) + "-"
    if k == "asg":
        rhs = p_simple(e[3]) if e[3][0] != "ref" else e[3][1]
        return "%s%s%s%s" % (e[1], e[2], rhs, p_mods(e[4], e[5]))
    raise ValueError(k)


def p_group(e):
    if e[0] in ("str", "re", "ref"):
        return p_expr(e)
    return "(" + p_expr(e, top=True) + ")"


def p_atom(e):
    if e[0] in ("seq",):
        return "(" + p_expr(e) + ")"
    if e[0] == "alt":
        return p_expr(e)
    if e[0] == "sup" or e[0] == "rep" or e[0] == "pred" or e[0] == "asg":
        return p_expr(e)
    return p_expr(e)


def p_params(params):
    parts = []
    for k, v in params.items():
        if k == "skipws":
            parts.append("skipws" if v else "noskipws")
        elif k == "ws":
            parts.append("ws=" + quote(v))
    return "[" + ", ".join(parts) + "]" if parts else ""


COMMENTS = {"line": "Comment: /\\/\\/.*?$/;", "both": "Comment: /\\/\\/.*?$/ | /\\/\\*(.|\\n)*?\\*\\//;",
            "hash": "Comment: /#.*?$/;", "shared": "Comment: CL | CB;\nCL: /\\/\\/.*?$/;\nCB: /\\/\\*(.|\\n)*?\\*\\//;"}


def grammar_text(g):
    lines = ["%s%s: %s;" % (n, p_params(pr), p_expr(b, top=True)) for n, pr, b in g["rules"]]
    if g.get("comment"):
        lines.append(COMMENTS[g["comment"]])
    return "\n".join(lines) + "\n"


# ---------------------------------------------------------------- generation
class GGen:
    def __init__(self, r, nrules, features):
        self.r = r
        self.names = RULE_NAMES[:nrules]
        self.f = features
        self.common = {}

    def simple(self):
        r = self.r
        if r.chance(0.7):
            return ("str", r.choice(LITS if r.chance(0.2) else LITS[:8]))
        return ("re", r.below(len(REGEXES)))

    def ref(self, i, guarded):
        r = self.r
        cands = list(self.names[i + 1:])
        if guarded and r.chance(0.25):
            cands += self.names[1:i + 1]
        if self.f.get("shared_comment") and r.chance(0.15):
            cands.append("CB")
        if not cands or r.chance(0.25):
            return ("ref", r.choice(list(BASE)))
        return ("ref", r.choice(cands))

    def mods(self):
        r = self.r
        sep = None
        if r.chance(0.35):
            sep = ("str", r.choice([",", ";", "+"])) if r.chance(0.8) else ("re", 4)
        eol = self.f.get("eolterm", True) and r.chance(0.2)
        return sep, eol

    def atom(self, i, depth, guarded):
        r = self.r
        c = r.weighted([("simple", 5), ("ref", 4), ("asg", 4 if self.common.get(i) else 0), ("group", 3 if depth > 0 else 0)])
        if c == "simple":
            return self.simple()
        if c == "ref":
            return self.ref(i, guarded)
        if c == "asg":
            op = r.weighted([("=", 5), ("+=", 2), ("*=", 2), ("?=", 1)])
            rhs = self.simple() if r.chance(0.35) else self.ref(i, guarded)
            sep, eol = self.mods() if op in ("+=", "*=") else (None, False)
            return ("asg", r.choice(ATTRS), op, rhs, sep, eol)
        return self.choice(i, depth - 1, guarded)

    def rep(self, i, depth, guarded):
        r = self.r
        e = self.atom(i, depth, guarded)
        c = r.weighted([("none", 10), ("?", 3), ("*", 3), ("+", 3), ("#", 1 if self.f.get("unordered", True) else 0),
                        ("&", 1), ("!", 1), ("-", 1)])
        if c == "none" or (e[0] == "asg" and c in ("&", "!", "#")):
            return e
        if c in ("&", "!"):
            return ("pred", c, e)
        if c == "-":
            return ("sup", e) if e[0] != "asg" else e
        if c == "#":
            n = r.range(2, 3)
            items = [self.rep_noun(i, depth, guarded) for _ in range(n)]
            sep, eol = self.mods()
            return ("rep", "#", ("seq", items), sep, eol)
        if c == "?":
            return ("rep", "?", e, None, False)
        sep, eol = self.mods()
        return ("rep", c, e, sep, eol)

    def rep_noun(self, i, depth, guarded):
        r = self.r
        e = self.atom(i, max(depth - 1, 0), guarded)
        if r.chance(0.3) and e[0] != "asg":
            return ("rep", "?", e, None, False)
        return e

    def seq(self, i, depth, guarded):
        r = self.r
        n = r.weighted([(1, 3), (2, 4), (3, 3), (4, 1)])
        items = []
        for _ in range(n):
            x = self.rep(i, depth, guarded)
            items.append(x)
            if x[0] == "str":
                guarded = True
        return items[0] if n == 1 else ("seq", items)

    def choice(self, i, depth, guarded):
        r = self.r
        n = r.weighted([(1, 5), (2, 4), (3, 1)])
        alts = [self.seq(i, depth, guarded) for _ in range(n)]
        later = self.names[i + 1:]
        if n >= 2 and later and self.f.get("twins", True) and r.chance(0.35):
            # "twin prefix": every alternative starts with a reference to the SAME rule, in different
            # guises (plain, suppressed `R-`, assigned `a=R`), followed by a distinguishing literal, so
            # that after backtracking the rule is attempted again at the same input position through a
            # different referencing expression (packrat caches, suppression, assignment wrappers).
            target = ("ref", r.choice(later))
            guises = r.shuffle(["sup", r.choice(["plain", "asg"])] + [r.choice(["plain", "sup", "asg"]) for _ in range(n - 2)])
            lits = r.shuffle(LITS[:8])
            new_alts = []
            for k, a in enumerate(alts):
                head = {"plain": target, "sup": ("sup", target),
                        "asg": ("asg", r.choice(ATTRS), "=", target, None, False)}[guises[k]]
                rest = a[1] if a[0] == "seq" else [a]
                new_alts.append(("seq", [head, ("str", lits[k])] + (rest if r.chance(0.5) else [])))
            alts = new_alts
        return alts[0] if n == 1 else ("alt", alts)


def gen_grammar(r, features=None):
    """features: dict(modifiers=bool, eolterm=bool, comment=bool, unordered=bool, context_clash=bool, twins=bool)"""
    f = dict(modifiers=True, eolterm=True, comment=True, unordered=True, context_clash=False, twins=True)
    f.update(features or {})
    nrules = r.range(2, 6)
    comment = None
    if f["comment"] and r.chance(0.45):
        comment = r.weighted([("line", 3), ("both", 3), ("hash", 1), ("shared", 2)])
    f["shared_comment"] = comment == "shared"
    gg = GGen(r, nrules, f)
    for i in range(nrules):
        gg.common[i] = r.chance(0.6)
    rules = []
    for i, name in enumerate(gg.names):
        params = {}
        if f["modifiers"] and i > 0 and r.chance(0.35):
            c = r.weighted([("noskipws", 4), ("skipws", 2), ("ws", 3)])
            if c == "ws":
                params["ws"] = r.choice(WS_CHOICES)
                if r.chance(0.3):
                    params["skipws"] = True
            else:
                params["skipws"] = c == "skipws"
        body = gg.choice(i, 2, False)
        rules.append((name, params, body))
    if f["context_clash"] and nrules >= 3:
        # the C19 shape: two alternatives of the root reach the same rule at the same position under
        # different whitespace contexts
        shared = gg.names[-1]
        a, b = gg.names[1], gg.names[2] if nrules > 3 else gg.names[1]
        t1, t2 = r.choice(LITS[:8]), r.choice(LITS[:8])
        pa = r.choice([{"skipws": False}, {"ws": " "}, {"ws": ""}, {"skipws": False}])
        def use(t):
            c = r.weighted([("asg", 4), ("plain", 4), ("sup", 2)])
            head = {"asg": ("asg", "x", "=", ("ref", shared), None, False), "plain": ("ref", shared),
                    "sup": ("sup", ("ref", shared))}[c]
            return ("seq", [head, ("str", t)])
        body_a, body_b = use(t1), use(t2)
        new = [("Model", {}, ("alt", [("asg", "a", "=", ("ref", "CA"), None, False), ("asg", "b", "=", ("ref", "CB2"), None, False)])),
               ("CA", pa, body_a), ("CB2", {} if r.chance(0.7) else {"skipws": True}, body_b)]
        rules = new + [x for x in rules[1:]]
        if r.chance(0.6):
            rules[-1] = (shared, rules[-1][1] if r.chance(0.3) else {}, ("seq", [("str", r.choice(["x", "a"])), ("str", r.choice(["y", "b"]))]))
    return {"rules": repair_loops(rules), "comment": comment}


# ---------------------------------------------------------------- avoiding real infinite loops
# Arpeggio's ZeroOrMore/OneOrMore loop while the element result is truthy; an OrderedChoice/Optional
# wraps an empty list (from a repetition that matched nothing) or an empty NonTerminal into a truthy
# one-element list, so `(('y'*)?)*` or `('y'* | 'b')*` never terminate in the real interpreter
# (the model reports Abort 0).  The generator rewrites such repetitions to `?`.
def _analyse(rules):
    empty_nt = {n: False for n, _, _ in rules}

    def fnn(e):       # may yield [] / empty NonTerminal (falsy but not None) without failing
        k = e[0]
        if k == "rep":
            return e[1] in "*+"
        if k == "ref":
            return empty_nt.get(e[1], False)
        if k == "asg":
            return e[2] in ("*=", "+=")
        return False

    def met(e):       # may be truthy without consuming input
        k = e[0]
        if k == "seq":
            return any(met(x) for x in e[1])
        if k == "alt":
            return any(met(x) or fnn(x) for x in e[1])
        if k == "rep":
            if e[1] == "?":
                return met(e[2]) or fnn(e[2])
            if e[1] == "#":
                return met(e[2])
            return False
        return False

    for _ in range(len(rules) + 1):
        for n, _, b in rules:
            empty_nt[n] = met(b)
    return met


def repair_loops(rules):
    for _ in range(4):
        met = _analyse(rules)
        changed = [False]

        def fix(e):
            k = e[0]
            if k in ("seq", "alt"):
                return (k, [fix(x) for x in e[1]])
            if k == "rep":
                x = fix(e[2])
                if e[1] in "*+" and met(x):
                    changed[0] = True
                    return ("rep", "?", x, None, False)
                return ("rep", e[1], x, e[3], e[4])
            if k == "pred":
                return ("pred", e[1], fix(e[2]))
            if k == "sup":
                return ("sup", fix(e[1]))
            return e
        rules = [(n, p, fix(b)) for n, p, b in rules]
        if not changed[0]:
            break
    return rules


# ---------------------------------------------------------------- derivation of inputs
class Deriver:
    def __init__(self, r, g):
        self.r = r
        self.rules = {n: (p, b) for n, p, b in g["rules"]}
        self.comment = g.get("comment")
        self.budget = 40

    def sample_simple(self, e):
        if e[0] == "str":
            return e[1]
        return self.r.choice(REGEXES[e[1]][1])

    def derive(self, e, depth, out, ctx):
        r = self.r
        self.budget -= 1
        k = e[0]
        if k in ("str", "re"):
            out.append((self.sample_simple(e), ctx))
        elif k == "ref":
            n = e[1]
            if n in BASE:
                out.append((r.choice(BASE[n]), ctx))
            elif n == "CB":
                out.append(("/* c */", ctx))
            elif n in self.rules:
                if depth <= 0 or self.budget <= 0:
                    out.append((r.choice(["a", "x"]), ctx))
                else:
                    p, b = self.rules[n]
                    c2 = dict(ctx)
                    c2.update(p)
                    self.derive(b, depth - 1, out, c2)
        elif k == "seq":
            for x in e[1]:
                self.derive(x, depth, out, ctx)
        elif k == "alt":
            self.derive(r.choice(e[1]), depth, out, ctx)
        elif k == "rep":
            op, x, sep, eol = e[1], e[2], e[3], e[4]
            if op == "?":
                if r.chance(0.6):
                    self.derive(x, depth, out, ctx)
            elif op == "#":
                items = r.shuffle(x[1]) if x[0] == "seq" else [x]
                for j, it in enumerate(items):
                    if j and sep:
                        out.append((self.sample_simple(sep), ctx))
                    self.derive(it, depth, out, ctx)
            else:
                n = r.weighted([(0, 2), (1, 4), (2, 3), (3, 1)])
                if op == "+":
                    n = max(n, 1)
                for j in range(n):
                    if j and sep:
                        out.append((self.sample_simple(sep), ctx))
                    self.derive(x, depth, out, ctx)
        elif k == "pred":
            pass
        elif k == "sup":
            self.derive(e[1], depth, out, ctx)
        elif k == "asg":
            op = e[2]
            if op == "?=":
                if r.chance(0.5):
                    self.derive(e[3], depth, out, ctx)
            elif op == "=":
                self.derive(e[3], depth, out, ctx)
            else:
                self.derive(("rep", "*" if op == "*=" else "+", e[3], e[4], e[5]), depth, out, ctx)

    def glue(self, ctx):
        r = self.r
        skip = ctx.get("skipws", True)
        ws = ctx.get("ws", "\t\n\r ")
        if not skip or not ws:
            return "" if r.chance(0.8) else " "
        c = r.weighted([("one", 6), ("none", 2), ("many", 2), ("nl", 1), ("cmt", 2 if self.comment else 0)])
        if c == "one":
            return r.choice(ws)
        if c == "none":
            return ""
        if c == "many":
            return "".join(r.choice(ws) for _ in range(r.range(2, 3)))
        if c == "nl":
            return "\n"
        if self.comment == "hash":
            return r.choice([" # c\n", "# c\n", " #\n "])
        if self.comment == "line":
            return r.choice([" // c\n", "// c\n", " //\n "])
        return r.choice([" // c\n", "/* c */", " /* a\n b */ ", "/**/", " // x\n  // y\n"])


def gen_input(r, g, gcfg=None):
    """One input: a derivation of the grammar rendered with a random layout, possibly mutated."""
    d = Deriver(r, g)
    toks = []
    base = {"skipws": True, "ws": "\t\n\r "}
    base.update(gcfg or {})
    root = g["rules"][0]
    d.derive(root[2], 4, toks, base)
    mode = r.weighted([("valid", 5), ("tokmut", 3), ("charmut", 2)])
    if mode == "tokmut" and toks:
        c = r.weighted([("drop", 3), ("dup", 2), ("swap", 2), ("ins", 2), ("trunc", 1)])
        i = r.below(len(toks))
        if c == "drop":
            toks = toks[:i] + toks[i + 1:]
        elif c == "dup":
            toks = toks[:i] + [toks[i]] + toks[i:]
        elif c == "swap" and len(toks) > 1:
            j = r.below(len(toks))
            toks[i], toks[j] = toks[j], toks[i]
        elif c == "ins":
            toks = toks[:i] + [(r.choice(LITS[:8] + ["1", "zz"]), toks[i][1])] + toks[i:]
        else:
            toks = toks[:i]
    parts = []
    if r.chance(0.2):
        parts.append(d.glue(base))
    for j, (t, ctx) in enumerate(toks):
        if j:
            parts.append(d.glue(ctx if r.chance(0.7) else base))
        parts.append(t)
    if r.chance(0.25):
        parts.append(d.glue(base))
    s = "".join(parts)
    if mode == "charmut" and s:
        c = r.weighted([("del", 3), ("ins", 3), ("rep", 2)])
        i = r.below(len(s))
        ch = r.choice(" \n\txyaq1;,/")
        if c == "del":
            s = s[:i] + s[i + 1:]
        elif c == "ins":
            s = s[:i] + ch + s[i:]
        else:
            s = s[:i] + ch + s[i + 1:]
    return s[:60]
