"""Merge /tmp/mut/result.log (written by tools/mutall.sh) into seeded/RESULTS.json."""
import json, os, re, subprocess
p = "/verif/seeded/RESULTS.json"
res = json.load(open(p)) if os.path.exists(p) else {}
head = subprocess.run(["git", "-C", "/tmp/mut/verif", "rev-parse", "--short", "HEAD"], capture_output=True, text=True).stdout.strip()
for line in open("/tmp/mut/result.log"):
    f = line.split()
    if len(f) < 3 or f[0] == "done":
        continue
    tag, pid, st = f[0], f[1], f[2]
    if st == "detected":
        no_input = "no-failing-input-found" in line
        log = open("/tmp/mut/run_%s.log" % tag).read() if os.path.exists("/tmp/mut/run_%s.log" % tag) else ""
        nfail = len(re.findall(r"^VIOLATION .*fail_\d+\.json", log, re.M))
        res[tag] = {"result": "detected (exit 1)" + (", no-failing-input-found" if no_input and not nfail else ", replay with a concrete failing input"),
                    "by": ("proof obligation / translator / correspondence" if no_input and not nfail else "property oracle on the implementation (+ correspondence)"),
                    "verif_commit": head}
    elif st == "MISSED":
        res[tag] = {"result": "MISSED (exit 0)", "by": "-", "verif_commit": head}
    elif st == "noapply":
        res.setdefault(tag, {"result": "patch does not apply to main (to be rebased)", "by": "-", "verif_commit": head})
json.dump(res, open(p, "w"), indent=1, sort_keys=True)
print(len(res), "entries")
