"""Fail (exit 1) if any .v file of the development declares an assumption: Axiom/Parameter/Conjecture anywhere,
Variable/Hypothesis/Context outside a Section, or contains Admitted/admit."""
import glob, re, sys
bad = []
for f in sorted(glob.glob("coq/*/*.v")):
    txt = re.sub(r"\(\*.*?\*\)", "", open(f).read(), flags=re.S)
    depth = 0
    for ln in txt.split("\n"):
        s = ln.strip()
        if re.match(r"Section\s+\w+", s):
            depth += 1
        elif re.match(r"End\s+\w+", s) and depth > 0:
            depth -= 1
        if re.match(r"(Local\s+|Global\s+)?(Axioms?|Parameters?|Conjecture)\b", s):
            bad.append((f, s[:90]))
        elif depth == 0 and re.match(r"(Local\s+|Global\s+)?(Variables?|Hypothes[ie]s|Context)\b", s):
            bad.append((f, s[:90]))
        if re.search(r"\b(Admitted|admit|Admit Obligations)\b", s):
            bad.append((f, s[:90]))
for b in bad:
    print("assumption declared: %s: %s" % b)
sys.exit(1 if bad else 0)
