"""C29 — graph exports (DOT for models and metamodels, PlantUML for metamodels) are well-formed for any input."""
import json
import os
from vt import core
from vt.main import decide
from translate import export_tr
from props import c29_dot as D
from props import c29_lang as L

HOSTILE = ['"', "\\", "{", "}", "|", "<", ">", "\n", "?", "'", "a", " ", "\u00e9", ":", ";", "[", "]", "/", "#", "&", "\t", "%", "l", "N"]
CORE8 = ['"', "\\", "{", "}", "|", "<", "\n", "a"]
BENIGN = ["alpha", "b2", "x_y", "Main", "t", "caf\u00e9"]


def gen_value(r):
    k = r.weighted([("hostile", 6), ("benign", 2), ("long", 2), ("empty", 1), ("edge", 2)])
    if k == "benign":
        return r.choice(BENIGN)
    if k == "empty":
        return ""
    if k == "long":      # around the truncation limit of dot_repr, specials near the cut
        n = r.range(15, 26)
        s = [r.choice("abcdefgh") for _ in range(n)]
        for _ in range(r.range(1, 4)):
            s[r.range(max(0, n - 10), n - 1)] = r.choice(HOSTILE[:9])
        return "".join(s)
    if k == "edge":      # a special character first or last
        mid = "".join(r.choice(HOSTILE) for _ in range(r.range(0, 3)))
        return r.choice([r.choice(HOSTILE[:9]) + mid, mid + r.choice(HOSTILE[:9]), "\\" * r.range(1, 3) + '"', '"' + "\\" * r.range(1, 3)])
    return "".join(r.choice(HOSTILE) for _ in range(r.range(1, 6)))


# ------------------------------------------------------------------ model cases
G1 = """Model: things+=Thing;
Thing: 'thing' name=STRING ('title' title=STRING)? ('vals' vals+=STRING[','])? ('nums' nums+=INT[','])? ('n' n=INT)? ('f' f=FLOAT)?
       (flag?='flag')? ('mixed' mixed+=Item)? ('ref' ref=[Thing|STRING])? ('refs' refs+=[Thing|STRING][','])? ('kid' kid=Sub)? ';';
Item: Sub | STRING | INT | FLOAT;
Sub: 'sub' name=STRING ('v' v=STRING)?;
"""
G2 = """Doc: 'doc' title=STRING sections+=Section;
Section: 'section' label=STRING '{' entries*=Entry '}';
Entry: Para | Section;
Para: 'para' text=STRING ('tags' tags+=STRING[','])?;
"""
G3 = """Cfg: entries+=E;
E: 'e' name=INT ('s' s=STRING)? ('b' b=BOOL)? ('mix' mix+=V)? ('one' one=V)? ';';
V: W | STRING | BOOL | FLOAT;
W: 'w' name=STRING;
"""
FILE_NAMES = ["m.mdl", 'a"b.mdl', "c{d|e}.mdl", "x<y>.mdl", "back\\slash.mdl", "sp ace?.mdl", "q'r.mdl", "end\\"]


class ModelGen:
    def __init__(self, r, dup=0.0, cross=False):
        self.r = r
        self.values = []
        self.cross = cross      # references may name things of the other files of the case
        self.allnames = []
        self.dup = dup      # chance to reuse an earlier value: distinct objects with equal attribute values

    def val(self):
        if self.values and self.r.chance(self.dup):
            return '"@%d"' % self.r.below(len(self.values))
        self.values.append(gen_value(self.r))
        return '"@%d"' % (len(self.values) - 1)

    def fresh(self):
        self.values.append(gen_value(self.r))
        return '"@%d"' % (len(self.values) - 1)

    def g1(self):
        r = self.r
        n = r.range(1, 4)
        names = []
        out = []
        for i in range(n):
            nm = self.fresh()        # reference targets: the placeholder names must stay unique
            names.append(nm)
            self.allnames.append(nm)
            if self.cross:
                names = self.allnames
            parts = ["thing", nm]
            if r.chance(0.4):
                parts += ["title", self.val()]
            if r.chance(0.5):
                parts += ["vals", ",".join(self.val() for _ in range(r.range(1, 3)))]
            if r.chance(0.3):
                parts += ["nums", ",".join(str(r.range(-5, 99)) for _ in range(r.range(1, 3)))]
            if r.chance(0.3):
                parts += ["n", str(r.range(-3, 1000))]
            if r.chance(0.3):
                parts += ["f", r.choice(["1.5", "-0.25", "1e20", "3.0e-7", "0.0"])]
            if r.chance(0.3):
                parts += ["flag"]
            if r.chance(0.6):
                items = []
                for _ in range(r.range(1, 4)):
                    k = r.weighted([("sub", 3), ("str", 4), ("int", 1), ("float", 1)])
                    if k == "sub":
                        items.append("sub " + self.val() + (" v " + self.val() if r.chance(0.4) else ""))
                    elif k == "str":
                        items.append(self.val())
                    elif k == "int":
                        items.append(str(r.range(0, 50)))
                    else:
                        items.append(r.choice(["2.5", "0.125"]))
                parts += ["mixed", " ".join(items)]
            if r.chance(0.4):
                parts += ["ref", r.choice(names)]
            if r.chance(0.25):
                parts += ["refs", ",".join(r.choice(names) for _ in range(r.range(1, 2)))]
            if r.chance(0.3):
                parts += ["kid", "sub", self.val()]
            out.append(" ".join(parts) + " ;")
        return "\n".join(out)

    def g2(self, depth=0):
        r = self.r
        if depth == 0:
            return "doc " + self.val() + "\n" + "\n".join(self.g2(1) for _ in range(r.range(1, 2)))
        ents = []
        for _ in range(r.range(0, 3 if depth < 3 else 1)):
            if r.chance(0.3) and depth < 3:
                ents.append(self.g2(depth + 1))
            else:
                ents.append("para " + self.val() + (" tags " + ",".join(self.val() for _ in range(r.range(1, 3))) if r.chance(0.5) else ""))
        return "section " + self.val() + " { " + "\n".join(ents) + " }"

    def g3(self):
        r = self.r
        out = []
        for i in range(r.range(1, 3)):
            parts = ["e", str(r.range(0, 9999))]
            if r.chance(0.5):
                parts += ["s", self.val()]
            if r.chance(0.4):
                parts += ["b", r.choice(["true", "false"])]
            if r.chance(0.7):
                items = []
                for _ in range(r.range(1, 4)):
                    k = r.weighted([("w", 3), ("str", 4), ("bool", 1), ("float", 1)])
                    items.append({"w": "w " + self.val(), "str": self.val(), "bool": r.choice(["true", "false"]), "float": r.choice(["2.5", "7.25"])}[k]
                                 if k != "w" and k != "str" else ("w " + self.val() if k == "w" else self.val()))
                parts += ["mix", " ".join(items)]
            if r.chance(0.3):
                parts += ["one", r.choice(["w " + self.val(), self.val(), "true", "2.5"])]
            out.append(" ".join(parts) + " ;")
        return "\n".join(out)


# rules that may get a user class (classes=[...]); the first is the root rule
USER_RULES = {1: ["Model", "Thing", "Sub"], 2: ["Doc", "Section", "Para"], 3: ["Cfg", "E", "W"]}
SHAPES = [("value", 4), ("const", 2), ("unhashable", 2), ("falsy_len", 1), ("falsy_bool", 1), ("strrepr", 1), ("plain", 1)]


def gen_model_case(r, i):
    which = r.weighted([(1, 5), (2, 2), (3, 3)])
    mode = r.weighted([("single", 5), ("repo", 3), ("generator", 2), ("globalrepo", 2)])
    nfiles = r.range(1, 3) if mode in ("repo", "globalrepo") else 1
    cross = mode == "globalrepo" and which == 1
    classes = []
    if r.chance(0.4):
        # user classes whose __eq__/__hash__/__bool__/__str__ differ from object's: the export must go by identity
        rules = USER_RULES[which]
        for rule in r.sample(rules, r.range(1, len(rules))):
            shape = r.weighted(SHAPES)      # the root rule too: a falsy root model must still be exported
            classes.append({"rule": rule, "shape": shape})
    g = ModelGen(r, dup=0.5 if classes else 0.0, cross=cross)
    files = []
    names = r.shuffle(FILE_NAMES)
    for k in range(nfiles):
        text = {1: g.g1, 2: g.g2, 3: g.g3}[which]()
        files.append({"name": names[k] if (mode != "single" or r.chance(0.5)) else "m.mdl", "text": text})
    case = {"kind": "model", "grammar": {1: G1, 2: G2, 3: G3}[which], "files": files, "values": g.values, "mode": mode}
    if classes:
        case["classes"] = classes
    if cross:
        case["cross"] = True
    return case


# ------------------------------------------------------------------ metamodel cases
RULE_NAMES = ["Model", "Thing", "Item", "Entry", "Node_1", "Leaf", "Gr\u00fcn", "X", "Port", "Sub2", "Kind", "Ref"]
LITS = ["'a{'", "'\"'", "'<|>'", "'}'", "'b\\\\n'", "'kw'", "'?'", "'&<'", "'[x]'", "'->'"]
REGEXES = ["/[a-z]+/", "/\\{[^}]*\\}/", "/\"[^\"]*\"/", "/<\\w+>/", "/a|b/", "/\\d+\\?/", "/&\\w+;/", "/\\\\\\w/"]
BASE = ["ID", "STRING", "INT", "FLOAT", "BOOL", "NUMBER", "STRICTFLOAT"]


def gen_metamodel_case(r, i):
    n = r.range(2, 7)
    names = r.shuffle(RULE_NAMES)[:n]
    kinds = ["common"] + [r.weighted([("common", 6), ("abstract", 2), ("match", 2)]) for _ in range(n - 1)]
    rules = []
    for k, (nm, kind) in enumerate(zip(names, kinds)):
        later_obj = [names[j] for j in range(k + 1, n) if kinds[j] != "match"]
        if kind == "abstract" and not later_obj:
            kind = kinds[k] = "common"
        if kind == "match":
            alts = [r.choice(LITS + REGEXES + BASE[:3]) for _ in range(r.range(1, 3))]
            rules.append("%s: %s;" % (nm, " | ".join(alts)))
        elif kind == "abstract":
            alts = r.sample(later_obj, r.range(1, min(3, len(later_obj))))
            if r.chance(0.2):
                alts.append(r.choice(["STRING", "INT"]))
            rules.append("%s: %s;" % (nm, " | ".join(alts)))
        else:
            parts = [r.choice(LITS)]
            if r.chance(0.7):
                parts.append("name=ID")
            used = {"name"}
            for _ in range(r.range(0, 4)):
                an = r.choice(["a", "b_1", "items", "ref", "val", "opt", "flag", "k\u00e4se"])
                if an in used:
                    continue
                used.add(an)
                others = [x for x in names if x != nm]
                objs = [names[j] for j in range(n) if kinds[j] != "match" or j > k]   # kinds of later rules are not fixed yet: any
                tk = r.weighted([("base", 4), ("rule", 4), ("ref", 3), ("bool", 1)])
                op = r.choice(["=", "+=", "*=", "?="]) if tk != "bool" else "?="
                if tk == "bool" or op == "?=":
                    parts.append("%s?=%s" % (an, r.choice(LITS)))
                elif tk == "base" or not others:
                    t = r.choice(BASE + ["OBJECT"])
                    parts.append("%s%s%s%s" % (an, op, t, r.choice(["", "", "?"]) if op == "=" else ""))
                elif tk == "rule":
                    parts.append("%s%s%s" % (an, op, r.choice(others)))
                else:
                    cands = [names[j] for j in range(n) if kinds[j] in ("common", "abstract") and (j <= k or True)]
                    cands = [c for j, c in enumerate(names) if kinds[j] != "match"]
                    parts.append("%s%s[%s]" % (an, op, r.choice(cands)))
            rules.append("%s: %s;" % (nm, " ".join(parts)))
    mode = r.weighted([("dot", 4), ("plantuml", 3), ("gen_dot", 2), ("gen_plantuml", 2)])
    case = {"kind": "metamodel", "grammar": "\n".join(rules) + "\n", "mode": mode}
    if mode in ("plantuml", "gen_plantuml") and r.chance(0.4):
        case["linetype"] = r.choice(["ortho", "polyline"])
    return case


# ------------------------------------------------------------------ the property, on the implementation's output
def reachable(objects, roots):
    seen, stack = [], list(reversed(roots))
    mark = set()
    while stack:
        k = stack.pop()
        if k in mark or k < 0:
            continue
        mark.add(k)
        seen.append(k)
        for a in objects[k]["attrs"]:
            v = a["val"]
            vs = v["v"] if v["t"] == "list" else [v]
            for x in vs:
                if x["t"] == "obj":
                    stack.append(x["id"])
    return seen


def check_label(label):
    fields = D.parse_record(label)
    if len(fields) != 1 or not isinstance(fields[0], list) or len(fields[0]) != 2 or not all(isinstance(x, str) for x in fields[0]):
        raise D.DotError("label is not a record of two fields: %r" % (fields,))
    return fields[0]


def oracle_model(case, o):
    g = D.parse_dot(o["text"])
    want = {str(7000000 + k) for k in reachable(o["objects"], o["roots"])}
    known = {str(7000000 + k) for k in range(len(o["objects"]))}
    seen = {}
    for kind, nid, attrs in g.nodes:
        if not attrs:
            if nid not in known:
                return "a bare node statement %r names no model object" % nid
            continue
        seen[nid] = seen.get(nid, 0) + 1
        lab = [v for k, v, _ in attrs if k == "label"]
        if len(lab) != 1:
            return "node %s has no single label" % nid
        check_label(lab[0])
    if set(seen) != want:
        return "node statements %s differ from the model objects %s" % (sorted(set(seen) - want)[:3], sorted(want - set(seen))[:3])
    if any(c != 1 for c in seen.values()):
        return "an object has several node statements"
    for ends, attrs in g.edges:
        if len(ends) != 2 or ends[0][1] not in want:
            return "edge from something that is no exported object: %r" % (ends,)
        if ends[1][0] == "id" and ends[1][1] not in want:
            return "edge to an unknown node %r" % (ends[1],)
    nprim_edges = sum(1 for ends, _ in g.edges if ends[1][0] == "qid")
    exp = 0
    for k in reachable(o["objects"], o["roots"]):
        for a in o["objects"][k]["attrs"]:
            v = a["val"]
            if v["t"] == "list" and a["mult"] in ("1..*", "0..*") and not all(x["t"] == "prim" for x in v["v"]):
                exp += sum(1 for x in v["v"] if x["t"] == "prim")
    if nprim_edges != exp:
        return "%d edges to primitive list members, expected %d" % (nprim_edges, exp)
    return None


def oracle_metamodel_dot(case, o):
    g = D.parse_dot(o["text"])
    want = {str(7000000 + k): c for k, c in enumerate(o["classes"]) if c["typ"] in ("common", "abstract") and not c["builtin"]}
    seen = {}
    for kind, nid, attrs in g.nodes:
        lab = [(v, vk) for k, v, vk in attrs if k == "label"]
        if nid == "match_rules":
            if len(lab) != 1 or lab[0][1] != "html":
                return "match_rules table is not an HTML label"
            continue
        seen[nid] = seen.get(nid, 0) + 1
        if len(lab) != 1:
            return "node %s has no single label" % nid
        f = check_label(lab[0][0])
        c = want.get(nid)
        if c is not None and f[0].strip() != ("*" if c["typ"] == "abstract" else "") + c["name"]:
            return "node %s is labelled %r, class is %s" % (nid, f[0], c["name"])
    missing = [want[k]["name"] for k in want if k not in seen]
    if missing:
        return "no node for class(es) %s" % missing[:3]
    for ends, attrs in g.edges:
        if any(e[1] not in seen for e in ends):
            return "edge %s joins a class without a node statement" % ([e[1] for e in ends],)
    if any(seen[k] != 1 for k in want):
        return "a class has several node statements"
    return None


def oracle_plantuml(case, o):
    classes = D.read_plantuml(o["text"])
    want = [c["fqn"] for c in o["classes"] if c["typ"] in ("common", "abstract") and not c["builtin"]]
    # a built-in abstract class (OBJECT) is declared where an attribute has that type
    extra_ok = {c["fqn"] for c in o["classes"] if c["builtin"] and c["typ"] != "match"
                and any(a["cls"] == c["name"] for k in o["classes"] if not k["builtin"] for a in k["attrs"])}
    if sorted(x for x in classes if x not in extra_ok) != sorted(want):
        return "declared classes %s differ from the metamodel's %s" % (sorted(classes), sorted(want))
    return None


def oracle_escape(s, e, rp):
    for what, t in (("dot_escape", e), ("dot_repr", rp)):
        try:
            toks = D.tokenize('"' + t + '" x')
        except D.DotError as ex:
            return "%s(%r) = %r does not stay one quoted string (%s)" % (what, s, t, ex)
        if len(toks) != 2 or toks[0][0] != "qid" or toks[1][:2] != ("id", "x"):
            return "%s(%r) = %r does not stay one quoted string" % (what, s, t)
        try:
            f = D.parse_record("{" + t + "|y}")
        except D.DotError as ex:
            return "%s(%r) = %r changes the structure of a record label (%s)" % (what, s, t, ex)
        if len(f) != 1 or not isinstance(f[0], list) or len(f[0]) != 2 or f[0][1] != "y":
            return "%s(%r) = %r changes the structure of a record label" % (what, s, t)
    return None


# ------------------------------------------------------------------ the dumped object graph as a Coq term
def cs(s):
    """a text as a Coq string literal decoded inside Coq (elaborating long lists of N literals is slow)"""
    return '(dec "%s")' % core.canon_text(s)


def coq_prim(v):
    return "(PStr %s)" % cs(v["s"]) if v["str"] else "(POther %s %s)" % (cs(v["ty"]), cs(v["s"]))


def coq_val(v, item=False):
    if v["t"] == "none":
        return "INone" if item else "VNone"
    if v["t"] == "prim":
        return "(%s %s)" % ("IPrim" if item else "VPrim", coq_prim(v))
    if v["t"] == "obj":
        return "(%s %d%%nat)" % ("IObj" if item else "VObj", v["id"])
    return "(VList %s)" % core.coq_list([coq_val(x, True) for x in v["v"]])


def coq_store(objects):
    objs = []
    for o in objects:
        attrs = ["(mkAttr %s %s %s %s %s)" % (cs(a["name"]), core.coq_bool(a["cont"]), core.coq_bool(a["mult"] in ("1", "1..*")),
                                             core.coq_bool(a["mult"] in ("1..*", "0..*")), coq_val(a["val"])) for a in o["attrs"]]
        objs.append("(mkObj %s %s)" % (cs(o["cls"]), core.coq_list(attrs)))
    return core.coq_list(objs)


def walk_expr(o):
    """the modelled text of model_export: single model, or the repository path with one subgraph block per model"""
    if o.get("repo_path"):
        roots = core.coq_list(["(%d%%nat, %s)" % (k, cs(fn)) for k, fn in zip(o["roots"], o["root_files"])])
        return "show_str (export_repo_doc %s export_header %s)" % (coq_store(o["objects"]), roots)
    return "show_str (export_doc %s export_header %d%%nat)" % (coq_store(o["objects"]), o["roots"][0])


def coq_classes(classes):
    kinds = {"common": "KCommon", "abstract": "KAbstract", "match": "KMatch"}
    mults = {"1": "M1", "0..1": "M01", "0..*": "M0s", "1..*": "M1s"}
    out = []
    for c in classes:
        attrs = ["(mkMAttr %s %d%%nat %s %s %s)" % (cs(a["name"]), a["clsid"], mults[a["mult"]], core.coq_bool(a["cont"]), core.coq_bool(a["ref"])) for a in c["attrs"]]
        out.append("(mkMCls %s %s %s %s %s)" % (cs(c["name"]), cs(c["fqn"]), kinds[c["typ"]], core.coq_list(attrs), core.coq_list(["%d%%nat" % j for j in c["inh_by"]])))
    return core.coq_list(out)


def coq_rows(rows):
    return core.coq_list(["(%s, %s)" % (cs(n), cs(t)) for n, t in rows])


def meta_expr(c, o):
    cl = coq_classes(o["classes"])
    if c["mode"] in ("dot", "gen_dot"):
        doc = "mm_dot_doc %s %s" % (cl, coq_rows(o["rows"]))
        hyps = "wf_mm %s && names_ok %s" % (cl, cl)
    else:
        lt = "(Some %s)" % cs(c["linetype"]) if c.get("linetype") else "None"
        doc = "mm_pu_doc %s %s %s" % (cl, lt, coq_rows(o["rows"]))
        hyps = "wf_mm %s && names_ok %s && rows_ok %s && linetype_ok %s" % (cl, cl, coq_rows(o["rows"]), lt)
    # the hypotheses of the metamodel theorems, evaluated on the dumped class list, then the modelled text
    return "String.append (show_bool (%s)%%bool) (show_str (%s))" % (hyps, doc)


WALK_IMPORTS = """From TxV Require Import Core.Base Core.Show Model.ExportDefs Gen.SrcExport Model.Export Model.ExportWalk Model.ExportMeta.
Open Scope string_scope.
(* inverse of show_str: printable characters stand for themselves, backslash <decimal> ; for the others *)
Fixpoint dec_go (s : string) (acc : option N) : list N :=
  match s with
  | EmptyString => []
  | String a s' =>
      let c := Ascii.N_of_ascii a in
      match acc with
      | None => if N.eqb c 92 then dec_go s' (Some 0%N) else c :: dec_go s' None
      | Some n => if N.eqb c 59 then n :: dec_go s' None else dec_go s' (Some (n * 10 + (c - 48))%N)
      end
  end.
Definition dec (s : string) : list N := dec_go s None."""


def all_strings(alpha, maxlen):
    out = [""]
    layer = [""]
    for _ in range(maxlen):
        layer = [p + c for p in layer for c in alpha]
        out += layer
    return out


ESC_DEF = """Definition esc_case (s : list N) : string := show_str (dot_escape s) ++ "|R|" ++ show_str (dot_repr_str s)."""


def run(chk):
    chk.prove([export_tr.translate])
    thorough = chk.thorough
    failures, disagreements = [], []

    # ---- dot_escape / dot_repr on strings: implementation vs Coq model, and the property on the implementation
    strings = all_strings(CORE8, 4 if thorough else 3)
    nrand = 1500 if thorough else 300
    for i in range(nrand):
        strings.append(gen_value(chk.rng.split("s%d" % i)))
    corpus = os.path.join(core.VERIF, "corpus", "C29", "strings.json")
    if os.path.exists(corpus):
        strings = json.load(open(corpus)) + strings
    chunks = [strings[i::core.NPROC] for i in range(core.NPROC)]
    outs = core.run_impl_parallel("c29", [{"cases": [{"kind": "escape", "strings": ch}]} for ch in chunks])
    impl = {}
    for ch, o in zip(chunks, outs):
        if o[0].get("exc"):
            raise RuntimeError("escape runner failed: " + o[0]["exc"])
        for s, e, rp in zip(ch, o[0]["escape"], o[0]["repr"]):
            impl[s] = (e, rp)
    # ---- whole exports
    nm, nmm = (420, 180) if thorough else (130, 60)
    cases = []
    cdir = os.path.join(core.VERIF, "corpus", "C29")
    for f in sorted(os.listdir(cdir)) if os.path.isdir(cdir) else []:
        if f.startswith("case_") and f.endswith(".json"):
            cases.append(json.load(open(os.path.join(cdir, f))))
    for i in range(nm):
        cases.append(gen_model_case(chk.rng.split("m%d" % i), i))
    for i in range(nmm):
        cases.append(gen_metamodel_case(chk.rng.split("g%d" % i), i))
    chunks = [cases[i::core.NPROC] for i in range(core.NPROC)]
    chunks = [c for c in chunks if c]
    outs = core.run_impl_parallel("c29", [{"cases": ch} for ch in chunks])
    try:
        docs = L.Docs()
    except Exception as ex:     # the translator failed (already recorded by chk.prove): no template language to match against
        docs = None
        disagreements.append({"case": "template language", "model": "translator failed: %s" % ex})
    walk, metas = [], []
    for ch, os_ in zip(chunks, outs):
        for c, o in zip(ch, os_):
            kind = c["kind"] + ":" + c.get("mode", "")
            if c["kind"] == "model" and not o.get("exc") and not o.get("build_exc") and all(
                    x["t"] != "obj" or x["id"] >= 0 for ob in o["objects"] for a in ob["attrs"] for x in (a["val"]["v"] if a["val"]["t"] == "list" else [a["val"]])):
                if len(walk) < (400 if thorough else 150):
                    walk.append((c, o))
            if c["kind"] == "metamodel" and not o.get("exc") and all(a["clsid"] >= 0 for k in o["classes"] for a in k["attrs"]) \
                    and all(j >= 0 for k in o["classes"] for j in k["inh_by"]):
                metas.append((c, o))
            chk.stat(kind)
            hostile = any(any(ch_ in v for ch_ in '"\\{}|<>\n') for v in c.get("values", [])) or c["kind"] == "metamodel"
            chk.count(json.dumps(c, sort_keys=True), nontrivial=hostile)
            if o.get("build_exc"):
                chk.stat("model not built")
                if not c.get("classes"):     # without user classes every generated model must build
                    disagreements.append({"case": c, "impl": o, "model": "the generator produced a model that textX does not build"})
                continue
            for uc in c.get("classes", []):
                chk.stat("user class: " + uc["shape"])
            if o.get("exc"):
                if c["kind"] == "metamodel" and o["exc"].startswith(("TextXSemanticError", "TextXSyntaxError")):
                    chk.stat("metamodel rejected by textX")     # the generated grammar is not a valid one: no export to look at
                    continue
                failures.append({"case": c, "impl": o, "what": "exporter raised " + o["exc"], "tags": []})
                continue
            doc = "model_doc" if c["kind"] == "model" else "metamodel_doc" if c["mode"] in ("dot", "gen_dot") else "plantuml_doc"
            try:
                if c["kind"] == "model":
                    bad = oracle_model(c, o)
                elif c["mode"] in ("dot", "gen_dot"):
                    bad = oracle_metamodel_dot(c, o)
                else:
                    bad = oracle_plantuml(c, o)
            except D.DotError as ex:
                bad = "output is not well-formed: %s" % ex
            if bad:
                failures.append({"case": c, "impl": {"text": o["text"]}, "what": bad, "tags": []})
            # the translated over-approximation really contains what the exporter wrote
            why = docs.member(doc, o["text"]) if docs is not None else None
            if why:
                disagreements.append({"case": c, "impl": {"text": o["text"]}, "model": "not in the language of Gen.SrcExport.%s: %s" % (doc, why)})
            if chk.cov["evaluations"] % 97 == 5:
                chk.sample({"case": {k: c[k] for k in c if k != "grammar"}, "output_head": o["text"][-300:]})
    # ---- one Coq evaluation for both correspondences: dot_escape/dot_repr on the strings, and the traversal model on
    # the dumped object graphs (exact text of model_export for single models); interleaved so that shards are balanced
    exprs = [("s", k, "esc_case %s" % cs(s)) for k, s in enumerate(strings)]
    exprs += [("w", k, walk_expr(o)) for k, (c, o) in enumerate(walk)]
    exprs += [("m", k, meta_expr(c, o)) for k, (c, o) in enumerate(metas)]
    groups = [exprs[i::core.NPROC] for i in range(core.NPROC)]
    order = [e for g in groups for e in g]
    allvals, errs = core.coq_eval("C29", WALK_IMPORTS + "\n" + ESC_DEF, [e[2] for e in order])
    if errs:
        disagreements.append({"case": "coq evaluation", "model": errs[:2]})
    vals, wvals, mvals = [None] * len(strings), [None] * len(walk), [None] * len(metas)
    for (tag, k, _), v in zip(order, allvals):
        {"s": vals, "w": wvals, "m": mvals}[tag][k] = v
    for s, mv in zip(strings, vals):
        e, rp = impl[s]
        special = any(c in s for c in '"\\{}|<>\n?')
        chk.count(("esc", s), nontrivial=special)
        chk.stat("escape string: " + ("special" if special else "plain") + (", truncated" if rp.endswith("...'") else ""))
        if mv is not None and mv != core.canon_text(e) + "|R|" + core.canon_text(rp):
            disagreements.append({"case": {"string": s}, "impl": {"escape": e, "repr": rp}, "model": mv})
        bad = oracle_escape(s, e, rp)
        if bad:
            failures.append({"case": {"kind": "escape", "string": s}, "impl": {"escape": e, "repr": rp}, "what": bad, "tags": []})
    compared = {}
    for (c, o), mv in zip(walk, wvals):
        chk.stat("traversal model compared")
        if mv is not None:
            key = "model:%s%s" % (c.get("mode"), " (user classes)" if c.get("classes") else "")
            compared[key] = compared.get(key, 0) + 1
        if mv is not None and mv != core.canon_text(o["text"]):
            disagreements.append({"case": c, "impl": {"text": o["text"]}, "model": mv})
    for (c, o), mv in zip(metas, mvals):
        chk.stat("metamodel traversal model compared")
        if mv is not None:
            compared["metamodel:%s" % c.get("mode")] = compared.get("metamodel:%s" % c.get("mode"), 0) + 1
        if mv is not None and mv != "T" + core.canon_text(o["text"]):
            what = "the dumped class list violates the hypotheses of the metamodel theorems (wf_mm: a link or specialisation touches a class without a node; names_ok/rows_ok/linetype_ok: a name is no identifier)" if mv.startswith("F") else None
            disagreements.append({"case": c, "impl": {"text": o["text"]}, "model": mv, "what": what})
    chk.cov["disagreements_checked"] = len(strings) + len(walk) + len(metas)
    # exported texts compared character for character with the Coq traversal models, per mode
    chk.cov["exact_text_compared"] = dict(sorted(compared.items()))
    chk.cov["rule"] = ("(1) every string over 8 characters (quote, backslash, braces, pipe, <, newline, a) up to length 3 (4 in thorough) plus random "
                       "hostile/long strings through dot_escape and dot_repr: implementation vs the Coq model, and each result re-read by an independent DOT "
                       "tokenizer and record-label parser; (2) generated models of three grammars (plain/list/mixed-list attributes, references, nesting, "
                       "int names, bools, floats; single model, repo of files with hostile names, global repository, the 'dot' generator) with hostile string "
                       "values planted, and generated grammars (common/abstract/match rules with hostile literals; DOT, PlantUML, both generators): each "
                       "export parsed by an independent DOT grammar / PlantUML reader, node-per-object / node-per-class compared with the dumped object graph, "
                       "and matched against the translated template language; non-trivial = contains a special character / any metamodel")
    chk.assumptions += ["translator export_tr.py: hole classification by expression shape and the control-flow abstraction (first write, any order of the others, "
                        "last write); validated on every exported text by matching it against the translated language",
                        "DOT lexical rules as in Graphviz >= 2.30 scan.l (backslash pairs with a following quote or backslash inside strings) and record labels as in "
                        "shapes.c parse_reclbl (a backslash takes the next character with it)",
                        "class, attribute and rule names are grammar identifiers ([^\\d\\W]\\w*), fqn dotted; html.escape leaves no angle bracket; "
                        "str() of int/float/bool is made of letters, digits and . + -"]
    decide(chk, failures, disagreements)


def replay(rep):
    print(json.dumps(rep, indent=1)[:6000])
    case = rep.get("case")
    if isinstance(case, dict) and case.get("kind") in ("model", "metamodel"):
        o = core.run_impl("c29", {"cases": [case]})[0]
        print("---- current implementation output ----")
        print(o.get("text") or o.get("exc"))
    return 0
