"""C02 — assignments never lose, duplicate or reorder matched values.

Pipeline: translator mult_tr (constants, operator table, shape of _update_attr_multiplicities -> Gen/SrcMult.v),
theorems of Props/C02.v re-proved against it, then a correspondence run: generated one-rule grammars (rule bodies
as ASTs of sequence / ordered choice / optional / repetition / unordered group over assignments to a, b, c with
the four operators) are compiled by the real textX and by Model/Mult.v; inputs derived from the grammar (and
mutated) are loaded by the real textX, the assignment events of the real parse tree are fed to the model builder,
and multiplicities, values and errors are compared.  The property oracle (pure Python, independent of the Coq
model) states the property on the implementation's outputs."""
import json
import os
import re

from vt import core
from vt.main import decide
from translate import mult_tr

ATTRS = ["a", "b", "c"]
OPS = {"plain": "=", "bool": "?=", "star": "*=", "plus": "+="}
COQ_OP = {"plain": "OpPlain", "bool": "OpBool", "star": "OpStar", "plus": "OpPlus"}
TREE_OP = {"plain": "plain", "optional": "bool", "zeroormore": "star", "oneormore": "plus"}
LIST_MULTS = ("0..*", "1..*")
CORPUS = os.path.join(core.VERIF, "corpus", "C02")
LINK_EVERY = 5      # every n-th generated grammar also goes through the link check against the shared PEG core
# repetition separators: key -> (grammar text, the token sequences the separator can match; [] = it matches the empty string,
# in which case Arpeggio puts no separator node into the parse tree)
SEPS = {
    "c": ("','", [[","]]),
    "s": ("/;/", [[";"]]),
    "oc": ("/,?/", [[","], []]),
    "os": ("/;*/", [[], [";"], [";;"], [";", ";"]]),
}


def sep_key(x):
    """Separator field of a body node: False/None = none, True = ',' (older corpus files), else a key of SEPS."""
    if not x:
        return None
    return "c" if x is True else x


def sep_text(x):
    k = sep_key(x)
    return "[%s]" % SEPS[k][0] if k else ""


def sep_tokens(x, r):
    k = sep_key(x)
    return list(r.choice(SEPS[k][1])) if k else []


def gen_sep(r, p):
    if not r.chance(p):
        return False
    return r.weighted([("c", 2), ("s", 1), ("oc", 4), ("os", 3)])



# ------------------------------------------------------------------ bodies
# ["tok", kw] | ["ref"] | ["asg", attr, op, typ, sep] | ["seq", [..]] | ["alt", [..]] | ["opt", x]
# | ["star", x, sep] | ["plus", x, sep] | ["unord", [..], style]
def gen_body(r, depth, nattr, allow_bool):
    kinds = [("asg", 9), ("tok", 2), ("ref", 1)]
    if depth > 0:
        kinds += [("seq", 6), ("alt", 6), ("opt", 3), ("star", 2), ("plus", 2), ("unord", 2)]
    k = r.weighted(kinds)
    if k == "asg":
        ops = [("plain", 12), ("star", 2), ("plus", 2)] + ([("bool", 3)] if allow_bool else [])
        op = r.weighted(ops)
        typ = "KW" if op == "bool" else r.weighted([("INT", 6), ("STRING", 2), ("SEPV", 1)])
        sep = gen_sep(r, 0.5) if op in ("star", "plus") else False
        return ["asg", r.below(nattr), op, typ, sep]
    if k == "tok":
        return ["tok", "k%d" % r.below(3)]
    if k == "ref":
        return ["ref"]
    if k in ("seq", "alt", "unord"):
        n = r.weighted([(2, 6), (3, 3), (4, 1)])
        xs = [gen_body(r, depth - 1, nattr, allow_bool) for _ in range(n)]
        if k == "unord":
            return ["unord", xs, r.choice(["seq", "alt"])]
        return [k, xs]
    if k == "opt":
        return ["opt", gen_body(r, depth - 1, nattr, allow_bool)]
    x = gen_body(r, depth - 1, nattr, allow_bool)
    if nullable(x):
        # Arpeggio can loop forever on a repetition whose operand matches the empty string (not this property's concern)
        x = ["seq", [["tok", "k2"], x]]
    return [k, x, gen_sep(r, 0.3)]


def nullable(b):
    k = b[0]
    if k in ("tok", "ref"):
        return False
    if k == "asg":
        return b[2] in ("bool", "star")
    if k in ("seq", "unord"):
        return all(nullable(x) for x in b[1])
    if k == "alt":
        return any(nullable(x) for x in b[1])
    if k == "plus":
        return nullable(b[1])
    return True


def has_asg(b):
    if b[0] == "asg":
        return True
    if b[0] in ("seq", "alt", "unord"):
        return any(has_asg(x) for x in b[1])
    if b[0] in ("opt", "star", "plus"):
        return has_asg(b[1])
    return False


def asgs(b):
    if b[0] == "asg":
        return [b]
    if b[0] in ("seq", "alt", "unord"):
        return [y for x in b[1] for y in asgs(x)]
    if b[0] in ("opt", "star", "plus"):
        return asgs(b[1])
    return []


def p_inner(b, r=None):
    """Print without enclosing parentheses (rule body, operand of a bracket)."""
    if b[0] == "seq":
        return " ".join(p_elem(x) for x in b[1])
    if b[0] == "alt":
        return " | ".join(p_branch(x) for x in b[1])
    return p_elem(b)


def p_branch(b):
    if b[0] == "seq":
        return p_inner(b)
    return p_elem(b)


def p_elem(b):
    k = b[0]
    if k == "tok":
        return "'%s'" % b[1]
    if k == "ref":
        return "Kw"
    if k == "asg":
        rhs = {"INT": "INT", "STRING": "STRING", "SEPV": "sep", "KW": "'t%d'" % b[1]}[b[3]]
        return "%s%s%s%s" % (ATTRS[b[1]], OPS[b[2]], rhs, sep_text(b[4]))
    if k in ("seq", "alt"):
        return "(" + p_inner(b) + ")"
    if k == "opt":
        return "(" + p_inner(b[1]) + ")?"
    if k in ("star", "plus"):
        return "(" + p_inner(b[1]) + ")" + ("*" if k == "star" else "+") + sep_text(b[2])
    if k == "unord":
        if b[2] == "seq":
            return "(" + " ".join(p_elem(x) for x in b[1]) + ")#"
        return "(" + " | ".join(p_branch(x) for x in b[1]) + ")#"
    raise ValueError(k)


def grammar_text(b):
    # `sep` is an ordinary match rule that happens to be called like the rule name given to separator matches
    return "Model: %s;\nKw: 'kw';\nsep: /v[0-9]+/;\n" % p_inner(b)


def coq_body(b):
    k = b[0]
    if k in ("tok", "ref"):
        return "BTok"
    if k == "asg":
        return "(BAsg %d %s)" % (b[1], COQ_OP[b[2]])
    if k in ("seq", "alt", "unord"):
        return "(%s [%s])" % ({"seq": "BSeq", "alt": "BAlt", "unord": "BUnord"}[k], "; ".join(coq_body(x) for x in b[1]))
    return "(%s %s)" % ({"opt": "BOpt", "star": "BStar", "plus": "BPlus"}[k], coq_body(b[1]))


# ------------------------------------------------------------------ documented behaviour (independent of the Coq model)
def maxcount(b, a):
    """How many values one object can collect for attribute a: 0, 1 or 2 (= many)."""
    k = b[0]
    if k in ("tok", "ref"):
        return 0
    if k == "asg":
        return 0 if b[1] != a else (1 if b[2] in ("plain", "bool") else 2)
    if k in ("seq", "unord"):
        return min(2, sum(maxcount(x, a) for x in b[1]))
    if k == "alt":
        return max(maxcount(x, a) for x in b[1])
    if k == "opt":
        return maxcount(b[1], a)
    return 2 if maxcount(b[1], a) else 0


def bool_under_rep(b, rep=False):
    k = b[0]
    if k == "asg":
        return rep and b[2] == "bool"
    if k in ("seq", "alt", "unord"):
        return any(bool_under_rep(x, rep) for x in b[1])
    if k == "opt":
        return bool_under_rep(b[1], rep)
    if k in ("star", "plus"):
        return bool_under_rep(b[1], True)
    return False


def doc_grammar_error(b):
    """Grammar-time rejections that concern `?=`: reuse of an attribute by `?=`, `?=` inside a repetition,
    a `?=` attribute that could collect several values."""
    seen = set()
    for x in asgs(b):
        if x[2] == "bool" and x[1] in seen:
            return "reuse"
        seen.add(x[1])
    if bool_under_rep(b):
        return "rep"
    for x in asgs(b):
        if x[2] == "bool" and maxcount(b, x[1]) >= 2:
            return "boolmany"
    return None


def default_of(b, a, auto_init):
    xs = [x for x in asgs(b) if x[1] == a]
    types = {"BOOL" if x[2] == "bool" else x[3] for x in xs}
    if len(types) != 1:
        return "N"            # OBJECT: not a base type
    t = next(iter(types))
    if t == "SEPV":
        return "N"            # the attribute's type is the match rule `sep`, not a base type
    if auto_init:
        return {"INT": "i0", "STRING": "s", "BOOL": "F"}[t]
    return "F" if t == "BOOL" else "N"


def falsy(c):
    return c in ("N", "F", "i0", "s")


# ------------------------------------------------------------------ inputs
class Vals:
    def __init__(self, r):
        self.r = r
        self.n = 0
        self.zero = r.chance(0.6)
        self.empty = r.chance(0.5)

    def next(self, typ):
        if typ == "INT":
            if self.zero and self.r.chance(0.5):
                self.zero = False
                return "0"
            self.n += 1
            return str(self.n)
        if typ == "SEPV":
            self.n += 1
            return "v%d" % self.n
        if self.empty and self.r.chance(0.5):
            self.empty = False
            return "''"
        self.n += 1
        return "'s%d'" % self.n


def derive(b, r, v):
    k = b[0]
    if k == "tok":
        return [b[1]]
    if k == "ref":
        return ["kw"]
    if k == "asg":
        if b[2] == "bool":
            return ["t%d" % b[1]] if r.chance(0.75) else []
        if b[2] == "plain":
            return [v.next(b[3])]
        n = r.range(1, 3) if b[2] == "plus" else r.range(0, 3)
        out = []
        for i in range(n):
            if i:
                out += sep_tokens(b[4], r)
            out.append(v.next(b[3]))
        return out
    if k == "seq":
        return [t for x in b[1] for t in derive(x, r, v)]
    if k == "alt":
        return derive(r.choice(b[1]), r, v)
    if k == "opt":
        return derive(b[1], r, v) if r.chance(0.65) else []
    if k in ("star", "plus"):
        n = r.range(1, 3) if k == "plus" else r.range(0, 2)
        out = []
        for i in range(n):
            if i:
                out += sep_tokens(b[2], r)
            out += derive(b[1], r, v)
        return out
    if k == "unord":
        return [t for x in r.shuffle(b[1]) for t in derive(x, r, v)]
    raise ValueError(k)


def mutate(toks, r):
    toks = list(toks)
    if not toks:
        return ["0"]
    k = r.below(4)
    i = r.below(len(toks))
    if k == 0:
        del toks[i]
    elif k == 1:
        toks.insert(i, toks[i])
    elif k == 2:
        j = r.below(len(toks))
        toks[i], toks[j] = toks[j], toks[i]
    else:
        toks.insert(i, r.choice(["0", "7", "''", "k0", "t0", "kw", ",", ";"]))
    return toks


def gen_case(r, i, thorough):
    nattr = r.weighted([(1, 2), (2, 5), (3, 2)])
    allow_bool = r.chance(0.3)
    for _ in range(50):
        b = gen_body(r, r.weighted([(1, 2), (2, 5), (3, 3)]), nattr, allow_bool)
        if has_asg(b) and b[0] not in ("tok", "ref"):
            break
    else:
        b = ["asg", 0, "plain", "INT", False]
    inputs = []
    for k in range(4 if thorough else 3):
        rr = r.split("in%d" % k)
        inputs.append(derive(b, rr, Vals(rr)))
    for k in range(2):
        rr = r.split("mu%d" % k)
        inputs.append(mutate(r.choice(inputs[:3]), rr))
    return {"body": b, "grammar": grammar_text(b), "auto_init": r.chance(0.5), "inputs": [" ".join(t) for t in inputs], "link": i % (3 if thorough else LINK_EVERY) == 0}


def mk_case(body, inputs, auto_init=True, link=True):
    return {"body": body, "grammar": grammar_text(body), "auto_init": auto_init, "inputs": inputs, "link": link}


def A(a, op="plain", typ="INT", sep=False):
    return ["asg", a, op, typ, sep]


def builtin_corpus():
    cs = [
        mk_case(["seq", [["alt", [A(0), A(1)]], A(0)]], ["1 2", "0 2"]),                # the defect of the pinned tree
        mk_case(["seq", [A(0), ["alt", [A(0), A(1)]]]], ["1 2", "0 2"], auto_init=False),
        mk_case(["seq", [["alt", [["seq", [A(0), A(1)]], A(1)]], A(0)]], ["1 2 3", "0 2 3", "5 6"]),
        mk_case(["unord", [["alt", [A(0), A(1)]], ["tok", "k0"], A(0)], "seq"], ["1 k0 2", "k0 2 1", "0 k0 3"]),
        mk_case(["seq", [["opt", ["alt", [A(0, typ="STRING"), ["tok", "k1"]]]], A(0, typ="STRING")]], ["'' 'x'", "k1 'y'", "'z'"]),
        mk_case(["seq", [A(0), A(0)]], ["0 1", "1 0"]),
        mk_case(["alt", [["seq", [A(0), ["tok", "k0"]]], A(0)]], ["0 k0", "0", "3"]),
        mk_case(["seq", [A(0), ["star", A(1), True]]], ["1", "1 2 , 3"]),
        mk_case(["seq", [A(0, "star", "INT", True), A(0)]], ["1 , 2 3"]),
        mk_case(["seq", [["alt", [A(0, "bool", "KW"), ["tok", "k0"]]], A(1)]], ["t0 1", "k0 0"]),
        # separators that can match the empty string leave no node in the parse tree
        mk_case(["seq", [["tok", "k0"], A(0, "plus", "INT", "oc")]], ["k0 1, 2, 3, 4", "k0 1 2 3 4", "k0 1 2, 3 , 4 5", "k0 0 0, 7"]),
        mk_case(["seq", [A(0), ["star", ["seq", [["tok", "k1"], A(0, "plus", "INT", "oc")]], False], ["opt", A(0, "star", "INT", "c")]]],
                ["1 k1 2 3", "1 k1 2, 3 4 k1 5 6, 7 8, 9", "0 k1 0 0 0"]),
        mk_case(["seq", [A(0, "star", "STRING", "os"), ["tok", "k2"]]], ["'p' 'q' ; 'r' ;; 's' 't' k2", "k2", "'' ; 'x' k2"]),
        mk_case(["seq", [A(0, "plus", "INT", "c"), A(1, "plus", "INT", "s")]], ["1 , 2 , 3 4 ; 5 ; 6"]),
    ]
    if os.path.isdir(CORPUS):
        for f in sorted(os.listdir(CORPUS)):
            if f.endswith(".json"):
                d = json.load(open(os.path.join(CORPUS, f)))
                for c in d.get("cases", []):
                    cs.append(mk_case(c["body"], c["inputs"], c.get("auto_init", True)))
    return cs


# ------------------------------------------------------------------ Coq side
IMPORTS = """From TxV Require Import Core.Base Core.Show Model.MultBase Gen.SrcMult Model.Mult.
Open Scope string_scope.
Definition show_mult (m : mult) : string := match m with M1 => "1" | M01 => "0..1" | M0s => "0..*" | M1s => "1..*" end.
Definition show_sval (v : sval) : string :=
  match v with SNone => "N" | SBool b => show_bool b | SInt z => "i" ++ show_Z z | SStr s => "s" ++ show_str s | SObj n => "o" ++ show_nat n end.
Definition show_aval (v : aval) : string :=
  match v with AScalar x => show_sval x | AList l => "[" ++ sjoin "," (map show_sval l) ++ "]" end.
Definition show_out (o : outcome) : string := match o with Ok v => show_aval v | MultipleAssignments => "MA" | Crash => "CRASH" end.
(* one grammar: error code, then per attribute mult:maxcount, then per trace and attribute the builder outcome and the weight check *)
Definition show_case (b : body) (ats : list (nat * sval)) (nss : list (list anode)) : string :=
  let trs := map (map (node_ev src_sep_mode)) nss in
  show_nat (grammar_error b) ++ "|" ++
  sjoin "," (map (fun ad => show_mult (infer b (fst ad)) ++ ":" ++ show_nat (maxcount (fst ad) b)) ats) ++ "|" ++
  sjoin ";" (map (fun t => sjoin "," (map (fun ad =>
     show_out (build (fst ad) (init_val (infer b (fst ad)) (snd ad)) t) ++ "/" ++
     show_bool (Nat.leb (cap2 (weight (fst ad) t)) (maxcount (fst ad) b))) ats)) trs)."""


# ------------------------------------------------------------------ link to the shared PEG core
LINK_IMPORTS = """From TxV Require Import Core.Base Core.Show Model.MultBase Gen.SrcMult Model.Mult.
From TxV Require Model.Build Model.MultBuild Proofs.MultEndProofs Model.Spec Proofs.BuildPlaced.
From TxV Require Import Model.PegSyntax Model.Peg Model.MultPeg.
Open Scope string_scope.
Definition attr_id (s : list N) : nat := match s with [97%N] => 0 | [98%N] => 1 | [99%N] => 2 | _ => 99 end.
Fixpoint dec (s : list N) (acc : Z) : Z := match s with [] => acc | c :: r => dec r (acc * 10 + Z.of_N (c - 48))%Z end.
Definition conv_tree (g : grammar) (input : list N) (t : tree) : sval :=
  match t with
  | T nid p len _ =>
    match get_node g nid with
    | Some nd =>
      let txt := match PegSyntax.n_kind nd with KStr s _ => s | _ => firstn len (skipn p input) end in
      if str_eqb (n_rule nd) [73;78;84]%N then SInt (dec txt 0)
      else if str_eqb (n_rule nd) [83;84;82;73;78;71]%N then SStr (removelast (tl txt))
      else SStr txt
    | None => SNone
    end
  | NT _ _ => SNone
  end.
Definition show_sval (v : sval) : string :=
  match v with SNone => "N" | SBool b => show_bool b | SInt z => "i" ++ show_Z z | SStr s => "s" ++ show_str s | SObj n => "o" ++ show_nat n end.
Definition show_op (o : asgop) : string := match o with OpPlain => "=" | OpBool => "?" | OpStar => "*" | OpPlus => "+" end.
Definition show_child (c : child) : string :=
  (if c_sep c then "S" else "v") ++ (if c_named_sep c then "n" else "-") ++ show_sval (c_val c).
Definition show_node (n : anode) : string :=
  show_nat (n_attr n) ++ show_op (n_op n) ++ show_bool (n_has_sep n) ++ "(" ++ sjoin "," (map show_child (Mult.n_kids n)) ++ ")".
(* structural check of the dumped rule node against the body, then per input: the Peg.v interpreter's parse and the
   assignment nodes read off its result *)
Definition show_link (g : grammar) (mm : list Build.ninfo) (c : config) (b : Mult.body) (nid : nat)
           (runs : list (list ((nat * nat) * nat) * list N)) : string :=
  (* the side conditions of C02_run_object_values on the real tables: den, asg_table_okb, top_okb, mult_agreesb *)
  show_bool (den g mm attr_id true b nid && MultBuild.asg_table_okb g mm && MultEndProofs.top_okb g nid &&
             match Build.info mm nid with
             | Build.IRule Build.RCommon _ attrs => MultBuild.mult_agreesb attr_id b attrs
             | _ => false
             end) ++
  (* the table conditions of C02_run_object_values_table (statistics: is the case in that theorem's class) *)
  show_bool (BuildPlaced.table_asg_ok g mm 24) ++ show_bool (Spec.wfg g 24) ++ "#" ++
  sjoin "#" (map (fun ti =>
    match run g c (orc_of (fst ti)) false 200 (snd ti) with
    | Parsed (RTree (NT _ (t :: _))) =>
      match t with
      | NT n _ => if Nat.eqb n nid then (if Build.asg_placed mm false t then "P" else "Q") ++ sjoin ";" (map show_node (top_nodes g mm attr_id (conv_tree g (snd ti)) (RTree t))) else "noobj"
      | _ => "noobj"
      end
    | Parsed _ => "noobj"
    | SyntaxErr _ => "syntax"
    | Aborted _ => "abort"
    end) runs)."""


def top_body(b):
    """textX wraps a rule that consists of a single assignment into a Sequence."""
    return ["seq", [b]] if b[0] == "asg" else b


def coq_link(c, o):
    import pegdump
    import mmdump
    lk = o["link"]
    runs = "; ".join("(%s, %s)" % (pegdump.coq_table(t), pegdump.coq_str(i)) for t, i in zip(lk["tables"], c["inputs"]))
    # Model/Build.v is not imported in the case files (its constructor names clash with Model/MultBase.v): qualify them
    mm = re.sub(r"\b(IAsgn|IRule|ITerm|IOther|OpPlain|OpOptional|OpList|OpOther|RCommon|RAbstract|RMatch|mkAttr|M1|MOpt|MStar|MPlus)\b",
                r"Build.\1", mmdump.coq_mm(lk["mm"]))
    return "show_link %s %s %s %s %d [%s]" % (pegdump.coq_grammar(lk["dump"]), mm, pegdump.coq_config(lk["dump"]),
                                              coq_body(top_body(c["body"])), lk["model_nid"], runs)


def impl_link(c, o):
    """What show_link must print, computed from the implementation's parse trees."""
    out = ["T"]
    for run in o["runs"]:
        if run.get("noobj"):
            out.append("noobj")
        elif run.get("trace") is None:
            out.append("syntax" if run["err"] is not None and run["err"][0] == "TextXSyntaxError" else "?")
        else:
            out.append("P" + ";".join("%d%s%s(%s)" % (ATTRS.index(at), {"plain": "=", "optional": "?", "zeroormore": "*", "oneormore": "+"}[op],
                                                       "T" if hs else "F",
                                                       ",".join(("S" if k[0] else "v") + ("n" if k[1] else "-") + k[2] for k in kids))
                                  for at, op, vs, kids, hs in run["trace"]))
    return "#".join(out)


def coq_sval(c):
    if c == "N":
        return "SNone"
    if c in ("T", "F"):
        return "(SBool %s)" % ("true" if c == "T" else "false")
    if c[0] == "i":
        return "(SInt (%s)%%Z)" % c[1:]
    if c[0] == "s":
        return "(SStr %s)" % core.coq_str(uncanon(c[1:]))
    raise ValueError(c)


def uncanon(s):
    out, i = [], 0
    while i < len(s):
        if s[i] == "\\":
            j = s.index(";", i)
            out.append(chr(int(s[i + 1:j])))
            i = j + 1
        else:
            out.append(s[i])
            i += 1
    return "".join(out)


def coq_trace(tr):
    """The assignment nodes of one parse tree as Coq `anode`s (children tagged separator / named `sep` / value)."""
    ns = []
    for attr, op, vals, kids, has_sep in tr:
        ks = "; ".join("(Child %s %s %s)" % (core.coq_bool(k[0]), core.coq_bool(k[1]), coq_sval(k[2])) for k in kids)
        ns.append("(ANode %d %s %s [%s])" % (ATTRS.index(attr), COQ_OP[TREE_OP[op]], core.coq_bool(has_sep), ks))
    return "[" + "; ".join(ns) + "]"


def case_attrs(c):
    out = []
    for x in asgs(c["body"]):
        if x[1] not in out:
            out.append(x[1])
    return out


def coq_case(c, o):
    ats = case_attrs(c)
    ad = "[" + "; ".join("(%d, %s)" % (a, coq_sval(default_of(c["body"], a, c["auto_init"]))) for a in ats) + "]"
    trs = [run["trace"] for run in o["runs"] if run.get("trace") is not None] if o["gerr"] is None else []
    return "show_case %s %s [%s]" % (coq_body(c["body"]), ad, "; ".join(coq_trace(t) for t in trs))


GERR_CODE = {None: "0", "reuse": "1", "rep": "2", "boolmany": "3"}


def classify_gerr(g):
    if g is None:
        return None
    msg = g[2]
    if 'Cannot use "?=" operator on multiple' in msg:
        return "reuse"
    if "Can't use bool assignment inside repetition" in msg:
        return "rep"
    if "collect" in msg or "multiple values" in msg:
        return "boolmany"
    return "other:" + g[0] + ":" + msg


# ------------------------------------------------------------------ property oracle
def split_list(c):
    """'[x,y]' -> ['x','y'] for canonical lists of scalars (scalars never contain ',' or brackets: commas are escaped? no:
    strings are s<letters/digits> or empty in generated inputs)."""
    inner = c[1:-1]
    return inner.split(",") if inner else []


def oracle(c, o):
    """Returns list of (what, tags)."""
    bad = []
    b = c["body"]
    if o["gerr"] is not None and o["gerr"][0] == "Timeout":
        return bad            # machine overload while compiling the grammar: no observation
    want_err = doc_grammar_error(b)
    got_err = classify_gerr(o["gerr"])
    if want_err != got_err:
        tags = []
        if want_err == "boolmany" and got_err is None:
            tags.append("bool_attr_many")
        bad.append(("grammar outcome %r, documented %r" % (got_err, want_err), tags))
        if got_err is not None:
            return bad
    if o["gerr"] is not None:
        return bad
    mult = {n: m for n, m, _, _ in o["attrs"]}
    boolmix = want_err == "boolmany"
    for a in case_attrs(c):
        m = mult.get(ATTRS[a])
        if m is None:
            bad.append(("attribute %s missing from the metaclass" % ATTRS[a], []))
            continue
        if (m in LIST_MULTS) != (maxcount(b, a) >= 2):
            bad.append(("attribute %s inferred %s but one object can collect %s value(s)" % (
                ATTRS[a], m, "several" if maxcount(b, a) >= 2 else "at most one"), ["bool_attr_many"] if boolmix else []))
    for inp, run in zip(c["inputs"], o["runs"]):
        tags = ["bool_attr_many"] if boolmix else []
        if run["err"] is not None:
            if run["err"][1] == "Multiple assignments":
                bad.append(("accepted input %r fails with 'Multiple assignments'" % inp, tags))
            elif run["err"][0].startswith("CRASH") and run.get("trace") is not None:
                # the input was parsed; building the objects crashed
                bad.append(("input %r: %s %s" % (inp, run["err"][0], run["err"][2]), tags))
            continue
        if run.get("noobj"):
            continue
        tr = run["trace"]
        if tr is None:
            bad.append(("input %r accepted but no parse tree was seen" % inp, []))
            continue
        # every value token of the input is matched by exactly one assignment, in input order
        flat = [v for _, op, vs, *_ in tr for v in vs]
        toks = ["i%d" % int(t) if t[0].isdigit() else ("s" + t if t[0] == "v" else "s" + t[1:-1])
                for t in re.findall(r"(?<![\w'])\d+\b|'[^']*'|\bv\d+\b", inp)]
        if flat != toks:
            bad.append(("input %r: assignments matched %r, the input's value tokens are %r" % (inp, flat, toks), tags))
        for a in case_attrs(c):
            name = ATTRS[a]
            vals = [v for at, op, vs, *_ in tr if at == name for v in (["T"] if op == "optional" else vs)]
            got = run["vals"][name]
            m = mult[name]
            if maxcount(b, a) >= 2 or m in LIST_MULTS:
                if not got.startswith("["):
                    bad.append(("input %r: %s holds %s, not a list, although one object can collect several values (matched %r)" % (inp, name, got, vals), tags))
                elif split_list(got) != vals:
                    bad.append(("input %r: %s = %s but the matched values in input order are %r" % (inp, name, got, vals), tags))
            else:
                if got.startswith("["):
                    bad.append(("input %r: %s is a list %s although at most one value can be collected" % (inp, name, got), tags))
                elif len(vals) > 1:
                    bad.append(("input %r: %s = %s but %d values were matched (%r): values lost" % (inp, name, got, len(vals), vals), tags))
                elif len(vals) == 1 and got != vals[0]:
                    bad.append(("input %r: %s = %s but the matched value is %s" % (inp, name, got, vals[0]), tags))
                elif not vals and got != default_of(b, a, c["auto_init"]):
                    bad.append(("input %r: %s = %s although nothing was assigned (default %s)" % (inp, name, got, default_of(b, a, c["auto_init"])), tags))
    return bad


def impl_canon(c, o):
    """The implementation's outcome in the format of show_case."""
    if o["gerr"] is not None:
        return GERR_CODE.get(classify_gerr(o["gerr"]), "?" + str(o["gerr"])) + "||"
    mult = {n: m for n, m, _, _ in o["attrs"]}
    ats = case_attrs(c)
    runs = []
    for run in o["runs"]:
        if run.get("trace") is None:
            continue
        if run["err"] is not None:
            cell = "MA" if run["err"][1] == "Multiple assignments" else "CRASH"
            runs.append(",".join(cell + "/T" for _ in ats))
        else:
            runs.append(",".join(run["vals"][ATTRS[a]] + "/T" for a in ats))
    return "0|" + ",".join("%s:%d" % (mult.get(ATTRS[a]), maxcount(c["body"], a)) for a in ats) + "|" + ";".join(runs)


def model_matches(c, o, mv):
    """Compare show_case output with the implementation.  On a 'Multiple assignments' error the implementation aborts the
    whole load, while the model reports the outcome per attribute: compare only that some attribute reports MA."""
    ic = impl_canon(c, o)
    if mv == ic:
        return True
    mg, ma, mr = mv.split("|", 2)
    ig, ia, ir = ic.split("|", 2)
    if mg != ig:
        return False
    if mg != "0":
        return True          # rejected grammar: nothing else to compare
    if ma != ia:
        return False
    mruns, iruns = (mr.split(";") if mr else []), (ir.split(";") if ir else [])
    if len(mruns) != len(iruns):
        return False
    for x, y in zip(mruns, iruns):
        if x == y:
            continue
        if y.startswith("MA/") and any(cell.startswith("MA/") for cell in x.split(",")) and all(cell.endswith("/T") for cell in x.split(",")):
            continue
        if y.startswith("CRASH/") and any(cell.startswith("CRASH/") for cell in x.split(",")):
            continue
        return False
    return True


def run_cases(chk, cases, tag, shard=120):
    chunks = [cases[i::core.NPROC] for i in range(core.NPROC)]
    chunks = [ch for ch in chunks if ch]
    outs = core.run_impl_parallel("c02", [{"cases": [{"grammar": c["grammar"], "auto_init": c["auto_init"], "inputs": c["inputs"],
                                                       "link": bool(c.get("link"))} for c in ch]} for ch in chunks])
    res = {}
    for ch, o in zip(chunks, outs):
        for c, x in zip(ch, o):
            res[id(c)] = x
    vals, errs = core.coq_eval(tag, IMPORTS, [coq_case(c, res[id(c)]) for c in cases], shard=shard)
    disagreements, failures = [], []
    if errs:
        disagreements.append({"case": "coq evaluation", "model": errs[:2]})
    # link to the shared PEG core: the dumped rule node has the structure of the body (den), and the assignment nodes
    # read off the Peg.v interpreter's result are those of the real parse tree
    linked = [c for c in cases if c.get("link") and res[id(c)]["gerr"] is None and "dump" in (res[id(c)].get("link") or {})
              and res[id(c)]["link"]["model_nid"] is not None]
    for c in cases:
        if c.get("link") and res[id(c)]["gerr"] is None and "unsupported" in (res[id(c)].get("link") or {}):
            chk.stat("link: parser model outside the dumper's fragment")
    lvals, lerrs = core.coq_eval(tag + "L", LINK_IMPORTS, [coq_link(c, res[id(c)]) for c in linked], shard=20)
    if lerrs:
        disagreements.append({"case": "coq evaluation (link)", "model": lerrs[:2]})
    for c, lv in zip(linked, lvals):
        if lv is None:
            continue
        want = impl_link(c, res[id(c)])
        got = lv.split("#")
        wl = want.split("#")
        chk.stat("link: grammars checked")
        flags = got[0]
        got[0] = flags[:1]
        if len(flags) == 3:
            chk.stat("link: table_asg_ok %s, wfg %s" % (flags[1], flags[2]))
            if flags[1] != "T":
                disagreements.append({"case": c, "what": "BuildPlaced.table_asg_ok is false on the dumped table", "impl": "T", "model": lv})
        bad = got[0] != "T" or len(got) != len(wl)
        if not bad:
            for gx, wx in zip(got[1:], wl[1:]):
                if wx == "?" or gx == "abort":
                    chk.stat("link: input skipped (%s)" % ("abort" if gx == "abort" else "timeout/crash on the implementation"))
                    continue
                chk.stat("link: inputs compared")
                if gx != wx:
                    bad = True
        if bad:
            disagreements.append({"case": c, "what": "link to the PEG core (den / nodes of the Peg.v parse)", "impl": want, "model": lv})
    for c, mv in zip(cases, vals):
        o = res[id(c)]
        b = c["body"]
        mults = [maxcount(b, a) for a in case_attrs(c)]
        nontrivial = len(asgs(b)) >= 2 and any(len([x for x in asgs(b) if x[1] == a]) >= 2 for a in case_attrs(c))
        chk.count(json.dumps([c["grammar"], c["auto_init"], c["inputs"]]), nontrivial=nontrivial)
        chk.stat("grammar " + ("accepted" if o["gerr"] is None else "rejected:" + str(classify_gerr(o["gerr"]))[:40]))
        for m in mults:
            chk.stat("attr maxcount=%d" % m)
        for run in o["runs"]:
            chk.stat("input " + ("accepted" if run["ok"] else "rejected:" + str(run["err"][1] or run["err"][0])))
            if run["ok"] and run["trace"]:
                first = {}
                for at, op, vs, *_ in run["trace"]:
                    for v in (["T"] if op == "optional" else vs):
                        first.setdefault(at, v)
                for ev in run["trace"]:
                    if ev[4] and len(ev[2]) >= 2:
                        nsep = len([1 for k in ev[3] if k[0]])
                        chk.stat("list assignment with separator: " + ("all separators present" if nsep == len(ev[2]) - 1 else "some separator matched empty (no node)"))
                if any(falsy(v) for v in first.values()):
                    chk.stat("accepted input whose first value of some attribute is falsy")
                if any(len([1 for at, *_ in run["trace"] if at == n]) >= 2 for n in first):
                    chk.stat("accepted input with >=2 assignment events for one attribute")
        if o["gerr"] is not None and o["gerr"][0] == "Timeout":
            chk.stat("grammar compile timed out (skipped)")
            continue
        if mv is not None and not model_matches(c, o, mv):
            disagreements.append({"case": c, "impl": impl_canon(c, o), "model": mv, "impl_raw": o})
        for what, tags in oracle(c, o):
            failures.append({"case": c, "impl": o, "model": mv, "what": what, "tags": tags})
        if chk.cov["evaluations"] % 97 == 5:
            chk.sample({"grammar": c["grammar"], "inputs": c["inputs"], "impl": impl_canon(c, o)})
    return failures, disagreements


def enum_bodies(nodes, nattr):
    """All bodies with exactly `nodes` nodes over plain/list assignments (thorough tier: the multiplicity table)."""
    if nodes == 1:
        out = [["tok", "k0"]]
        for a in range(nattr):
            out.append(A(a))
        out.append(A(0, "plus"))
        return out
    out = []
    for k in ("opt", "star"):
        for x in enum_bodies(nodes - 1, nattr):
            out.append([k, x] if k == "opt" else [k, x, False])
    if nodes >= 3:
        for left in range(1, nodes - 1):
            for x in enum_bodies(left, nattr):
                for y in enum_bodies(nodes - 1 - left, nattr):
                    out.append(["seq", [x, y]])
                    out.append(["alt", [x, y]])
    if nodes >= 4:
        for l1 in range(1, nodes - 2):
            for l2 in range(1, nodes - 1 - l1):
                l3 = nodes - 1 - l1 - l2
                if l3 < 1:
                    continue
                for x in enum_bodies(l1, nattr):
                    for y in enum_bodies(l2, nattr):
                        for z in enum_bodies(l3, nattr):
                            out.append(["alt", [x, y, z]])
    return out


def run(chk):
    chk.prove([mult_tr.translate])
    cases = builtin_corpus()
    n = 1500 if chk.thorough else 260
    for i in range(n):
        cases.append(gen_case(chk.rng.split(i), i, chk.thorough))
    failures, disagreements = run_cases(chk, cases, "C02")
    if chk.thorough:
        # exhaustive multiplicity table for small bodies (validation of the model against the code, not the proof)
        small = []
        for nodes in range(2, 6):
            for b in enum_bodies(nodes, 2):
                if has_asg(b):
                    small.append(mk_case(b, [], link=False))
        six = [b for b in enum_bodies(6, 2) if has_asg(b)]
        small += [mk_case(b, [], link=False) for b in chk.rng.split("six").sample(six, 2500)]
        chk.stat("enumerated small bodies", len(small))
        f2, d2 = run_cases(chk, small, "C02e", shard=400)
        failures += f2
        disagreements += d2
    chk.cov["rule"] = ("one-rule grammars whose body is a random AST (depth <= 3) of sequence, ordered choice, optional, * / + repetition (with and "
                       "without separator; separators: ',' /;/ and the nullable /,?/ /;*/, inputs include and omit them) and unordered group (both spellings) over keywords, a rule reference and assignments to 1-3 attributes "
                       "with = ?= *= += (INT / STRING / keyword right-hand sides, and a match rule that is itself named `sep`), auto_init_attributes on/off; per grammar 3-4 inputs derived from "
                       "the body (values distinct, 0 and '' occurring as first values) plus 2 token-level mutations; the multiplicities, the "
                       "assignment events of the real parse tree, the attribute values or the error are compared with Model/Mult.v; "
                       "for a sample of the grammars the live parser model is dumped and `den` (structure of the rule node = the body) and the "
                       "assignment nodes of the Peg.v interpreter's parse are compared with the real parse tree; "
                       "non-trivial = some attribute is assigned at least twice in the body; distinct by (grammar, auto_init, inputs)"
                       + ("; thorough adds every body of 2-5 nodes over two attributes (=, one +=, ?, *, binary sequence/choice, ternary choice) and a sample of 2500 of the 6-node bodies, for the multiplicity table" if chk.thorough else ""))
    chk.assumptions += [
        "translator mult_tr.py (ast shape match of const.py, metamodel.py, lang.py visit_assignment/_update_attr_multiplicities, model.py assignment handler)",
        "the walk is modelled per attribute (set membership and the attribute's mult cell); independence of distinct attributes is validated by the correspondence",
        "traces: `emits` is the grammar-structure semantics of one rule body; results of the interpreter model Model/Peg.v (memoization off) are proved to be such traces (C02_parse_result_is_trace); that Model/Peg.v is the real interpreter is validated by correspondence (C19/C01, and here: nodes of the Peg.v parse vs the real parse tree, weight check on the real trace)",
        "tools/pegdump.py and tools/mmdump.py dump the live parser model and metamodel faithfully (shared, fail closed)",
        "values are INT / STRING / bool; attribute defaults are computed by the harness from the documented rule and are falsy",
    ]
    decide(chk, failures, disagreements)


def replay(rep):
    c = rep.get("case")
    if not isinstance(c, dict) or "grammar" not in c:
        print(json.dumps(rep, indent=1)[:4000])
        return 0
    try:
        mult_tr.translate()          # the model is evaluated against the facts of the current source
    except Exception as ex:
        print("translator-failed:", ex)
    o = core.run_impl("c02", {"cases": [{"grammar": c["grammar"], "auto_init": c["auto_init"], "inputs": c["inputs"]}]})[0]
    vals, errs = core.coq_eval("C02r", IMPORTS, [coq_case(c, o)])
    print("grammar:\n" + c["grammar"])
    print("inputs:", c["inputs"])
    print("implementation:", impl_canon(c, o))
    print("model:         ", vals[0], errs or "")
    bad = oracle(c, o)
    for what, tags in bad:
        print("PROPERTY VIOLATED:", what)
    return 1 if bad else 0
