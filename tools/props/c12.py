"""C12 — printed RREL expressions re-parse to equivalent expressions."""
import re
from vt import core
from vt.main import decide

NAMES = ["a", "b", "parent", "parent2", "_x", "name1", "m", "p", "X", "packages", "classes"]
FIXED = ["x", "a b", "it's", 'q"q', "", "a\\b", "\u00e9t\u00e9", "p.q", "a,b)", "~"]
FLAGS = ["", "", "m", "p", "mp", "pm", "mm"]


def gen_elem(r, depth, head):
    k = r.weighted([("nav", 8), ("parent", 2), ("br", 2 if depth > 0 else 0), ("star", 3 if depth > 0 else 0), ("starnav", 2 if depth > 0 else 0)])
    if k == "nav":
        m = r.weighted([("c", 5), ("t", 3), ("f", 2)])
        if m == "c":
            return ("Nav", r.choice(NAMES), True, None)
        if m == "t":
            return ("Nav", r.choice(NAMES), False, None)
        return ("Nav", r.choice(NAMES), False, r.choice(FIXED))
    if k == "parent":
        return ("Parent", r.choice(NAMES))
    if k == "br":
        return ("Br", gen_seq(r, depth - 1))
    if k == "star":
        return ("Star", gen_seq(r, depth - 1))
    return ("Star", [[gen_elem(r, 0, False)]])   # depth 0 inside: no further brackets


def gen_path(r, depth):
    els = []
    h = r.weighted([("none", 6), ("dots", 3), ("caret", 2 if depth > 0 else 0)])
    if h == "dots":
        els.append(("Dots", r.range(1, 3)))
    elif h == "caret":
        els.append(("Star", [[("Dots", 2)]]))
    n = r.weighted([(0, 2 if els else 0), (1, 5), (2, 4), (3, 2)])
    for _ in range(n):
        els.append(gen_elem(r, depth, False))
    return els


def gen_seq(r, depth):
    return [gen_path(r, depth) for _ in range(r.weighted([(1, 6), (2, 3), (3, 1)]))]


def c_str(s):
    return core.coq_str(s)


def c_elem(e):
    if e[0] == "Nav":
        return "(ENav %s %s %s)" % (c_str(e[1]), core.coq_bool(e[2]), core.coq_opt(None if e[3] is None else c_str(e[3])))
    if e[0] == "Parent":
        return "(EParent %s)" % c_str(e[1])
    if e[0] == "Dots":
        return "(EDots %d)" % e[1]
    return "(%s %s)" % ("EBr" if e[0] == "Br" else "EStar", c_seq(e[1]))


def c_path(p):
    return "(P1 %s)" % c_elem(p[0]) if len(p) == 1 else "(PCons %s %s)" % (c_elem(p[0]), c_path(p[1:]))


def c_seq(s):
    return "(S1 %s)" % c_path(s[0]) if len(s) == 1 else "(SCons %s %s)" % (c_path(s[0]), c_seq(s[1:]))


def d_elem(e):
    ct = core.canon_text
    if e[0] == "Nav":
        return "Nav(%s,%s,%s)" % (ct(e[1]), "T" if e[2] else "F", "None" if e[3] is None else ct(e[3]))
    if e[0] == "Parent":
        return "Parent(%s)" % ct(e[1])
    if e[0] == "Dots":
        return "Dots(%d)" % e[1]
    return "%s(%s)" % (e[0], d_seq(e[1]))


def d_seq(s):
    return "".join("[%s]" % ".".join(d_elem(e) for e in p) for p in s)


def d_expr(seq, flags):
    return "E(%s:%s)" % (flags, d_seq(seq))


def uncanon(s):
    return re.sub(r"\\(\d+);", lambda m: chr(int(m.group(1))), s)


def size(seq):
    return sum(1 + (size(e[1]) if e[0] in ("Br", "Star") else 0) for p in seq for e in p)


IMPORTS = "From TxV Require Import Core.Base Core.Show Model.RrelSyntax.\nOpen Scope string_scope."


def mutate(r, t):
    alphabet = ".,()*~^'\"+mp: a1\\"
    k = r.weighted([("del", 3), ("ins", 4), ("swap", 1), ("ws", 2), ("dup", 1)])
    if not t:
        return r.choice(alphabet)
    i = r.below(len(t))
    if k == "del":
        return t[:i] + t[i + 1:]
    if k == "ins":
        return t[:i] + r.choice(alphabet) + t[i:]
    if k == "swap" and len(t) > 1:
        i = r.below(len(t) - 1)
        return t[:i] + t[i + 1] + t[i] + t[i + 2:]
    if k == "ws":
        return t[:i] + r.choice([" ", "\t", "\n", "  "]) + t[i:]
    return t[:i] + t[i] + t[i:]


def run(chk):
    chk.prove([])
    n = 4000 if chk.thorough else 600
    asts = []
    # corpus: shapes from the grammar comments and earlier failures
    corpus = [([[("Nav", "a", True, None), ("Nav", "b", True, None)]], "p"),
              ([[("Nav", "a", False, "it's")]], ""),
              ([[("Br", [[("Br", [[("Nav", "a", True, None)]])], [("Br", [[("Nav", "b", True, None)]])]]), ("Nav", "c", True, None)]], "mp"),
              ([[("Star", [[("Br", [[("Nav", "a", True, None)]]), ("Br", [[("Nav", "b", True, None)]])]])]], ""),
              ([[("Star", [[("Dots", 2)]]), ("Nav", "parent", True, None)], [("Dots", 3)]], "m")]
    asts += corpus
    for i in range(n):
        r = chk.rng.split(i)
        asts.append((gen_seq(r, r.range(0, 3 if chk.thorough and i % 10 == 0 else 2)), r.choice(FLAGS)))  # nesting <= 2: Arpeggio re-parses nested brackets ~10x per level
    exprs = []
    for seq, fl in asts:
        e = "{| eseq := %s; eflags := %s |}" % (c_seq(seq), c_str(fl))
        exprs.append("show_str (print %s)" % e)
        exprs.append("show_opt show_expr (parse (print %s))" % e)
    vals, errs = core.coq_eval("C12a", IMPORTS, exprs, shard=400)
    disagreements, failures = [], []
    if errs:
        disagreements.append({"case": "coq evaluation", "model": errs[:2]})
    texts = []
    for k, (seq, fl) in enumerate(asts):
        pv = vals[2 * k]
        texts.append(uncanon(pv) if pv is not None else None)
    # second stream: mutated texts
    muts = []
    nm = 3000 if chk.thorough else 500
    valid_texts = [t for t in texts if t]
    for i in range(nm):
        r = chk.rng.split("m%d" % i)
        t = r.choice(valid_texts)
        for _ in range(r.range(1, 3)):
            t = mutate(r, t)
        muts.append(t)
    mvals, merrs = core.coq_eval("C12b", IMPORTS, ["show_opt show_expr (parse %s)" % c_str(t) for t in muts], shard=400)
    if merrs:
        disagreements.append({"case": "coq evaluation (mutated)", "model": merrs[:2]})
    allt = [t for t in texts if t is not None] + muts
    chunks = [allt[i::core.NPROC] for i in range(core.NPROC)]
    chunks = [c for c in chunks if c]
    outs = core.run_impl_parallel("c12", [{"texts": ch} for ch in chunks])
    impl = {}
    for ch, o in zip(chunks, outs):
        for t, x in zip(ch, o):
            impl[t] = x
    for k, (seq, fl) in enumerate(asts):
        t = texts[k]
        if t is None:
            continue
        want = d_expr(seq, fl)
        model_rt = vals[2 * k + 1]
        o = impl[t]
        chk.count(want, nontrivial=size(seq) >= 2)
        chk.stat("flags=" + (fl or "-"))
        chk.stat("size=%d" % min(size(seq), 8))
        # the model's own round trip must hold (it is the theorem; evaluating it is a cheap cross-check)
        if model_rt != want:
            disagreements.append({"case": {"ast": want}, "model": model_rt, "impl": "(model round trip differs from its input)"})
        # implementation vs model: parse of the model's printed text gives the tree; str() gives the text back
        if not o["ok"] or o["dump"] != want or o["printed"] != t:
            disagreements.append({"case": {"ast": want, "text": t}, "impl": o, "model": {"printed": t, "parsed": model_rt}})
        # property oracle on the implementation
        if o["ok"] and (o["redump"] != o["dump"]):
            failures.append({"case": {"text": t}, "impl": o, "what": "parse(str(parse(text))) differs from parse(text) in structure or flags", "tags": []})
        if chk.cov["evaluations"] % 150 == 5:
            chk.sample({"text": t, "tree": want})
    acc = 0
    for t, mv in zip(muts, mvals):
        o = impl[t]
        chk.count("mut:" + t, nontrivial=o["ok"])
        acc += 1 if o["ok"] else 0
        m_ok = mv is not None and mv != "None"
        if mv is not None and (m_ok != o["ok"] or (m_ok and mv != o["dump"])):
            disagreements.append({"case": {"text": t}, "impl": o, "model": mv})
        if o["ok"] and o["redump"] != o["dump"]:
            failures.append({"case": {"text": t}, "impl": o, "what": "parse(str(parse(text))) differs from parse(text) in structure or flags", "tags": []})
    chk.stat("mutated_accepted", acc)
    chk.stat("mutated_rejected", len(muts) - acc)
    chk.cov["rule"] = ("%d random RREL trees (bracket nesting<=2; navigation/~/fixed-name/parent()/dots/^/brackets/*/commas; flags '', m, p, mp, pm, mm; names incl. 'parent', 'm', 'p'; fixed names "
                       "with quotes, spaces, backslash, non-ASCII) printed by the model and parsed/printed by rrel.py, plus %d mutated texts (valid and invalid) parsed by both; "
                       "non-trivial = tree with >=2 nodes / accepted mutated text; distinct by tree or text" % (len(asts), len(muts)))
    chk.assumptions += ["lexer+token-parser model of the scannerless Arpeggio parser (validated on valid and invalid texts)",
                        "non-ASCII identifier characters are outside the model (names are ASCII; fixed names may be any text)"]
    decide(chk, failures, disagreements)
