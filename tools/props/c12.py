"""C12 — printed RREL expressions re-parse to equivalent expressions.

prove:  Props/C12.v against Gen/SrcRrelSyntax.v (the __repr__ bodies and the regex terminals of
        textx/scoping/rrel.py, translated on every run by tools/translate/rrel_syntax_tr.py).
tie:    the same model (print_src, parse_text) evaluated in Coq on generated trees and on mutated
        texts, compared with rrel.py (str / parse) on the same inputs.
oracle: parse(str(parse(text))) has the structure and flags of parse(text).
"""
import re
from vt import core
from vt.main import decide
from translate import rrel_syntax_tr

NAMES = ["a", "b", "parent", "parent2", "_x", "name1", "m", "p", "X", "packages", "classes"]
FIXED = ["x", "a b", "it's", 'q"q', "", "a\\b", "\u00e9t\u00e9", "p.q", "a,b)", "~",
         "a\\'b", 'a\\"b', "a\\'b\"c", "q\\\"q'z", "\\\\'", "+m:", "parent(x)", "\\\\\\'s"]
FIXED_BAD = ["a\\", "it's \"x\"", "\\\\"]     # not writable as a string_value whatever follows (outside the theorem's hypotheses)
FLAGS = ["", "", "m", "p", "mp", "pm", "mm"]


def gen_elem(r, depth, head):
    k = r.weighted([("nav", 8), ("parent", 2), ("br", 2 if depth > 0 else 0), ("star", 3 if depth > 0 else 0), ("starnav", 2 if depth > 0 else 0)])
    if k == "nav":
        m = r.weighted([("c", 5), ("t", 3), ("f", 2)])
        if m == "c":
            return ("Nav", r.choice(NAMES), True, None)
        if m == "t":
            return ("Nav", r.choice(NAMES), False, None)
        return ("Nav", r.choice(NAMES), False, r.choice(FIXED_BAD) if r.below(25) == 0 else r.choice(FIXED))
    if k == "parent":
        return ("Parent", r.choice(NAMES))
    if k == "br":
        return ("Br", gen_seq(r, depth - 1))
    if k == "star":
        return ("Star", gen_seq(r, depth - 1))
    return ("Star", [[gen_elem(r, 0, False)]])   # depth 0 inside: no further brackets


def gen_path(r, depth):
    els = []
    h = r.weighted([("none", 6), ("dots", 3), ("caret", 2 if depth > 0 else 0)])
    if h == "dots":
        els.append(("Dots", r.range(1, 3)))
    elif h == "caret":
        els.append(("Star", [[("Dots", 2)]]))
    n = r.weighted([(0, 2 if els else 0), (1, 5), (2, 4), (3, 2)])
    for _ in range(n):
        els.append(gen_elem(r, depth, False))
    return els


def gen_seq(r, depth):
    return [gen_path(r, depth) for _ in range(r.weighted([(1, 6), (2, 3), (3, 1)]))]


def c_str(s):
    """a Coq term of type list N; printable ASCII goes through a string literal (parsing thousands of
    numerals is what makes coqc slow on the case file)"""
    if all(32 <= ord(c) <= 126 for c in s):
        return '(s2l "%s")' % s.replace('"', '""')
    return core.coq_str(s)


def c_elem(e):
    if e[0] == "Nav":
        return "(ENav %s %s %s)" % (c_str(e[1]), core.coq_bool(e[2]), core.coq_opt(None if e[3] is None else c_str(e[3])))
    if e[0] == "Parent":
        return "(EParent %s)" % c_str(e[1])
    if e[0] == "Dots":
        return "(EDots %d)" % e[1]
    return "(%s %s)" % ("EBr" if e[0] == "Br" else "EStar", c_seq(e[1]))


def c_path(p):
    return "(P1 %s)" % c_elem(p[0]) if len(p) == 1 else "(PCons %s %s)" % (c_elem(p[0]), c_path(p[1:]))


def c_seq(s):
    return "(S1 %s)" % c_path(s[0]) if len(s) == 1 else "(SCons %s %s)" % (c_path(s[0]), c_seq(s[1:]))


def d_elem(e):
    ct = core.canon_text
    if e[0] == "Nav":
        return "Nav(%s,%s,%s)" % (ct(e[1]), "T" if e[2] else "F", "None" if e[3] is None else ct(e[3]))
    if e[0] == "Parent":
        return "Parent(%s)" % ct(e[1])
    if e[0] == "Dots":
        return "Dots(%d)" % e[1]
    return "%s(%s)" % (e[0], d_seq(e[1]))


def d_seq(s):
    return "".join("[%s]" % ".".join(d_elem(e) for e in p) for p in s)


def d_expr(seq, flags):
    return "E(%s:%s)" % (flags, d_seq(seq))


def uncanon(s):
    return re.sub(r"\\(\d+);", lambda m: chr(int(m.group(1))), s)


def size(seq):
    return sum(1 + (size(e[1]) if e[0] in ("Br", "Star") else 0) for p in seq for e in p)


IMPORTS_HEAD = ("From TxV Require Import Core.Base Core.Show Model.Rx Model.RrelSyntax Model.RrelSyntaxText.\n"
                "Open Scope string_scope.\n")
IMPORTS_DEFS = (
           "Fixpoint s2l (s : string) : list N := match s with EmptyString => nil | String a t => cons (Ascii.N_of_ascii a) (s2l t) end.\n"
           # printing long strings is what costs time in coqc: texts and dumps are compared through a hash
           "Fixpoint hs (s : string) (h : N) : N := match s with EmptyString => h\n"
           "  | String a t => hs t (N.modulo (h * 1000003 + Ascii.N_of_ascii a) 1099511627776) end.\n"
           "Definition rt (e : expr) : string := match parse_text U (print_src e) with\n"
           "  | Some e' => if String.eqb (show_expr e') (show_expr e) then \"=\" else show_N (hs (show_expr e') 7)\n"
           "  | None => \"None\" end.\n"
           "Definition tr (e : expr) : string := show_N (hs (show_str (print_src e)) 7) ++ \" \" ++ rt e ++ \" \" ++ show_bool (lexable U e).\n"
           "Definition pt (s : list N) : string := match parse_text U s with\n"
           "  | Some e => show_N (hs (show_expr e) 7) ++ \" \" ++ show_bool (no_trailing_bs e) ++ \" \" ++\n"
           "      match parse_text U (print_src e) with Some e' => if String.eqb (show_expr e') (show_expr e) then \"=\" else \"x\" | None => \"x\" end\n"
           "  | None => \"None\" end.\n"
           "Definition ptf (s : list N) : string := show_opt show_expr (parse_text U s).")


def ucls_table(texts):
    """Python's classification (bit 0 \\d, bit 1 \\w, bit 2 \\s) of the non-ASCII code points of the texts:
    the parameter `u` of the model (the theorem holds for every u)."""
    cps = sorted({c for t in texts for c in t if ord(c) >= 128})
    ent = []
    for c in cps:
        v = (1 if re.match(r"\d", c) else 0) | (2 if re.match(r"\w", c) else 0) | (4 if re.match(r"\s", c) else 0)
        ent.append("(%d%%N, %d%%N)" % (ord(c), v))
    return "Definition U : N -> N := ucls_of_table [%s].\n" % "; ".join(ent)


def hs(text):
    h = 7
    for b in text.encode("ascii"):
        h = (h * 1000003 + b) % 1099511627776
    return str(h)


def has_unesc(q, f):
    """Model/RrelSyntax.v unesc."""
    i = 0
    while i < len(f):
        if f[i] == q:
            return True
        if f[i] == "\\" and i + 1 < len(f):
            i += 2 if f[i + 1] == q else 1
        else:
            i += 1
    return False


# the printed text of a tree as the (repaired) __repr__ methods give it; only used to avoid printing
# every text from Coq: the model's own text is fetched wherever the hashes differ
def p_elem(e):
    if e[0] == "Nav":
        if e[3] is not None:
            q = '"' if has_unesc("'", e[3]) else "'"
            return q + e[3] + q + "~" + e[1]
        return e[1] if e[2] else "~" + e[1]
    if e[0] == "Parent":
        return "parent(%s)" % e[1]
    if e[0] == "Dots":
        return "." * e[1]
    return "(" + p_seq(e[1]) + ")" + ("*" if e[0] == "Star" else "")


def p_path(p):
    if p[0][0] == "Dots":
        return p_elem(p[0]) + ".".join(p_elem(e) for e in p[1:])
    return ".".join(p_elem(e) for e in p)


def p_seq(s):
    return ",".join(p_path(p) for p in s)


def p_expr(seq, fl):
    return ("+" + fl + ":" if fl else "") + p_seq(seq)


FINDING_TAG = "inexpressible_fixed_name"


def str_ok(q, f):
    """Model/RrelSyntaxText.v str_ok: f can be written between quotes q whatever follows."""
    i = 0
    while i < len(f):
        c = f[i]
        if c == q:
            return False
        if c == "\\":
            if i + 1 >= len(f):
                return False
            i += 2 if f[i + 1] == q else 1
        else:
            i += 1
    return True


def expressible(f):
    return str_ok("'", f) or str_ok('"', f)


def tags_of(o):
    """classifier of the known finding: some fixed name of the parsed tree has no string_value spelling
    that is independent of what follows (mirrors `expressible` of the theorem's hypothesis)."""
    return [FINDING_TAG] if any(not expressible(uncanon(f)) for f in o.get("fixed", [])) else []


def paren_depth(t):
    d = m = 0
    for c in t:
        d += 1 if c == "(" else -1 if c == ")" else 0
        m = max(m, d)
    return m


def mutate(r, t):
    alphabet = ".,()*~^'\"+mp: a1\\"
    k = r.weighted([("del", 3), ("ins", 4), ("swap", 1), ("ws", 2), ("dup", 1)])
    if not t:
        return r.choice(alphabet)
    i = r.below(len(t))
    if k == "del":
        return t[:i] + t[i + 1:]
    if k == "ins":
        return t[:i] + r.choice(alphabet) + t[i:]
    if k == "swap" and len(t) > 1:
        i = r.below(len(t) - 1)
        return t[:i] + t[i + 1] + t[i] + t[i + 2:]
    if k == "ws":
        return t[:i] + r.choice([" ", "\t", "\n", "  "]) + t[i:]
    return t[:i] + t[i] + t[i:]


CORPUS = [([[("Nav", "a", True, None), ("Nav", "b", True, None)]], "p"),
          ([[("Nav", "a", False, "it's")]], ""),
          ([[("Br", [[("Br", [[("Nav", "a", True, None)]])], [("Br", [[("Nav", "b", True, None)]])]]), ("Nav", "c", True, None)]], "mp"),
          ([[("Star", [[("Br", [[("Nav", "a", True, None)]]), ("Br", [[("Nav", "b", True, None)]])]])]], ""),
          ([[("Star", [[("Dots", 2)]]), ("Nav", "parent", True, None)], [("Dots", 3)]], "m")]


def load_corpus():
    """corpus/C12/*.json: {"trees": [[seq, flags], ...], "texts": [...]} (minimised earlier failures)."""
    import json
    import os
    trees, texts = [], []
    d = os.path.join(core.VERIF, "corpus", "C12")
    if os.path.isdir(d):
        for f in sorted(os.listdir(d)):
            if f.endswith(".json"):
                j = json.load(open(os.path.join(d, f), encoding="utf-8"))
                for seq, fl in j.get("trees", []):
                    trees.append((untuple(seq), fl))
                texts += j.get("texts", [])
    return trees, texts


def untuple(seq):
    def el(e):
        if e[0] in ("Br", "Star"):
            return (e[0], untuple(e[1]))
        return tuple(e)
    return [[el(e) for e in p] for p in seq]


def run(chk):
    chk.prove([rrel_syntax_tr.translate])
    n = 2400 if chk.thorough else 300
    ctrees, ctexts = load_corpus()
    asts = list(CORPUS) + ctrees
    for i in range(n):
        r = chk.rng.split(i)
        asts.append((gen_seq(r, r.range(0, 3 if chk.thorough and i % 10 == 0 else 2)), r.choice(FLAGS)))  # nesting <= 2: Arpeggio re-parses nested brackets ~10x per level
    # the texts are computed by the harness printer so that both evaluation streams go to Coq in one round;
    # the model's own text is fetched wherever its hash differs
    mine = [p_expr(seq, fl) for seq, fl in asts]
    muts = list(ctexts)
    nm = 2000 if chk.thorough else 260
    maxdepth = 3 if chk.thorough else 2      # Arpeggio backtracks exponentially in the nesting of failing brackets ('(((a.()b))*': 40 s)
    for i in range(nm):
        r = chk.rng.split("m%d" % i)
        t0 = r.choice(mine)
        t = t0
        for _ in range(r.range(1, 3)):
            t2 = mutate(r, t)
            t = t2 if paren_depth(t2) <= max(maxdepth, paren_depth(t0)) else t
        muts.append(t)
    IMPORTS = IMPORTS_HEAD + ucls_table(mine + muts) + IMPORTS_DEFS
    exprs = ["tr {| eseq := %s; eflags := %s |}" % (c_seq(seq), c_str(fl)) for seq, fl in asts] + ["pt %s" % c_str(t) for t in muts]
    nproc = core.NPROC
    core.NPROC = min(nproc, 6 if chk.thorough else 3)    # every coqc start costs seconds: few, larger shards
    try:
        allvals, errs = core.coq_eval("C12a", IMPORTS, exprs, shard=450)
    finally:
        core.NPROC = nproc
    vals, mvals = allvals[:len(asts)], allvals[len(asts):]
    disagreements, failures = [], []
    if errs:
        disagreements.append({"case": "coq evaluation", "model": errs[:2]})
    texts, rts, lxs, refetch = [], [], [], []
    for k, (seq, fl) in enumerate(asts):
        v = vals[k].split(" ") if vals[k] else [None, None, None]
        texts.append(mine[k] if v[0] is not None else None)
        rts.append(v[1])
        lxs.append(v[2])
        if v[0] is not None and v[0] != hs(core.canon_text(mine[k])):
            refetch.append(k)
    if refetch:   # the harness printer and the model's differ (an edited __repr__): take the model's texts
        chk.stat("texts_fetched_from_model", len(refetch))
        fv, ferrs = core.coq_eval("C12f", IMPORTS, ["show_str (print_src {| eseq := %s; eflags := %s |})" % (c_seq(asts[k][0]), c_str(asts[k][1])) for k in refetch], shard=450)
        if ferrs:
            disagreements.append({"case": "coq evaluation (texts)", "model": ferrs[:2]})
        for k, pv in zip(refetch, fv):
            texts[k] = uncanon(pv) if pv is not None else None

    def full_model(t):
        fv, _ = core.coq_eval("C12d", IMPORTS, ["ptf %s" % c_str(t)])
        return fv[0] if fv else None
    allt = sorted(set([t for t in texts if t is not None] + muts))
    chunks = [allt[i::core.NPROC] for i in range(core.NPROC)]
    chunks = [c for c in chunks if c]
    outs = core.run_impl_parallel("c12", [{"texts": ch} for ch in chunks])
    impl = {}
    for ch, o in zip(chunks, outs):
        if not isinstance(o, list):
            disagreements.append({"case": "runner", "impl": o})
            continue
        for t, x in zip(ch, o):
            impl[t] = x
    oracle_seen = set()

    def oracle(t, o):
        if t in oracle_seen:
            return
        oracle_seen.add(t)
        if o["ok"] and (o["redump"] != o["dump"]):
            failures.append({"case": {"text": t}, "impl": o, "tags": tags_of(o),
                             "what": "parse(str(parse(text))) differs from parse(text) in structure or flags"})

    nlex = 0
    for k, (seq, fl) in enumerate(asts):
        t = texts[k]
        if t is None or t not in impl:
            continue
        o = impl[t]
        want = d_expr(seq, fl)
        rt, lexable = rts[k], lxs[k]
        chk.count("ast:" + want, nontrivial=size(seq) >= 2)
        chk.stat("flags:" + (fl or "-"))
        chk.stat("size:%d" % min(size(seq), 8))
        chk.stat("lexable" if lexable == "T" else "not-lexable")
        # what the theorem states, cross-checked by evaluation (every generated tree is well formed)
        if lexable == "T":
            nlex += 1
            if rt != "=":
                disagreements.append({"case": {"ast": want}, "model": rt, "impl": "(the model contradicts C12_roundtrip on a lexable tree)"})
        # implementation vs model: parsing the model's printed text gives the same tree as the model's own
        # parser; when that is the printed tree itself, str() gives the text back
        m_ok = rt != "None"
        m_hash = hs(want) if rt == "=" else rt
        if rt is not None and (o["ok"] != m_ok or (m_ok and hs(o["dump"]) != m_hash) or (rt == "=" and o["printed"] != t)):
            if len(disagreements) < 8:
                disagreements.append({"case": {"ast": want, "text": t}, "impl": o, "model": {"printed": t, "parsed": want if rt == "=" else full_model(t)}})
            else:
                disagreements.append({"case": {"ast": want, "text": t}})
        oracle(t, o)
        if chk.cov["evaluations"] % 150 == 5:
            chk.sample({"text": t, "tree": want})
    acc = 0
    for t, mv in zip(muts, mvals):
        if t not in impl:
            continue
        o = impl[t]
        chk.count("mut:" + t, nontrivial=o["ok"])
        acc += 1 if o["ok"] else 0
        m_ok = mv is not None and mv != "None"
        mh, ntb, back = (mv.split(" ") + [None, None])[:3] if m_ok else (None, None, None)
        if mv is not None and (m_ok != o["ok"] or (m_ok and mh != hs(o["dump"]))):
            disagreements.append({"case": {"text": t}, "impl": o, "model": full_model(t) if len(disagreements) < 8 else mv})
        elif m_ok:
            # C12_parsed_roundtrip cross-checked by evaluation, and the model's round trip against the implementation's
            if ntb == "T" and back != "=":
                disagreements.append({"case": {"text": t}, "model": mv, "impl": "(the model contradicts C12_parsed_roundtrip: no fixed name ends in a backslash)"})
            if (back == "=") != (o["redump"] == o["dump"]):
                disagreements.append({"case": {"text": t}, "impl": o, "model": "parse(print(parse text)) %s parse text" % ("=" if back == "=" else "<>")})
            chk.stat("parsed:no_trailing_bs" if ntb == "T" else "parsed:trailing_bs")
        oracle(t, o)
    chk.stat("mutated_accepted", acc)
    chk.stat("mutated_rejected", len(muts) - acc)
    chk.stat("lexable_trees", nlex)
    chk.cov["rule"] = ("%d random RREL trees (bracket nesting<=2; navigation/~/fixed-name/parent()/dots/^/brackets/*/commas; flags '', m, p, mp, pm, mm; names incl. 'parent', 'm', 'p'; fixed names "
                       "with quotes, escaped quotes, spaces, backslash, non-ASCII) printed by the model's translated __repr__ bodies and parsed/printed by rrel.py, plus %d mutated texts (valid and invalid) "
                       "lexed with the translated regexes and parsed by both; non-trivial = tree with >=2 nodes / accepted mutated text; distinct by tree or text" % (len(asts), len(muts)))
    chk.assumptions += ["token-level model of the scannerless Arpeggio parser: terminals (translated regexes, Model/Rx.v semantics) found after whitespace skipping, then the PEG order of rrel.py:6-56 over tokens "
                        "(validated on valid and invalid texts; the PEG, the visitor and the constructors are pinned by the translator)",
                        "Model/Rx.v is the semantics of Python's re for the translated regexes (validated by C04)",
                        "non-ASCII identifier characters are outside the theorem's hypotheses (names are ASCII identifiers; fixed names may be any text)"]
    decide(chk, failures, disagreements)


def replay(rep):
    """Re-run a recorded failing input on the implementation (./check C12 --replay out/C12/fail_1.json)."""
    import json
    case = rep.get("case") or {}
    text = case.get("text") if isinstance(case, dict) else None
    if text is None:
        print(json.dumps(rep, indent=1))
        return 0
    o = core.run_impl_parallel("c12", [{"texts": [text]}])[0][0]
    print("text:", repr(text))
    print("implementation now answers:", json.dumps(o))
    bad = o["ok"] and o["redump"] != o["dump"]
    if bad:
        print("property violated: parse(str(parse(text))) differs from parse(text); tags:", tags_of(o))
    else:
        print("property holds on this input" if o["ok"] else "the text is not accepted")
    return 1 if bad else 0
