"""C31 — generated output files are all-or-nothing."""
import json
from vt import core
from vt.main import decide
from translate import fsops_tr

GRAMMARS = [
    ("Model: 'model' name=ID items+=Item;\nItem: 'item' name=ID ('->' ref=[Item])? vals*=INT;\n", "model m item a 1 2 item b -> a\n"),
    ("Model: shapes*=Shape;\nShape: Circle | Rect;\nCircle: 'circle' name=ID r=INT;\nRect: 'rect' name=ID w=INT h=INT label=STRING?;\nKw: 'x' | 'y';\n", "circle c 1 rect r 2 3 \"a|b\"\n"),
    ("Doc: title=STRING sections+=Section;\nSection: 'section' name=ID ('{' subs+=Section '}')?;\n", "\"T\" section a { section b section c { section d } }\n"),
]


def gen_grammar(r, i):
    if i < len(GRAMMARS):
        return GRAMMARS[i]
    nrules = r.range(1, 4)
    rules = []
    names = ["R%d" % k for k in range(nrules)]
    rules.append("Model: 'model' name=ID " + " ".join("%s+=%s" % (n.lower(), n) for n in names) + ";")
    for k, n in enumerate(names):
        attrs = ["name=ID"]
        if r.chance(0.6):
            attrs.append("v=INT")
        if r.chance(0.4):
            attrs.append("s=STRING")
        if r.chance(0.4) and k > 0:
            attrs.append("('to' t=[%s])?" % names[r.below(k + 1)])
        rules.append("%s: '%s' %s;" % (n, n.lower(), " ".join(attrs)))
    grammar = "\n".join(rules) + "\n"
    model = "model mm"
    for k, n in enumerate(names):
        inst = "%s o%d" % (n.lower(), k)
        rule = rules[k + 1]
        if "v=INT" in rule:
            inst += " %d" % r.below(100)
        if "s=STRING" in rule:
            inst += ' "%s"' % r.choice(["x", "a b", "q{r}", "<t>"])
        model += " " + inst
    return grammar, model + "\n"


def model_expr(n, plan, pre):
    fl = {"open": "AtOpen", "close": "AtClose", "replace": "AtReplace"}.get(plan["kind"])
    if fl is None:
        fl = "(AtWrite %d %s)" % (plan["k"], core.coq_bool(plan.get("partial", False)))
    f0 = "{| target := %s; temp := None |}" % ("(Some [Chunk 999])" if pre else "None")
    chunks = "(seq 0 %d)" % n
    return "show_run %d (gen_file %s %s %s %s) (gen_file false (fst (gen_file %s %s %s %s)) %s NoFailure)" % (
        n, core.coq_bool(pre), f0, chunks, fl, core.coq_bool(pre), f0, chunks, fl, chunks)


IMPORTS = """From TxV Require Import Core.Base Core.Show Gen.SrcFs Model.Fs.
Open Scope string_scope.
Fixpoint piece_eqb (a b : piece) : bool := match a, b with Chunk i, Chunk j => Nat.eqb i j | PartOf i, PartOf j => Nat.eqb i j | _, _ => false end.
Fixpoint pieces_eqb (a b : list piece) : bool := match a, b with [], [] => true | x :: a', y :: b' => piece_eqb x y && pieces_eqb a' b' | _, _ => false end.
Definition show_target (n : nat) (t : option (list piece)) : string :=
  match t with None => "absent" | Some c => if pieces_eqb c (complete (seq 0 n)) then "complete" else if pieces_eqb c [Chunk 999] then "old" else "partial" end.
Definition show_run (n : nat) (r1 r2 : fs * bool) : string :=
  show_bool (snd r1) ++ "|" ++ show_target n (target (fst r1)) ++ "|" ++ (match temp (fst r1) with None => "clean" | Some _ => "leftover" end)
  ++ "|" ++ show_target n (target (fst r2)).
"""


def run(chk):
    chk.prove([fsops_tr.translate])
    nexp = 50 if chk.thorough else 5
    cases = []
    for i in range(nexp):
        r = chk.rng.split(i)
        g, m = gen_grammar(r, i)
        for kind in (("mm-dot", "mm-plantuml", "model-dot") if chk.thorough or i < 2 else (["mm-dot", "mm-plantuml", "model-dot"][i % 3],)):
            cases.append({"kind": kind, "grammar": g, "model": m})
    chunks = [cases[i::core.NPROC] for i in range(core.NPROC)]
    chunks = [c for c in chunks if c]
    outs = core.run_impl_parallel("c31", [{"cases": ch} for ch in chunks])
    flat = []
    for ch, o in zip(chunks, outs):
        for c, x in zip(ch, o):
            flat.append((c, x))
    exprs, index = [], []
    failures, disagreements = [], []
    for c, x in flat:
        if "error" in x:
            disagreements.append({"case": c, "impl": x["error"]})
            continue
        for res in x["results"]:
            exprs.append(model_expr(x["n_writes"], res["plan"], res["pre"]))
            index.append((c, x, res))
    vals, errs = core.coq_eval("C31", IMPORTS, exprs)
    if errs:
        disagreements.append({"case": "coq evaluation", "model": errs[:2]})
    for (c, x, res), mv in zip(index, vals):
        key = json.dumps([c["kind"], c["grammar"], res["plan"], res["pre"]])
        chk.count(key, nontrivial=res["raised"] is not None)
        chk.stat(c["kind"])
        chk.stat("fail@" + res["plan"]["kind"])
        impl_s = "%s|%s|%s|%s" % ("T" if res["raised"] else "F", res["target"], "leftover" if res["leftovers"] else "clean", res["rerun_target"])
        if mv is not None and mv != impl_s:
            disagreements.append({"case": {"kind": c["kind"], "plan": res["plan"], "pre": res["pre"], "grammar": c["grammar"]}, "impl": res, "model": mv})
        bad = None
        if res["raised"] and str(res["raised"]).startswith("OTHER"):
            bad = "unexpected exception " + res["raised"]
        elif res["target"] == "partial":
            bad = "a partially written %s is left behind after a failure at %s" % (x["target"], res["plan"])
        elif res["leftovers"]:
            bad = "files left behind after the failure: %s" % res["leftovers"]
        elif res["raised"] and res["rerun_target"] != ("old" if res["pre"] else "complete"):
            bad = "the later run without --overwrite left the target %s" % res["rerun_target"]
        elif not res["raised"] and res["target"] != "complete":
            bad = "run without failure left the target %s" % res["target"]
        if bad:
            failures.append({"case": {"kind": c["kind"], "plan": res["plan"], "pre": res["pre"], "grammar": c["grammar"], "model": c["model"]},
                             "impl": res, "what": bad, "tags": []})
        if chk.cov["evaluations"] % 200 == 17:
            chk.sample({"kind": c["kind"], "plan": res["plan"], "pre_existing_target": res["pre"], "outcome": impl_s})
    chk.cov["rule"] = ("%d exports (built-in textX->dot, textX->PlantUML, any->dot generators over fixed and random grammars/models) x an injected failure at open, at every write call "
                       "(with and without partial data), at close and at os.replace, some also with a pre-existing target and --overwrite; each followed by a run without --overwrite; "
                       "non-trivial = the injected failure fired; distinct by (generator, grammar, failure point, pre-existing)" % len(cases))
    chk.cov["exhaustive"] = True
    chk.assumptions += ["translator fsops_tr.py; open/os.replace semantics as in Model/Fs.v (replace is atomic; a crash of the process itself may leave the temporary file, never a partial target)",
                        "failures are injected by wrapping builtins.open / os.replace in the runner process"]
    decide(chk, failures, disagreements)
