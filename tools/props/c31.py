"""C31 — generated output files are all-or-nothing."""
import json
import os
from vt import core
from vt.main import decide
from translate import fsops_tr

GRAMMARS = [
    ("Model: 'model' name=ID items+=Item;\nItem: 'item' name=ID ('->' ref=[Item])? vals*=INT;\n", "model m item a 1 2 item b -> a\n"),
    ("Model: shapes*=Shape;\nShape: Circle | Rect;\nCircle: 'circle' name=ID r=INT;\nRect: 'rect' name=ID w=INT h=INT label=STRING?;\nKw: 'x' | 'y';\n", "circle c 1 rect r 2 3 \"a|b\"\n"),
    ("Doc: title=STRING sections+=Section;\nSection: 'section' name=ID ('{' subs+=Section '}')?;\n", "\"T\" section a { section b section c { section d } }\n"),
]


def gen_grammar(r, i):
    if i < len(GRAMMARS):
        return GRAMMARS[i]
    nrules = r.range(1, 4)
    rules = []
    names = ["R%d" % k for k in range(nrules)]
    rules.append("Model: 'model' name=ID " + " ".join("%s+=%s" % (n.lower(), n) for n in names) + ";")
    for k, n in enumerate(names):
        attrs = ["name=ID"]
        if r.chance(0.6):
            attrs.append("v=INT")
        if r.chance(0.4):
            attrs.append("s=STRING")
        if r.chance(0.4) and k > 0:
            attrs.append("('to' t=[%s])?" % names[r.below(k + 1)])
        rules.append("%s: '%s' %s;" % (n, n.lower(), " ".join(attrs)))
    grammar = "\n".join(rules) + "\n"
    model = "model mm"
    for k, n in enumerate(names):
        inst = "%s o%d" % (n.lower(), k)
        rule = rules[k + 1]
        if "v=INT" in rule:
            inst += " %d" % r.below(100)
        if "s=STRING" in rule:
            inst += ' "%s"' % r.choice(["x", "a b", "q{r}", "<t>"])
        model += " " + inst
    return grammar, model + "\n"


STEP = {"B": "Buf", "A": "FlushAll", "K": "FlushKeep"}


def model_failure(plan, events):
    """The injected failure in the model's terms.  A low-level write index is mapped to the write event it
    belongs to (an event = the low-level writes made by one write call or by close); a failure after the
    first low-level write of an event has part of the event's data in the file."""
    kind = plan["kind"]
    if kind in ("open", "close", "replace"):
        return {"open": "AtOpen", "close": "AtClose", "replace": "AtReplace"}[kind]
    if not kind == "raw":
        return "NoFailure"
    k, e = plan["k"], 0
    for e, n in enumerate(events):
        if k < n:
            return "(AtFlush %d %s %s)" % (e, core.coq_bool(plan["persistent"]), core.coq_bool(plan["partial"] or k > 0))
        k -= n
    return "(AtFlush %d %s %s)" % (len(events) + k, core.coq_bool(plan["persistent"]), core.coq_bool(plan["partial"]))


def model_expr(n, sched, fl, pre, xdev=False):
    f0 = "{| target := %s; temp := None |}" % ("(Some [Chunk 999])" if pre else "None")
    chunks = "(seq 0 %d)" % n
    sc = "[" + ";".join(STEP[x] for x in sched) + "]"
    xd = core.coq_bool(xdev)
    return "show_run %d %s (gen_file %s %s %s %s %s %s) (gen_file %s false (fst (gen_file %s %s %s %s %s %s)) %s %s NoFailure)" % (
        n, sc, xd, core.coq_bool(pre), f0, chunks, sc, fl, xd, xd, core.coq_bool(pre), f0, chunks, sc, fl, chunks, sc)


IMPORTS = """From TxV Require Import Core.Base Core.Show Model.FsDefs Gen.SrcFs Model.Fs.
Open Scope string_scope.
Fixpoint piece_eqb (a b : piece) : bool := match a, b with Chunk i, Chunk j => Nat.eqb i j | PartOf i, PartOf j => Nat.eqb i j | _, _ => false end.
Fixpoint pieces_eqb (a b : list piece) : bool := match a, b with [], [] => true | x :: a', y :: b' => piece_eqb x y && pieces_eqb a' b' | _, _ => false end.
Definition show_target (n : nat) (t : option (list piece)) : string :=
  match t with None => "absent" | Some c => if pieces_eqb c (complete (seq 0 n)) then "complete" else if pieces_eqb c [Chunk 999] then "old" else "partial" end.
Definition show_run (n : nat) (sc : list step) (r1 r2 : fs * bool) : string :=
  show_bool (snd r1) ++ "|" ++ show_target n (target (fst r1)) ++ "|" ++ (match temp (fst r1) with None => "clean" | Some _ => "leftover" end)
  ++ "|" ++ show_target n (target (fst r2)) ++ "|" ++ show_nat (n_events (seq 0 n) sc).
"""


def run(chk):
    chk.prove([fsops_tr.translate])
    nexp = 40 if chk.thorough else 5
    cases = []
    cdir = os.path.join(core.VERIF, "corpus", "C31")
    for fn in sorted(os.listdir(cdir)) if os.path.isdir(cdir) else []:      # corpus first
        j = json.load(open(os.path.join(cdir, fn)))
        cases.append({"kind": j["kind"], "grammar": j["grammar"], "model": j["model"], "bufsizes": j["bufsizes"], "quick": not chk.thorough})
    for i in range(nexp):
        r = chk.rng.split(i)
        g, m = gen_grammar(r, i)
        small = r.choice([24, 48, 100, 333])
        for kind in (("mm-dot", "mm-plantuml", "model-dot") if chk.thorough or i < 1 else (["mm-dot", "mm-plantuml", "model-dot"][i % 3],)):
            cases.append({"kind": kind, "grammar": g, "model": m, "bufsizes": [0, small] + ([1500] if chk.thorough else []), "quick": not chk.thorough})
    chunks = [cases[i::core.NPROC] for i in range(core.NPROC)]
    chunks = [c for c in chunks if c]
    outs = core.run_impl_parallel("c31", [{"cases": ch} for ch in chunks])
    flat = []
    for ch, o in zip(chunks, outs):
        for c, x in zip(ch, o):
            flat.append((c, x))
    exprs, index = [], []
    failures, disagreements = [], []
    for c, x in flat:
        if "error" in x:
            disagreements.append({"case": c, "impl": x["error"]})
            continue
        for grp in x["groups"]:
            chk.stat("events=%s" % (len(grp["events"]) if len(grp["events"]) < 4 else "4+"))
            for res in grp["results"]:
                # the low-level writes of a copy into the output folder (shutil.move between file systems) are one more write event
                ev_all = grp["events"] + ([grp["copy_raw"]] if grp.get("copy_raw") else [])
                exprs.append(model_expr(len(grp["sched"]), grp["sched"], model_failure(res["plan"], ev_all), res["pre"], grp.get("xdev", False)))
                index.append((c, x, grp, res))
    vals, errs = core.coq_eval("C31", IMPORTS, exprs)
    if errs:
        disagreements.append({"case": "coq evaluation", "model": errs[:2]})
    for (c, x, grp, res), mv in zip(index, vals):
        plan = res["plan"]
        key = json.dumps([c["kind"], c["grammar"], grp["bufsize"], grp.get("xdev", False), plan, res["pre"]])
        chk.count(key, nontrivial=res["raised"] is not None)
        chk.stat(c["kind"])
        at_close = plan["kind"] == "raw" and grp["raw_total"] > plan["k"] >= grp["raw_total"] - (grp["events"][-1] if grp["events"] and grp["sched"][-1:] != ["A"] else 0)
        chk.stat("fail@" + ("flush-at-close" if at_close else plan["kind"]))
        chk.stat("buffer=" + ("default" if grp["bufsize"] == 0 else "small"))
        if grp.get("xdev"):
            chk.stat("output folder on another file system than the system temp folder")
        impl_s = "%s|%s|%s|%s|%d" % ("T" if res["raised"] else "F", res["target"], "leftover" if res["leftovers"] else "clean", res["rerun_target"], len(grp["events"]))
        brief = {"kind": c["kind"], "buffer_size": grp["bufsize"] or "default", "output_folder_on_other_filesystem": grp.get("xdev", False), "plan": plan, "pre": res["pre"], "grammar": c["grammar"]}
        if mv is not None and mv != impl_s:
            disagreements.append({"case": brief, "impl": impl_s, "model": mv, "detail": {k: res[k] for k in ("raised", "size", "leftovers", "opened", "replaced")}})
        bad = None
        expect_fire = plan["kind"] in ("open", "close", "replace") or (plan["kind"] == "raw" and plan["k"] < grp["raw_total"])
        if res["raised"] and str(res["raised"]).startswith("OTHER"):
            bad = "unexpected exception " + res["raised"]
        elif res["target"] == "partial":
            bad = "a partially written %s (%d of %d bytes) is left behind after a failure at %s" % (x["target"], res["size"], x["full_size"], plan)
        elif res["leftovers"]:
            bad = "files left behind after the failure: %s" % res["leftovers"]
        elif res["raised"] and res["rerun_target"] != ("old" if res["pre"] else "complete"):
            bad = "the later run without --overwrite left the target %s" % res["rerun_target"]
        elif not res["raised"] and res["target"] != "complete":
            bad = "run without exception left the target %s" % res["target"]
        elif expect_fire and res["fired"] and not res["raised"]:
            bad = "the injected failure was swallowed"
        if bad:
            failures.append({"case": dict(brief, model=c["model"]), "impl": {k: res[k] for k in ("raised", "target", "size", "leftovers", "rerun_target", "opened", "replaced")},
                             "what": bad, "tags": []})
        if chk.cov["evaluations"] % 300 == 17:
            chk.sample({"kind": c["kind"], "buffer": grp["bufsize"] or "default", "plan": plan, "pre_existing_target": res["pre"], "outcome": impl_s})
    chk.cov["rule"] = ("%d exports (built-in textX->dot, textX->PlantUML, any->dot generators over fixed and random grammars/models), each with the default file stack (8 KiB buffers: "
                       "everything is written by the flush inside close) and a small write-through buffer (many low-level writes) x an injected failure at open, at low-level "
                       "write calls of the raw file (first, last = flush at close, and a spread in between; once and persistently, with and without partial data), at close and at "
                       "os.replace, some also with a pre-existing target and --overwrite; each followed by a run without --overwrite; "
                       "non-trivial = the run raised; distinct by (generator, grammar, buffer, failure point, pre-existing)" % len(cases))
    chk.cov["exhaustive"] = False
    chk.assumptions += ["translator fsops_tr.py; open/os.replace/os.remove semantics as in Model/Fs.v (replace is atomic, an open file follows a rename; a crash of the process itself "
                        "may leave the temporary file, never a partial target)",
                        "buffering abstraction of Model/Fs.v: per write call Buf/FlushAll/FlushKeep, close flushes the rest (measured per run and compared: number of write events)",
                        "failures are injected in the runner process below io.TextIOWrapper/io.BufferedWriter (io.FileIO subclass), and by wrapping builtins.open / os.replace"]
    failures.sort(key=lambda f: 0 if f["impl"]["target"] == "partial" else 1)
    decide(chk, failures, disagreements)
