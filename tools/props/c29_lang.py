"""Membership of an exported text in the language of a translated template (tx term of Gen/SrcExport.v), by
simulating a Thompson automaton built from the same term the translator emits.  Used by the C29 check to validate
the translator's claims on real outputs: the control-flow abstraction and the kind given to every hole."""
from translate import export_tr


def is_word(c):
    return (c.isascii() and (c.isalnum() or c in "_.")) or ord(c) >= 128


def is_plain(c):
    return is_word(c) or c in "+-*"


class NFA:
    def __init__(self):
        self.eps = []
        self.tr = []      # per state: list of (predicate, target)

    def new(self):
        self.eps.append([])
        self.tr.append([])
        return len(self.eps) - 1

    def lit(self, a, text):
        for ch in text:
            b = self.new()
            self.tr[a].append((lambda c, ch=ch: c == ch, b))
            a = b
        return a

    def loop(self, a, pred):
        b = self.new()
        self.eps[a].append(b)
        self.tr[b].append((pred, b))
        return b


def esc_units(chain):
    keys = [a for a, _ in chain]
    units = {}
    for k in keys:
        t = k
        for a, b in chain:
            t = t.replace(a, b)
        units[k] = t
    return units


def build(n, t, a, chain, limit):
    """adds t starting at state a, returns the end state"""
    if t[0] == "Lit":
        return n.lit(a, t[1])
    if t[0] == "Cat":
        for p in t[1]:
            a = build(n, p, a, chain, limit)
        return a
    if t[0] == "Alt":
        end = n.new()
        for p in t[1]:
            s = n.new()
            n.eps[a].append(s)
            n.eps[build(n, p, s, chain, limit)].append(end)
        return end
    if t[0] == "Star":
        s = n.new()
        n.eps[a].append(s)
        e = build(n, t[1], s, chain, limit)
        n.eps[e].append(s)
        return s
    k = t[1]
    if k == "HDigits":
        return n.loop(a, lambda c: c in "0123456789")
    if k == "HIdent":
        return n.loop(a, is_word)
    if k == "HPlain":
        return n.loop(a, is_plain)
    if k == "HHtml":
        return n.loop(a, lambda c: c not in "<>")
    if k == "HRaw":
        return n.loop(a, lambda c: True)
    units = esc_units(chain)

    def escaped(a, prefixes):
        """(units)*; with prefixes=True every intermediate state may stop (truncated text)"""
        q = n.new()
        n.eps[a].append(q)
        out = n.new() if prefixes else q
        if prefixes:
            n.eps[q].append(out)
        n.tr[q].append((lambda c: c not in units, q))
        for u in units.values():
            cur = q
            for j, ch in enumerate(u):
                nxt = q if j == len(u) - 1 else n.new()
                n.tr[cur].append((lambda c, ch=ch: c == ch, nxt))
                if prefixes and nxt is not q:
                    n.eps[nxt].append(out)
                cur = nxt
        return out
    if k == "HEscaped":
        return escaped(a, False)
    if k == "HPrim":
        end = n.new()
        n.eps[n.loop(a, is_plain)].append(end)
        q = n.lit(a, "'")
        e = escaped(q, True)
        n.eps[n.lit(e, "'")].append(end)
        n.eps[n.lit(e, "...'")].append(end)
        return end
    raise ValueError("unknown hole kind " + k)


class Docs:
    def __init__(self):
        self.chain, self.limit, self.docs = export_tr.compute()
        self.nfas = {}

    def nfa(self, name):
        if name not in self.nfas:
            n = NFA()
            s = n.new()
            e = build(n, self.docs[name], s, self.chain, self.limit)
            self.nfas[name] = (n, s, e)
        return self.nfas[name]

    def member(self, name, text):
        """None when text is in the language, else a short reason"""
        n, s, e = self.nfa(name)

        def close(states):
            stack, seen = list(states), set(states)
            while stack:
                x = stack.pop()
                for y in n.eps[x]:
                    if y not in seen:
                        seen.add(y)
                        stack.append(y)
            return seen
        cur = close({s})
        for i, c in enumerate(text):
            nxt = set()
            for x in cur:
                for pred, y in n.tr[x]:
                    if pred(c):
                        nxt.add(y)
            if not nxt:
                return "no template continues at offset %d: %r" % (i, text[max(0, i - 30):i + 10])
            cur = close(nxt)
        return None if e in cur else "text ends in the middle of a template"
