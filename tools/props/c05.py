"""C05 — containment links and the model navigation API are consistent.

Theorems: coq/Props/C05.v over coq/Model/Nav.v.  Tie: correspondence — random grammars
(recursive containment, abstract containment targets, references incl. back edges, user
classes) and models are loaded by the real textX; the object graph is dumped by an independent
walk and the answers of obj.parent / get_model / get_parent_of_type / get_children /
get_children_of_type are compared with the Coq model evaluated on the same dump, and judged by
a direct property oracle."""
import json
import os
from vt import core
from vt.main import decide
from translate import nav_tr

FINDING_TAG = "attr_named_parent"
CORPUS = os.path.join(core.VERIF, "corpus", "C05")


# ------------------------------------------------------------------ grammar generator
KINDS = [("cont_many", 8), ("cont_opt", 6), ("cont_one", 2), ("cont_plus", 2), ("ref_one", 4), ("ref_many", 3),
         ("p_int", 2), ("p_str", 2), ("p_bool", 2), ("p_list", 2), ("p_float", 1)]
PREFIX = {"cont_many": "c", "cont_opt": "c", "cont_one": "c", "cont_plus": "c", "ref_one": "r", "ref_many": "r",
          "p_int": "p", "p_str": "p", "p_bool": "p", "p_list": "p", "p_float": "p"}


def gen_grammar(r, with_parent_attr):
    nr = r.weighted([(2, 2), (3, 4), (4, 3), (5, 1)])
    rules = ["R%d" % i for i in range(nr)]
    nabs = r.weighted([(0, 2), (1, 4), (2, 2)])
    abstracts = {}
    for j in range(nabs):
        alts = r.sample(rules, r.range(1, min(3, nr)))
        if j and r.chance(0.3):
            alts.insert(r.below(len(alts) + 1), "A%d" % (j - 1))
        abstracts["A%d" % j] = alts
    targets = rules + list(abstracts)
    attrs = {}
    for i, rn in enumerate(rules):
        lst = []
        for k in range(r.weighted([(1, 2), (2, 4), (3, 3), (4, 1)])):
            kind = r.weighted(KINDS)
            if i == 0 and k == 0 and not kind.startswith("cont_"):
                kind = "cont_many"                      # the root contains something
            tgt = None
            if kind in ("cont_one", "cont_plus"):
                later = rules[i + 1:]
                if later:
                    tgt = r.choice(later)               # mandatory containment only down a DAG
                else:
                    kind = "cont_opt" if kind == "cont_one" else "cont_many"
            if tgt is None and not kind.startswith("p_"):
                tgt = r.choice(targets)
            lst.append({"name": "%s%d" % (PREFIX[kind], k), "kind": kind, "target": tgt, "sep": r.chance(0.3)})
        attrs[rn] = lst
    if with_parent_attr:
        rn = r.choice(rules)
        r.choice(attrs[rn])["name"] = "parent"
    return {"rules": rules, "abstracts": abstracts, "attrs": attrs}


def closure(G, t):
    if t in G["attrs"]:
        return [t]
    out = []
    for a in G["abstracts"][t]:
        for c in closure(G, a):
            if c not in out:
                out.append(c)
    return out


def grammar_text(G):
    lines = []
    for rn in G["rules"]:
        parts = []
        for a in G["attrs"][rn]:
            n, k, t = a["name"], a["kind"], a["target"]
            kw = "'@%s'" % n
            sep = "[',']" if a["sep"] else ""
            if k == "p_int":
                parts.append("(%s %s=INT)?" % (kw, n))
            elif k == "p_str":
                parts.append("(%s %s=STRING)?" % (kw, n))
            elif k == "p_float":
                parts.append("(%s %s=FLOAT)?" % (kw, n))
            elif k == "p_bool":
                parts.append("%s?=%s" % (n, kw))
            elif k == "p_list":
                parts.append("(%s '[' %s+=INT[','] ']')?" % (kw, n))
            elif k == "cont_one":
                parts.append("%s %s=%s" % (kw, n, t))
            elif k == "cont_opt":
                parts.append("(%s %s=%s)?" % (kw, n, t))
            elif k == "cont_many":
                parts.append("(%s '[' %s*=%s%s ']')?" % (kw, n, t, sep))
            elif k == "cont_plus":
                parts.append("%s '[' %s+=%s%s ']'" % (kw, n, t, sep))
            elif k == "ref_one":
                parts.append("(%s %s=[%s])?" % (kw, n, t))
            elif k == "ref_many":
                parts.append("(%s '[' %s+=[%s][','] ']')?" % (kw, n, t))
        lines.append("%s: '%%%s' name=ID '{' %s '}';" % (rn, rn, " ".join(parts)))
    for an, alts in G["abstracts"].items():
        lines.append("%s: %s;" % (an, " | ".join(alts)))
    return "\n".join(lines) + "\n"


# ------------------------------------------------------------------ model generator
def gen_model(r, G, max_objs):
    state = {"n": 0, "objs": []}

    def mk(rule, depth, ancestors):
        o = {"rule": rule, "name": "n%d" % state["n"], "vals": {}, "anc": ancestors}
        state["n"] += 1
        state["objs"].append(o)
        anc2 = ancestors + [o]
        room = lambda: state["n"] < max_objs and depth < 6  # noqa: E731
        for a in G["attrs"][rule]:
            n, k, t = a["name"], a["kind"], a["target"]
            if k == "p_int":
                if r.chance(0.5):
                    o["vals"][n] = r.below(100)
            elif k == "p_str":
                if r.chance(0.5):
                    o["vals"][n] = r.choice(["", "x", "two words", "q"])
            elif k == "p_float":
                if r.chance(0.5):
                    o["vals"][n] = r.choice(["0.5", "2.25", "10.0"])
            elif k == "p_bool":
                o["vals"][n] = r.chance(0.5)
            elif k == "p_list":
                if r.chance(0.5):
                    o["vals"][n] = [r.below(10) for _ in range(r.range(1, 3))]
            elif k == "cont_one":
                o["vals"][n] = mk(t, depth + 1, anc2)
            elif k == "cont_opt":
                if room() and r.chance(0.95 if depth == 0 else 0.7 if depth < 3 else 0.35):
                    o["vals"][n] = mk(r.choice(closure(G, t)), depth + 1, anc2)
            elif k == "cont_many":
                if depth == 0 or r.chance(0.85):
                    cnt = (r.range(2, 4) if depth == 0 else r.weighted([(0, 1), (1, 3), (2, 4), (3, 2)]) if depth < 3
                           else r.weighted([(0, 3), (1, 3), (2, 1)]))
                    kids = []
                    for _ in range(cnt):
                        if room():
                            kids.append(mk(r.choice(closure(G, t)), depth + 1, anc2))
                    o["vals"][n] = kids
            elif k == "cont_plus":
                cnt = r.weighted([(1, 4), (2, 3), (3, 1)])
                kids = [mk(t, depth + 1, anc2)]
                for _ in range(cnt - 1):
                    if room():
                        kids.append(mk(t, depth + 1, anc2))
                o["vals"][n] = kids
        return o
    root = mk("R0", 0, [])
    # references: placed after the tree exists, biased toward back edges (ancestors, self)
    for o in state["objs"]:
        for a in G["attrs"][o["rule"]]:
            if a["kind"] not in ("ref_one", "ref_many") or not r.chance(0.7):
                continue
            ok = closure(G, a["target"])
            cands = [x for x in state["objs"] if x["rule"] in ok]
            back = [x for x in o["anc"] + [o] if x["rule"] in ok]
            if not cands:
                continue
            pick = lambda: (r.choice(back) if back and r.chance(0.5) else r.choice(cands))["name"]  # noqa: E731
            if a["kind"] == "ref_one":
                o["vals"][a["name"]] = pick()
            else:
                o["vals"][a["name"]] = [pick() for _ in range(r.range(1, 3))]
    return root, state["n"]


def render(G, o):
    out = ["%%%s %s {" % (o["rule"], o["name"])]
    for a in G["attrs"][o["rule"]]:
        n, k = a["name"], a["kind"]
        if n not in o["vals"]:
            continue
        v = o["vals"][n]
        kw = "@" + n
        if k in ("p_int", "p_float"):
            out.append("%s %s" % (kw, v))
        elif k == "p_str":
            out.append('%s "%s"' % (kw, v))
        elif k == "p_bool":
            if v:
                out.append(kw)
        elif k == "p_list":
            out.append("%s [ %s ]" % (kw, " , ".join(str(x) for x in v)))
        elif k in ("cont_one", "cont_opt"):
            out.append("%s %s" % (kw, render(G, v)))
        elif k in ("cont_many", "cont_plus"):
            out.append("%s [ %s ]" % (kw, (" , " if a["sep"] else " ").join(render(G, c) for c in v)))
        elif k == "ref_one":
            out.append("%s %s" % (kw, v))
        elif k == "ref_many":
            out.append("%s [ %s ]" % (kw, " , ".join(v)))
    out.append("}")
    return " ".join(out)


def gen_pred(r, names, for_sel):
    k = r.weighted([("true", 4 if not for_sel else 3), ("cls", 3), ("notcls", 2), ("idmod", 2), ("false", 1)])
    if k in ("cls", "notcls"):
        return {"k": k, "names": r.sample(names, r.range(1, max(1, len(names) // 2)))}
    if k == "idmod":
        m = r.range(2, 4)
        return {"k": k, "m": m, "r": r.below(m)}
    return {"k": k}


def gen_case(r, i, thorough):
    with_parent = r.chance(0.06)
    for attempt in range(4):                    # prefer models with at least three objects
        G = gen_grammar(r.split("g%d" % attempt), with_parent)
        root, n = gen_model(r.split("m%d" % attempt), G, r.choice([6, 12, 20, 30]) if not thorough else r.choice([8, 16, 30, 45]))
        if n >= 3:
            break
    names = G["rules"] + list(G["abstracts"])
    rq = r.split("q")
    user = {}
    for rn in G["rules"]:
        if rq.chance(0.4):
            # `init_parent` (constructor stores the parent it is given) only for rules that are never the root;
            # falsy instances (len0 / bool_off / len_kids), odd equality (eq_all / eq_none) and unhashable instances
            user[rn] = rq.weighted([("plain", 2), ("eq_all", 2), ("eq_none", 1), ("unhashable", 1), ("len0", 3), ("bool_off", 3),
                                    ("len_kids", 2)] + ([] if rn == "R0" else [("init_parent", 2)]))
    types = names + ["Nope", "object"]
    queries = []
    for _ in range(8):
        q = {"root": 0 if rq.chance(0.65) else rq.below(1000), "sel": gen_pred(rq, names, True), "typ": None,
             "sf": gen_pred(rq, names, False), "sfprim": rq.chance(0.8), "cf": rq.chance(0.45)}
        if rq.chance(0.03):
            q["root"] = None
        if rq.chance(0.3):
            q["typ"] = {"name": rq.choice(types), "form": rq.choice(["str", "cls"])}
        queries.append(q)
    return {"grammar": grammar_text(G), "text": render(G, root), "user": user, "types": types, "queries": queries,
            "parent_attr": with_parent, "gen_objects": n,
            # known-finding class: loading can loop forever (get_model over cyclic `parent` references)
            "time_limit": 6 if with_parent else 120}


# ------------------------------------------------------------------ systematic small models
ENUM_GRAMMAR = ("N: '%N' name=ID '{' ('@o' o=T)? ('@k' '[' k*=T ']')? ('@r' r=[T])? ('@rs' '[' rs+=[T][','] ']')? '}';\n"
                "M: '%M' name=ID '{' ('@k' '[' k*=T ']')? ('@r' r=[N])? '}';\nT: N | M;\n")
ENUM_QUERIES = [
    {"root": 0, "sel": {"k": "true"}, "typ": None, "sf": {"k": "true"}, "sfprim": True, "cf": False},
    {"root": 0, "sel": {"k": "true"}, "typ": None, "sf": {"k": "true"}, "sfprim": True, "cf": True},
    {"root": 0, "sel": {"k": "cls", "names": ["N"]}, "typ": None, "sf": {"k": "notcls", "names": ["M"]}, "sfprim": False, "cf": False},
    {"root": 0, "sel": {"k": "idmod", "m": 2, "r": 0}, "typ": None, "sf": {"k": "idmod", "m": 3, "r": 1}, "sfprim": True, "cf": True},
    {"root": 1, "sel": {"k": "true"}, "typ": None, "sf": {"k": "true"}, "sfprim": True, "cf": True},
    {"root": 2, "sel": {"k": "true"}, "typ": {"name": "M", "form": "cls"}, "sf": {"k": "true"}, "sfprim": True, "cf": False},
    {"root": 0, "sel": {"k": "true"}, "typ": {"name": "N", "form": "str"}, "sf": {"k": "cls", "names": ["N"]}, "sfprim": True, "cf": True},
    {"root": 0, "sel": {"k": "true"}, "typ": {"name": "T", "form": "cls"}, "sf": {"k": "true"}, "sfprim": True, "cf": False},
]


def plane_trees(n):
    """all ordered trees with n nodes, as nested lists of children"""
    if n == 1:
        return [[]]
    out = []
    for first in range(1, n):                       # size of the first child's subtree
        for a in plane_trees(first):
            for rest in plane_trees(n - first):     # the root with its remaining children
                out.append([a] + rest)
    return out


def enum_cases(maxn):
    cases = []
    for n in range(1, maxn + 1):
        for shape in plane_trees(n):
            for variant in range(3):
                counter = [0]
                allnames = []

                def emit(node, depth, anc):
                    i = counter[0]
                    counter[0] += 1
                    name = "n%d" % i
                    allnames.append(name)
                    is_m = depth > 0 and ((variant == 1 and depth % 2 == 1) or (variant == 2 and i % 3 == 2))
                    cls = "M" if is_m else "N"
                    anc2 = anc + [(name, cls)]
                    kids = [emit(c, depth + 1, anc2) for c in node]
                    parts = ["%%%s %s {" % (cls, name)]
                    if cls == "N" and kids and (i + variant) % 2 == 0:
                        parts.append("@o " + kids.pop(0))
                    if kids or i % 2:
                        parts.append("@k [ %s ]" % " ".join(kids))
                    nanc = [a for a, c in anc if c == "N"]
                    if cls == "N":
                        tgt = [name, anc[0][0] if anc else name, anc[-1][0] if anc else name][(i + variant) % 3]
                        parts.append("@r " + tgt)
                        if variant == 2 and len(anc) >= 2:
                            parts.append("@rs [ %s , %s ]" % (anc[-2][0], name))
                    elif nanc:
                        parts.append("@r " + nanc[-1])
                    parts.append("}")
                    return " ".join(parts)
                text = emit(shape, 0, [])
                cases.append({"grammar": ENUM_GRAMMAR, "text": text, "user": [{"N": "len_kids"}, {"M": "eq_all", "N": "unhashable"}, {"M": "len0", "N": "bool_off"}][variant],
                              "types": ["N", "M", "T", "Nope", "object"], "queries": ENUM_QUERIES, "time_limit": 120})
    return cases


# ------------------------------------------------------------------ Coq side
IMPORTS = """From TxV Require Import Core.Base Core.Show Model.Nav Model.NavRun.
Open Scope N_scope.
Definition A := Build_ameta."""


class Names:
    """Coq definitions for the strings that occur in the cases (keeps the case terms small)."""

    def __init__(self):
        self.ix = {}

    def ref(self, text):
        if text not in self.ix:
            self.ix[text] = "s%d" % len(self.ix)
        return self.ix[text]

    def defs(self):
        return "\n".join("Definition %s : list N := %s." % (v, core.coq_str(k)) for k, v in self.ix.items())


def coq_obj(t, names):
    if "prim" in t:
        return "(Prim %d [])" % t["prim"]
    if "ref" in t:
        return "(Ref %d)" % t["ref"]
    slots = []
    for s in t["slots"]:
        slots.append("(A %s %s %s, %s)" % (names.ref(s["name"]), core.coq_bool(s["cont"]), core.coq_bool(s["many"]),
                                           core.coq_list([coq_obj(v, names) for v in s["vals"]])))
    return "(Node %d %s %s)" % (t["id"], names.ref(t["cls"]), core.coq_list(slots))


def coq_pred(p, names):
    k = p["k"]
    if k == "true":
        return "PTrue"
    if k == "false":
        return "PFalse"
    if k in ("cls", "notcls"):
        return "(%s %s)" % ("PCls" if k == "cls" else "PNotCls", core.coq_list([names.ref(n) for n in p["names"]]))
    return "(PIdMod %d %d)" % (p["m"], p["r"])


def coq_query(q, n, names):
    typ = "None"
    if q["typ"] is not None:
        typ = "(Some (%s %s))" % ("TCls" if q["typ"]["form"] == "cls" else "TStr", names.ref(q["typ"]["name"]))
    root = "None" if q["root"] is None else "(Some %d)" % (q["root"] % n)
    return "{| q_root := %s; q_sel := %s; q_typ := %s; q_sf := %s; q_sfprim := %s; q_cf := %s |}" % (
        root, coq_pred(q["sel"], names), typ, coq_pred(q["sf"], names), core.coq_bool(q["sfprim"]), core.coq_bool(q["cf"]))


def coq_case(case, out, names):
    n = count_nodes(out["tree"])
    return "let the_tree := %s in String.append (if uniq_b the_tree then \"\" else \"DUP \")%%string (run_case the_tree %s %s)" % (
        coq_obj(out["tree"], names), core.coq_list([names.ref(t) for t in case["types"]]),
        core.coq_list([coq_query(q, n, names) for q in case["queries"]]))


def impl_line(out):
    def cell(x):
        return x if isinstance(x, str) else ",".join(x)
    return "P=%s;M=%s;T=%s;Q=%s" % (",".join(out["parents"]), ",".join(out["get_model"]),
                                    "/".join(",".join(row) for row in out["parent_of_type"]),
                                    "/".join(cell(q) for q in out["queries"]))


# ------------------------------------------------------------------ property oracle (independent of the Coq model)
def count_nodes(t):
    if "slots" not in t:
        return 0
    return 1 + sum(count_nodes(v) for s in t["slots"] if s["cont"] for v in s["vals"])


def index_tree(t):
    """id -> (node, parent id or None), by a plain recursive descent over containment slots"""
    idx = {}

    def go(n, parent):
        idx[n["id"]] = (n, parent)
        for s in n["slots"]:
            if s["cont"]:
                for v in s["vals"]:
                    if "slots" in v:
                        go(v, n["id"])
    go(t, None)
    return idx


def py_pred(p, prim):
    def f(v):
        if "slots" not in v:
            return prim
        k = p["k"]
        if k == "true":
            return True
        if k == "false":
            return False
        if k == "cls":
            return v["cls"] in p["names"]
        if k == "notcls":
            return v["cls"] not in p["names"]
        return v["id"] % p["m"] != p["r"]
    return f


def spec_children(root, sel, sf, cf):
    """every object reachable from root through containment values accepted by should_follow,
    satisfying the selector, parents first (or last)"""
    res = []

    def go(n):
        if not cf and sel(n):
            res.append(n["id"])
        for s in n["slots"]:
            if s["cont"]:
                for v in s["vals"]:
                    if "slots" in v and sf(v):
                        go(v)
        if cf and sel(n):
            res.append(n["id"])
    if "slots" in root:
        go(root)
    return res


def oracle(case, out):
    """Returns a description of the first way the implementation's answers violate C05, or None."""
    for key in ("mm_error", "load_error"):
        if key in out:
            return "%s on a generated valid grammar/model: %s" % (key, out[key])
    if out["problems"]:
        return "; ".join(out["problems"][:2])
    idx = index_tree(out["tree"])
    ids = sorted(idx)
    if ids != list(range(len(ids))):
        return "dump numbering broken"
    for i in ids:
        want = "-" if idx[i][1] is None else str(idx[i][1])
        if out["parents"][i] != want:
            return "object %d (%s): parent is %s, container is %s" % (i, idx[i][0]["cls"], out["parents"][i], want)
    for i in ids:
        if out["get_model"][i] != "0":
            return "get_model(object %d) = %s, the root is 0" % (i, out["get_model"][i])
    for t, row in zip(case["types"], out["parent_of_type"]):
        for i in ids:
            p = idx[i][1]
            while p is not None and idx[p][0]["cls"] != t:
                p = idx[p][1]
            want = "N" if p is None else str(p)
            if row[i] != want:
                return "get_parent_of_type(%s, object %d) = %s, nearest such ancestor is %s" % (t, i, row[i], want)
    n = len(ids)
    for q, got in zip(case["queries"], out["queries"]):
        root = {"prim": 0, "text": ""} if q["root"] is None else idx[q["root"] % n][0]
        sf = py_pred(q["sf"], q["sfprim"])
        if q["typ"] is not None:
            sel = lambda v, t=q["typ"]["name"]: v["cls"] == t  # noqa: E731
        else:
            sel = py_pred(q["sel"], False)
        want = [str(x) for x in spec_children(root, sel, sf, q["cf"])]
        if got != want:
            return "get_children%s(root=%s, children_first=%s, sel=%s, should_follow=%s) = %s, expected %s" % (
                "_of_type" if q["typ"] else "", q["root"] if q["root"] is None else q["root"] % n, q["cf"],
                q["typ"] or q["sel"], q["sf"], got, want)
    return None


def has_parent_attr(case):
    return "parent=" in case["grammar"].replace("?=", "=").replace("+=", "=").replace("*=", "=").replace(" ", "")


# ------------------------------------------------------------------ run
def load_corpus():
    cases = []
    if os.path.isdir(CORPUS):
        for f in sorted(os.listdir(CORPUS)):
            if f.endswith(".json"):
                c = json.load(open(os.path.join(CORPUS, f)))
                c["corpus"] = f
                cases.append(c)
    return cases


def run_cases(cases):
    chunks = [cases[i::core.NPROC] for i in range(core.NPROC)]
    chunks = [c for c in chunks if c]
    outs = core.run_impl_parallel("c05", [{"cases": ch} for ch in chunks])
    res = {}
    for ch, o in zip(chunks, outs):
        for c, x in zip(ch, o):
            res[id(c)] = x
    return [res[id(c)] for c in cases]


def run(chk):
    chk.prove([nav_tr.translate])
    n = 1500 if chk.thorough else 300
    cases = load_corpus()
    cases += enum_cases(6 if chk.thorough else 4)       # every ordered tree shape up to that many objects, 3 variants each
    for i in range(n):
        cases.append(gen_case(chk.rng.split(i), i, chk.thorough))
    outs = run_cases(cases)
    failures, disagreements = [], []
    exprs, names, evald = [], Names(), []
    for k, (c, o) in enumerate(zip(cases, outs)):
        c["parent_attr"] = has_parent_attr(c)
        tags = [FINDING_TAG] if c["parent_attr"] else []
        bad = oracle(c, o)
        if bad:
            failures.append({"case": {x: c[x] for x in ("grammar", "text", "user", "types", "queries")}, "impl": {x: o[x] for x in o if x != "tree"},
                             "what": bad, "tags": tags})
        chk.stat("finding class (attribute named parent)" if c["parent_attr"] else "regular")
        exp = c.get("expect")
        if exp:
            # witnesses of the known finding: the implementation must show the symptom the Coq theorem states
            got_err = o.get("load_error") or o.get("mm_error")
            ok = True
            if "load_error_prefix" in exp:
                ok = bool(got_err) and got_err.startswith(exp["load_error_prefix"])
            else:
                ok = not got_err and o.get("parents") == exp["parents"] and o.get("get_model") == exp["get_model"]
            chk.stat("finding witness replayed")
            if not ok:
                disagreements.append({"case": {x: c[x] for x in ("grammar", "text", "user", "types", "queries")},
                                      "impl": {x: o[x] for x in o if x != "tree"},
                                      "model": "theorem %s predicts %r" % (exp["theorem"], {x: exp[x] for x in exp if x != "theorem"})})
        if "tree" not in o:
            chk.count(c["text"], nontrivial=False)
            continue
        nn = count_nodes(o["tree"])
        chk.count(json.dumps([c["grammar"], c["text"], c["user"], c["queries"]]), nontrivial=nn >= 3)
        chk.stat("objects %s" % ("1-2" if nn < 3 else "3-7" if nn < 8 else "8-15" if nn < 16 else "16+"))
        chk.stat("user classes" if c["user"] else "no user classes")
        if any(s["vals"] and not s["cont"] for node, _ in index_tree(o["tree"]).values() for s in node["slots"]):
            chk.stat("with resolved references")
        if k % 40 == 5:
            chk.sample({"grammar": c["grammar"], "text": c["text"][:300], "impl": impl_line(o)[:300]})
        if c["parent_attr"]:
            continue          # outside the model's domain (see design/C05.md); judged by the oracle only
        exprs.append(coq_case(c, o, names))
        evald.append((c, o))
    vals, errs = core.coq_eval("C05", IMPORTS, exprs, defs=names.defs(), shard=60)
    if errs:
        disagreements.append({"case": "coq evaluation", "model": errs[:2]})
    for (c, o), mv in zip(evald, vals):
        if mv is None:
            continue
        il = impl_line(o)
        if mv != il:
            disagreements.append({"case": {x: c[x] for x in ("grammar", "text", "user", "types", "queries")}, "impl": il, "model": mv})
    chk.cov["disagreements_checked"] = len(evald)
    chk.cov["rule"] = ("random grammars (2-5 common rules with recursive containment, 0-2 abstract rules used as containment and reference targets, "
                       "single/optional/many containment, single/many references placed with a bias to ancestors and self, primitive attributes, "
                       "user classes incl. one with an all-equal __eq__) and random models of 1-45 objects, loaded by textX; per case obj.parent and "
                       "get_model of every object, get_parent_of_type of every object for every rule name (string and class form), 8 get_children / "
                       "get_children_of_type queries (random selector, should_follow, order, start object); non-trivial = at least 3 objects; "
                       "distinct by (grammar, model text, user classes, queries)")
    chk.assumptions += ["translator nav_tr.py (ast of process_node's parent assignment and of get_children's attribute loop)",
                        "Python's id() is unique per live object (model: unique integer identities, hypothesis `uniq`)",
                        "selectors and should_follow are pure predicates",
                        "the object graph handed to the Coq model is the runner's own dump of the loaded model (walk over cls._tx_attrs)",
                        "grammars with an attribute called `parent` are outside the model's domain (known finding, classifier attr_named_parent)"]
    decide(chk, failures, disagreements)


def replay(rep):
    case = rep.get("case")
    if not isinstance(case, dict) or "grammar" not in case:
        print(json.dumps(rep, indent=1)[:4000])
        return 0
    out = run_cases([case])[0]
    print("grammar:\n" + case["grammar"])
    print("model text: " + case["text"])
    print("implementation: " + (impl_line(out) if "tree" in out else json.dumps(out)))
    bad = oracle(case, out)
    print("property verdict: " + (bad or "holds"))
    return 1 if bad else 0
