"""C11 — RREL reference resolution follows the documented expression semantics.

Streams:
  find : generated object graphs (textX models of a small grammar + cross-reference
         attributes set on the objects, optionally attributes reported as unresolved) x
         generated RREL expressions x name lists x target types x use_proxy -> rrel.find.
  glue : the same kind of expression attached to a grammar reference ([T:RN|expr], with or
         without split=..) or registered as a scope-provider string; the model is loaded and
         the resolved references (or the load error) are observed.
Each implementation answer is (1) compared with the Coq model's `find` on the dumped object
graph and (2) judged by a direct statement of the property (spec_* below): soundness,
completeness, precedence of ',' alternatives, proxy path.
"""
import json
import os
import re
from vt import core
from vt.main import decide
from translate import rrel_tr

ATTRS = ["kids", "members", "one", "links", "link", "parent", "zzz"]
TYPES = ["Model", "Item", "Pkg", "Cls", "Anon", "Mem", "One", "Ref"]
NAMEPOOL = ["a", "b", "c", "d"]
REFCLS_OF = {"ref": "DRef", "sref": "SRef", "cref": "CRef"}    # keyword -> class (three match rules, each with its own split)
KIND_OF = {v: k for k, v in REFCLS_OF.items()}
VIAS = [("grammar", 3), ("register_wild", 4), ("register_each", 2), ("register_obj", 3)]
CORPUS_DIR = os.path.join(core.VERIF, "corpus", "C11")

# ------------------------------------------------------------------ expressions (AST as in props/c12)
TEMPLATES = [
    "^kids*.members", "kids*.members", "kids*", "^kids", "~kids*.members", "(~kids)*.members",
    "parent(Cls).members", "parent(Pkg).kids", "..members", ".~links*.members", "kids.~one.members",
    "kids*.members.parent(Cls)", "kids*.members.~link", "'a'~kids.kids", "^kids,^members", "kids*.~one",
    "(~kids,~links)*.members", "kids.(kids)*.members", "^(kids,members)", "(..)*.kids*.members",
    "kids*.(members,~one.members)", "~kids.~kids.members", "...kids", ".", "parent(Item)", "kids*.members.~link*",
    "(~links)*", "(.~links)*.kids", "~kids*.(..).members",
    "...", "....", "...members", "....kids", "parent(Item).kids", "parent(Item).members", "parent(Item).parent(Item).kids",
    "'a'~kids.members", "'b'~kids.kids*", "kids.'a'~members", "kids*.'c'~members", "^'a'~kids.members",
    "..(members,~one.members)", "..(~one.members,members)", ".(~links,~link)", ".(~link,~links).members", "^(~links,kids).members",
]


def gen_elem(r, depth):
    k = r.weighted([("nav", 10), ("parent", 2), ("br", 2 if depth > 0 else 0), ("star", 3 if depth > 0 else 0), ("starnav", 3)])
    if k == "nav" or k == "starnav":
        m = r.weighted([("c", 5), ("t", 4), ("f", 1)])
        a = r.weighted([("kids", 6), ("members", 5), ("one", 2), ("links", 3), ("link", 2), ("parent", 1), ("zzz", 1)])
        if m == "c":
            e = ("Nav", a, True, None)
        elif m == "t":
            e = ("Nav", a, False, None)
        else:
            e = ("Nav", a, False, r.choice(NAMEPOOL))
        return e if k == "nav" else ("Star", [[e]])
    if k == "parent":
        return ("Parent", r.choice(TYPES))
    if k == "br":
        return ("Br", gen_seq(r, depth - 1))
    return ("Star", gen_seq(r, depth - 1))


def gen_path(r, depth):
    els = []
    h = r.weighted([("none", 6), ("dots", 3), ("caret", 3)])
    if h == "dots":
        els.append(("Dots", r.range(1, 3)))
    elif h == "caret":
        els.append(("Star", [[("Dots", 2)]]))
    n = r.weighted([(0, 2 if els else 0), (1, 5), (2, 5), (3, 2)])
    for _ in range(n):
        els.append(gen_elem(r, depth))
    return els


def gen_seq(r, depth):
    return [gen_path(r, depth) for _ in range(r.weighted([(1, 6), (2, 3), (3, 1)]))]


def p_elem(e, short):
    if e[0] == "Nav":
        if e[3] is not None:
            return "'%s'~%s" % (e[3], e[1])
        return e[1] if e[2] else "~" + e[1]
    if e[0] == "Parent":
        return "parent(%s)" % e[1]
    if e[0] == "Dots":
        return "." * e[1]
    if e[0] == "Br":
        return "(" + p_seq(e[1], short) + ")"
    s = e[1]
    if short and len(s) == 1 and len(s[0]) == 1 and s[0][0][0] in ("Nav", "Parent"):
        return p_elem(s[0][0], short) + "*"
    return "(" + p_seq(s, short) + ")*"


def p_path(p, short):
    if p[0][0] == "Dots":
        return "." * p[0][1] + ".".join(p_elem(e, short) for e in p[1:])
    if short and p[0] == ("Star", [[("Dots", 2)]]):
        return "^" + ".".join(p_elem(e, short) for e in p[1:])
    return ".".join(p_elem(e, short) for e in p)


def p_seq(s, short=True):
    return ",".join(p_path(p, short) for p in s)


def c_str(s):
    if s in KNOWN_STR:
        return "k_" + s
    return core.coq_str(s)


def c_elem(e):
    if e[0] == "Nav":
        return "(ENav %s %s %s)" % (c_str(e[1]), core.coq_bool(e[2]), core.coq_opt(None if e[3] is None else c_str(e[3])))
    if e[0] == "Parent":
        return "(EParent %s)" % c_str(e[1])
    if e[0] == "Dots":
        return "(EDots %d)" % e[1]
    return "(%s %s)" % ("EBr" if e[0] == "Br" else "EStar", c_seq(e[1]))


def c_path(p):
    return "(P1 %s)" % c_elem(p[0]) if len(p) == 1 else "(PCons %s %s)" % (c_elem(p[0]), c_path(p[1:]))


def c_seq(s):
    return "(S1 %s)" % c_path(s[0]) if len(s) == 1 else "(SCons %s %s)" % (c_path(s[0]), c_seq(s[1:]))


def d_elem(e):
    ct = core.canon_text
    if e[0] == "Nav":
        return "Nav(%s,%s,%s)" % (ct(e[1]), "T" if e[2] else "F", "None" if e[3] is None else ct(e[3]))
    if e[0] == "Parent":
        return "Parent(%s)" % ct(e[1])
    if e[0] == "Dots":
        return "Dots(%d)" % e[1]
    return "%s(%s)" % (e[0], d_seq(e[1]))


def d_seq(s):
    return "".join("[%s]" % ".".join(d_elem(e) for e in p) for p in s)


# a tiny reader for the printed tree dump (runner's dump_tree) back to the AST, used for the
# template expressions (written as text): tree := path-list
def parse_dump(d):
    pos = [0]

    def seq():
        paths = []
        while pos[0] < len(d) and d[pos[0]] == "[":
            pos[0] += 1
            paths.append(path())
            assert d[pos[0]] == "]"
            pos[0] += 1
        return paths

    def path():
        els = [elem()]
        while d[pos[0]] == ".":
            pos[0] += 1
            els.append(elem())
        return els

    def elem():
        m = re.compile(r"(Nav|Parent|Dots|Br|Star)\(").match(d, pos[0])
        kind = m.group(1)
        pos[0] = m.end()
        if kind in ("Br", "Star"):
            s = seq()
            assert d[pos[0]] == ")"
            pos[0] += 1
            return (kind, s)
        j = d.index(")", pos[0])
        body = d[pos[0]:j]
        pos[0] = j + 1
        if kind == "Dots":
            return ("Dots", int(body))
        if kind == "Parent":
            return ("Parent", body)
        n, c, f = body.split(",")
        return ("Nav", n, c == "T", None if f == "None" else f)

    m = re.match(r"E\(([a-z]*):", d)
    pos[0] = m.end()
    s = seq()
    return s, m.group(1)


def size(seq):
    return sum(1 + (size(e[1]) if e[0] in ("Br", "Star") else 0) for p in seq for e in p)


# ------------------------------------------------------------------ models
class Gen:
    """A containment tree in the runner's pre-order numbering."""

    def __init__(self, r, dup, refp=0.35, kinds=("ref",)):
        self.r, self.dup, self.refp, self.kinds = r, dup, refp, list(kinds)
        self.cls = []       # class name per object index
        self.text = []

    def names(self, n):
        if self.dup:
            return [self.r.choice(NAMEPOOL[:3]) for _ in range(n)]
        return self.r.sample(NAMEPOOL, n)

    def new(self, cls):
        self.cls.append(cls)
        return len(self.cls) - 1

    def refs(self, refname):
        if self.r.chance(self.refp):
            kw = self.r.choice(self.kinds)
            self.new(REFCLS_OF[kw])
            self.text.append("%s %s" % (kw, refname()))

    def item(self, name, depth):
        r = self.r
        k = r.weighted([("Pkg", 5 if depth > 0 else 1), ("Cls", 6), ("Anon", 1 if depth > 0 else 0)])
        if k == "Pkg":
            self.new("Pkg")
            self.text.append("pkg %s {" % name)
            n = r.weighted([(0, 1), (1, 3), (2, 4), (3, 2)])
            for nm in self.names(n):
                self.item(nm, depth - 1)
            self.refs(self.refname)
            self.text.append("}")
        elif k == "Anon":
            self.new("Anon")
            self.text.append("anon {")
            for nm in self.names(r.range(1, 2)):
                self.item(nm, depth - 1)
            self.text.append("}")
        else:
            self.new("Cls")
            self.text.append("cls %s {" % name)
            n = r.weighted([(0, 1), (1, 3), (2, 4), (3, 2)])
            mn = self.names(n)
            for i, nm in enumerate(mn):
                self.new("Mem")
                if i > 0 and r.chance(0.3):
                    self.text.append("mem %s -> %s" % (nm, mn[r.below(i)]))
                else:
                    self.text.append("mem %s" % nm)
            if r.chance(0.35):
                self.new("One")
                self.text.append("one %s {" % r.choice(NAMEPOOL))
                for nm in self.names(r.range(0, 2)):
                    self.new("Mem")
                    self.text.append("mem %s" % nm)
                self.text.append("}")
            self.refs(self.refname)
            self.text.append("}")

    def model(self, refname):
        self.refname = refname
        self.new("Model")
        self.text.append("model")
        for nm in self.names(self.r.weighted([(1, 2), (2, 4), (3, 3)])):
            self.item(nm, 2)
        self.refs(refname)
        return " ".join(self.text)


def gen_names(r):
    n = r.weighted([(0, 1), (1, 6), (2, 5), (3, 2)])
    return [r.choice(NAMEPOOL[:3] if r.chance(0.9) else NAMEPOOL) for _ in range(n)]


def gen_expr(r):
    """-> (ast, text)"""
    if r.chance(0.3):
        t = r.choice(TEMPLATES)
        return TEMPLATE_ASTS[t], t
    ast = gen_seq(r, r.weighted([(0, 3), (1, 5), (2, 2)]))
    return ast, p_seq(ast, short=r.chance(0.6))


def directed_names(r, rows, sq, start, tries=10):
    """Name parts for which the expression has a justified result (if the random search finds some)."""
    first = None
    for _ in range(tries):
        names = gen_names(r)
        if first is None:
            first = names
        J = justified_targets(rows, sq, start, names, None)
        if J:
            return names, sorted(J)
    return first, []


def gen_find_skel(r, i):
    dup = r.chance(0.2)
    g = Gen(r, dup)
    text = g.model(lambda: "x")
    n = len(g.cls)
    xrefs = []
    for _ in range(r.weighted([(0, 2), (1, 3), (2, 3), (4, 2)])):
        src = r.below(n)
        if r.chance(0.7):
            xrefs.append([src, "links", [r.below(n) for _ in range(r.range(0, 3))]])
        else:
            xrefs.append([src, "link", r.below(n) if r.chance(0.8) else None])
    post = []
    if r.chance(0.12):
        for _ in range(r.range(1, 2)):
            post.append([r.below(n), r.choice(ATTRS[:5])])
    return {"kind": "find", "model": text, "xrefs": xrefs, "post": post, "queries": [], "cls_expected": g.cls, "dup": dup}


def gen_find_queries(r, c, rows):
    n = len(rows)
    for _ in range(8):
        ast, etext = gen_expr(r)
        start = r.below(n)
        if r.chance(0.75):
            names, J = directed_names(r, rows, ast, start)
        else:
            names, J = gen_names(r), []
        if J and r.chance(0.7):
            cls = r.choice(rows[r.choice(J)]["conf"] or [None])
        else:
            cls = None if r.chance(0.35) else r.choice(TYPES)
        q = {"start": start, "expr": ("+p:" if r.chance(0.15) else "") + etext, "ast": ast,
             "cls": cls, "proxy": r.chance(0.45)}
        form = r.weighted([("list", 5), ("dot", 3), ("sep", 2)])
        if form == "list":
            q["name"], q["names"] = names, names
        elif form == "dot":
            q["name"], q["names"] = messy_join(r, names, "."), names
        else:
            sep = r.choice(["/", "::", "--", "."])
            q["name"], q["names"], q["split"] = messy_join(r, names, sep), names, sep
        c["queries"].append(q)


def messy_join(r, names, sep):
    """Join with the separator, sometimes doubled / leading / trailing (empty parts are dropped)."""
    s = ""
    if r.chance(0.15):
        s += sep
    for i, nm in enumerate(names):
        if i:
            s += sep * (2 if r.chance(0.15) else 1)
        s += nm
    if r.chance(0.15):
        s += sep
    return s


def gen_glue_skel(r, i):
    dup = r.chance(0.1)
    # one to three kinds of references in the model, each kind with its own match rule / split
    kinds = r.sample(["ref", "sref", "cref"], r.weighted([(1, 2), (2, 4), (3, 4)]))
    g = Gen(r, dup, refp=0.3, kinds=kinds)
    splits = {"ref": r.weighted([(None, 5), ("/", 2), ("::", 1)]),
              "sref": r.weighted([("/", 5), ("--", 2), (None, 1)]),
              "cref": r.weighted([("::", 5), (":", 3)])}
    cnt = [0]

    def refname():
        cnt[0] += 1
        return "@%d@" % (cnt[0] - 1)
    text = g.model(refname)
    have = {KIND_OF[c] for c in g.cls if c in KIND_OF}
    for kw in kinds:                      # every chosen kind occurs at least once
        if kw not in have:
            text += " %s %s" % (kw, refname())
            g.cls.append(REFCLS_OF[kw])
    ast, etext = gen_expr(r)
    while "links" in etext or "zzz" in etext:       # only attributes the grammar defines
        ast, etext = gen_expr(r)
    flags = "+p:" if r.chance(0.4) else ""
    return {"kind": "glue", "template": text, "expr": flags + etext, "ast": ast, "proxy": bool(flags), "splits": splits,
            "via": r.weighted(VIAS), "cls": None, "preload_wanted": r.chance(0.3),
            "cls_expected": g.cls, "dup": dup}


def sep_of(c, kind):
    return (c.get("splits") or {}).get(kind) or "."


def fill_glue(r, c, rows):
    text = c.pop("template")
    refs = [i for i, row in enumerate(rows) if row["cls"] in KIND_OF]
    # prefer an expression that can resolve something from the first reference
    for _ in range(6):
        if directed_names(r, rows, c["ast"], refs[0], tries=6)[1]:
            break
        ast, etext = gen_expr(r)
        while "links" in etext or "zzz" in etext:
            ast, etext = gen_expr(r)
        c["ast"], c["expr"] = ast, ("+p:" if c["proxy"] else "") + etext
    confs = []
    parts = []
    for k, ri in enumerate(refs):
        names, J = directed_names(r, rows, c["ast"], ri, tries=14) if r.chance(0.9) else (gen_names(r), [])
        names = names or ["a"]
        if len(names) == 1 and r.chance(0.5):      # multi-part names make the delimiter matter
            names2, J2 = directed_names(r, rows, c["ast"], ri, tries=8)
            if J2 and len(names2) > 1:
                names, J = names2, J2
        for t in J:
            confs += rows[t]["conf"]
        parts.append(names)
    c["cls"] = r.choice(confs) if confs and r.chance(0.8) else r.choice(["Item", "Cls", "Mem", "Pkg"])

    def render(kind_of_ref):
        t = text
        for k, ri in enumerate(refs):
            kw = kind_of_ref(k, KIND_OF[rows[ri]["cls"]])
            sep = sep_of(c, kw)
            nm = messy_join(r, parts[k], sep) if r.chance(0.2) else sep.join(parts[k])
            t = re.sub(r"\b(ref|sref|cref) @%d@" % k, lambda m_: "%s %s" % (kw, nm), t)
        return t
    c["model"] = render(lambda k, kw: kw)
    if c.pop("preload_wanted", False):
        # the same tree loaded first with the reference kinds rotated (other match rules, other delimiters)
        order = ["ref", "sref", "cref"]
        c["preload"] = [render(lambda k, kw: order[(order.index(kw) + 1 + k) % 3])]


# ------------------------------------------------------------------ Coq terms
def c_value(v):
    if v == "ABSENT":
        return "VAbsent"
    if v == "POST":
        return "VPost"
    if v is None:
        return "VNone"
    if isinstance(v, list):
        return "(VList [%s])" % ";".join(str(x) for x in v)
    return "(VObj %d)" % v


def c_table(rows):
    out = []
    for row in rows:
        attrs = ";".join("(%s, %s)" % (c_str(a), c_value(row["attrs"][a])) for a in ATTRS if row["attrs"][a] != "ABSENT")
        out.append("{| o_parent := %s; o_name := %s; o_attrs := [%s]; o_conf := [%s] |}" % (
            core.coq_opt(None if row["parent"] is None else str(row["parent"])),
            core.coq_opt(None if row["name"] is None else c_str(row["name"])),
            attrs, ";".join(c_str(t) for t in row["conf"])))
    return "(of_table [%s])" % ";\n ".join(out)


def c_names(names):
    return "[%s]" % ";".join(c_str(n) for n in names)


KNOWN_STR = ATTRS + TYPES + NAMEPOOL
IMPORTS = ("From TxV Require Import Core.Base Core.Show Gen.SrcRrel Model.RrelSyntax Model.Rrel.\nOpen Scope string_scope.\n"
           + "\n".join("Definition k_%s : list N := %s." % (x, core.coq_str(x)) for x in KNOWN_STR)
           + "\nDefinition runq F m sq o names T px : string := (show_fres (find F m (key_has_first src_facts) sq o names T px) ++ \"|\" ++ "
             "show_bool (find_hit F m (key_has_first src_facts) sq o names T) ++ \"|\" ++ "
             "show_bool (find_certified F m (key_has_first src_facts) sq o names T))%string.")


def fuel(rows, names):
    return 2 * len(rows) * (len(names) + 1) + 6


# ------------------------------------------------------------------ the property, stated directly
class Spec:
    """Reachability by one expansion of the expression (the documented semantics), computed
    as a least fixed point over (object, number of consumed name parts[, emitted path length])."""

    def __init__(self, rows, names, pathc=None):
        self.rows, self.names, self.P = rows, names, pathc

    def root(self, o):
        while self.rows[o]["parent"] is not None:
            o = self.rows[o]["parent"]
        return o

    def vals(self, o, a):
        v = self.rows[o]["attrs"].get(a, "ABSENT")
        if isinstance(v, list):
            return v
        if isinstance(v, int):
            return [v]
        return []

    def emit(self, x, j):
        if self.P is None:
            return 0
        if j < len(self.P) and self.P[j] == x:
            return j + 1
        return None

    def elem(self, e, first, s):
        o, k, j = s
        if e[0] == "Parent":
            p = self.rows[o]["parent"]
            while p is not None:
                if e[1] in self.rows[p]["conf"]:
                    return {(p, k, j)}
                p = self.rows[p]["parent"]
            return set()
        if e[0] == "Dots":
            n = e[1]
            while n > 1:
                o = self.rows[o]["parent"]
                if o is None:
                    return set()
                n -= 1
            return {(o, k, j)}
        if e[0] == "Nav":
            b = self.root(o) if first else o
            out = set()
            _, a, consume, fixed = e
            if not consume and fixed is None:
                return {(x, k, j) for x in self.vals(b, a)}
            if consume and k >= len(self.names):
                return set()
            want = fixed if fixed is not None else self.names[k]
            for x in self.vals(b, a):
                if self.rows[x]["name"] == want:
                    j2 = self.emit(x, j)
                    if j2 is not None:
                        out.add((x, k if fixed is not None else k + 1, j2))
            return out
        if e[0] == "Br":
            return self.seq(e[1], first, s)
        # Star
        res = set()
        if first:
            if sl_seq(e[1]):
                res.add(s)
            if sr_seq(e[1]):
                res.add((self.root(o), k, j))
        else:
            res.add(s)
        seen = set(self.seq(e[1], first, s))
        work = list(seen)
        while work:
            c = work.pop()
            res.add(c)
            for c2 in self.seq(e[1], False, c):
                if c2 not in seen:
                    seen.add(c2)
                    work.append(c2)
        return res

    def path(self, p, first, s):
        cur = {s}
        for i, e in enumerate(p):
            nxt = set()
            for c in cur:
                nxt |= self.elem(e, first and i == 0, c)
            cur = nxt
        return cur

    def seq(self, sq, first, s):
        out = set()
        for p in sq:
            out |= self.path(p, first, s)
        return out


def sl_elem(e):
    return e[0] in ("Parent", "Dots") or (e[0] in ("Br", "Star") and sl_seq(e[1]))


def sl_seq(sq):
    return any(sl_elem(p[0]) for p in sq)


def sr_elem(e):
    return e[0] == "Nav" or (e[0] in ("Br", "Star") and sr_seq(e[1]))


def sr_seq(sq):
    return any(sr_elem(p[0]) for p in sq)


def conforms(rows, t, cls):
    return cls is None or cls in rows[t]["conf"]


def justified_targets(rows, sq, start, names, cls):
    sp = Spec(rows, names)
    return {o for (o, k, _) in sp.seq(sq, True, (start, 0, 0)) if k == len(names) and conforms(rows, o, cls)}


def path_justified(rows, sq, start, names, cls, P):
    """Is P = tr or tr ++ [t] (t not already last of tr) for a justified (t, tr)?"""
    if not P:
        return False
    t = P[-1]
    if not conforms(rows, t, cls):
        return False
    sp = Spec(rows, names, P)
    for (o, k, j) in sp.seq(sq, True, (start, 0, 0)):
        if o == t and k == len(names):
            if j == len(P):
                return True
            if j == len(P) - 1 and (j == 0 or P[j - 1] != t):
                return True
    return False


def siblings_unique(rows):
    for row in rows:
        for a in ATTRS:
            v = row["attrs"].get(a)
            if isinstance(v, list):
                seen = {}
                for x in v:
                    nm = rows[x]["name"]
                    if nm is not None:
                        if nm in seen and seen[nm] != x:
                            return False
                        seen[nm] = x
    return True


def has_post(rows):
    return any(v == "POST" for row in rows for v in row["attrs"].values())


def parse_res(r):
    m = re.match(r"Obj\((\d+)\)$", r)
    if m:
        return ("obj", int(m.group(1)))
    m = re.match(r"Proxy\(\[([\d,]*)\]\)$", r)
    if m:
        return ("proxy", [int(x) for x in m.group(1).split(",") if x])
    return (r, None)


class Budget(Exception):
    pass


def ordered_first(rows, sq, start, names, cls, budget=30000):
    """The documented order, stated directly: depth-first, ',' alternatives left to right (at every
    nesting level), `*` with fewer unfoldings first along each branch, list attributes in model
    order; no visited set (a `*` only refuses to re-enter an (object, consumed) pair that is on its
    own recursion stack).  -> (target, path) of the first accepted item, or None."""
    sp = Spec(rows, names)
    left = [budget]

    def tick():
        left[0] -= 1
        if left[0] < 0:
            raise Budget()

    def elem(e, first, it):
        o, k, tr = it
        tick()
        if e[0] in ("Parent", "Dots"):
            for (o2, _, _) in sp.elem(e, first, (o, k, 0)):
                yield (o2, k, tr)
        elif e[0] == "Nav":
            b = sp.root(o) if first else o
            _, a, consume, fixed = e
            if not consume and fixed is None:
                for x in sp.vals(b, a):
                    yield (x, k, tr)
            elif not (consume and k >= len(names)):
                want = fixed if fixed is not None else names[k]
                for x in sp.vals(b, a):
                    if rows[x]["name"] == want:
                        yield (x, k if fixed is not None else k + 1, tr + (x,))
        elif e[0] == "Br":
            yield from seq(e[1], first, it)
        else:
            yield from star(e[1], first, it, frozenset())

    def star(body, first, it, stack):
        o, k, tr = it
        key = (o, k, first)
        if key in stack:
            return
        tick()
        if first:
            if sl_seq(body):
                yield it
            if sr_seq(body):
                yield (sp.root(o), k, tr)
        else:
            yield it
        for it2 in seq(body, first, it):
            yield from star(body, False, it2, stack | {key})

    def path(p, i, first, it):
        for it2 in elem(p[i], first and i == 0, it):
            if i == len(p) - 1:
                yield it2
            else:
                yield from path(p, i + 1, False, it2)

    def seq(s, first, it):
        for p in s:
            yield from path(p, 0, first, it)

    for (o, k, tr) in seq(sq, True, (start, 0, ())):
        if k == len(names) and conforms(rows, o, cls):
            return (o, list(tr))
    return None


def judge(rows, sq, start, names, cls, proxy, res):
    """-> list of (what, tags) property violations of one implementation answer."""
    kind, val = parse_res(res)
    out = []
    uniq = siblings_unique(rows)
    tags = [] if uniq else ["duplicate_sibling_names"]
    J = justified_targets(rows, sq, start, names, cls)
    if kind == "obj":
        if proxy:
            out.append(("use_proxy requested but a bare object was returned", []))
        if val not in J:
            out.append(("resolved to object %d which no expansion of the expression reaches with all name parts consumed and a conforming type" % val, []))
    elif kind == "proxy":
        if not proxy:
            out.append(("proxy returned without '+p:'/use_proxy", []))
        if not val or val[-1] not in J:
            out.append(("proxy target is not a justified result", []))
        elif not path_justified(rows, sq, start, names, cls, val):
            out.append(("'+p:' path %s is not the list of named objects traversed by an expansion ending in the target" % val, []))
    elif kind == "None":
        if J and not has_post(rows):
            out.append(("not resolved although object(s) %s are reachable by an expansion of the expression" % sorted(J), tags))
    elif kind == "Postponed":
        if not has_post(rows):
            out.append(("Postponed although no attribute is unresolved", []))
    else:
        out.append(("unexpected outcome %s" % res, []))
    # precedence of ',' alternatives: the answer comes from the first alternative that has a justified result
    if kind in ("obj", "proxy") and uniq and not has_post(rows) and len(sq) > 1:
        t = val if kind == "obj" else (val[-1] if val else None)
        for p in sq:
            Jp = justified_targets(rows, [p], start, names, cls)
            if Jp:
                if t not in Jp:
                    out.append(("answer %s does not come from the first ','-alternative that has a justified result (%s)" % (t, sorted(Jp)), []))
                break
    # order at every nesting level: the answer is the first accepted item of the documented order
    if kind in ("obj", "proxy") and uniq and not has_post(rows):
        try:
            exp = ordered_first(rows, sq, start, names, cls)
        except (Budget, RecursionError):
            exp = "skip"
        if exp != "skip":
            if exp is None:
                out.append(("answer although the ordered evaluation of the expression accepts nothing", []))
            elif kind == "obj" and exp[0] != val:
                out.append(("answer %s is not the first result in the order of the expression (',' alternatives left to right at every level): expected %s" % (val, exp[0]), []))
            elif kind == "proxy":
                t, tr = exp
                want = tr if tr and tr[-1] == t else tr + [t]
                if val != want:
                    out.append(("'+p:' path %s is not the path of the first result in the order of the expression (expected %s)" % (val, want), []))
    return out


# ------------------------------------------------------------------ run
def load_corpus():
    cases = []
    if os.path.isdir(CORPUS_DIR):
        for f in sorted(os.listdir(CORPUS_DIR)):
            if f.endswith(".json"):
                c = json.load(open(os.path.join(CORPUS_DIR, f)))
                c["corpus"] = f
                cases.append(c)
    return cases


def split_names(name, split):
    if isinstance(name, list):
        return name
    return [x for x in name.split(split) if x]


def run(chk):
    import time
    t0 = time.time()
    dbg = os.environ.get('C11_DEBUG')
    chk.prove([rrel_tr.translate])
    if dbg:
        print('prove', time.time() - t0)
    nfind = 260 if chk.thorough else 44
    nglue = 160 if chk.thorough else 28
    cases = load_corpus()
    ncorpus = len(cases)
    for i in range(nfind):
        cases.append(gen_find_skel(chk.rng.split("f%d" % i), i))
    for i in range(nglue):
        cases.append(gen_glue_skel(chk.rng.split("g%d" % i), i))
    # phase A: the object graphs (no queries yet); phase B: queries directed by the specification
    skel = [{"kind": "find", "model": re.sub(r"@\d+@", "x", c.get("template") or c["model"]), "xrefs": c.get("xrefs", []),
             "post": c.get("post", []), "queries": []} for c in cases]
    nproc = max(1, min(core.NPROC, len(cases)))
    chunks = [list(range(i, len(cases), nproc)) for i in range(nproc)]
    outs = core.run_impl_parallel("c11", [{"cases": [skel[i] for i in ch]} for ch in chunks])
    if dbg:
        print('phaseA', time.time() - t0)
    for ch, o in zip(chunks, outs):
        for i, x in zip(ch, o):
            c = cases[i]
            if "corpus" in c:
                continue
            if "rows" not in x:
                raise RuntimeError("runner could not load a generated model: %r %r" % (skel[i]["model"], x))
            if c["kind"] == "find":
                gen_find_queries(chk.rng.split("q%d" % i), c, x["rows"])
            else:
                fill_glue(chk.rng.split("q%d" % i), c, x["rows"])
    payload_cases = [{k: v for k, v in c.items() if k not in ("cls_expected", "dup", "corpus")} for c in cases]
    for pc in payload_cases:
        if pc["kind"] == "find":
            pc["queries"] = [{k: v for k, v in q.items() if k not in ("ast", "names")} for q in pc["queries"]]
        else:
            pc.pop("ast", None)
    outs = core.run_impl_parallel("c11", [{"cases": [payload_cases[i] for i in ch]} for ch in chunks])
    if dbg:
        print('phaseB', time.time() - t0)
    impl = [None] * len(cases)
    for ch, o in zip(chunks, outs):
        for i, x in zip(ch, o):
            impl[i] = x

    disagreements, failures = [], []
    exprs, meta, groups = [], [], []     # meta: per Coq expr -> (case idx, query idx or ref idx, ...)

    def machinery(ci, what, detail):
        disagreements.append({"case": {"index": ci, "model": cases[ci].get("model"), "corpus": cases[ci].get("corpus")}, "impl": detail, "model": what})

    for ci, (c, o) in enumerate(zip(cases, impl)):
        if "rows" not in o:
            machinery(ci, "runner produced no object graph", o)
            continue
        rows = o["rows"]
        if "cls_expected" in c and [r_["cls"] for r_ in rows] != c["cls_expected"]:
            machinery(ci, "object numbering of generator and runner differ", [r_["cls"] for r_ in rows])
            continue
        qterms = []
        nmeta = len(meta)
        if c["kind"] == "find":
            for qi, (q, res) in enumerate(zip(c["queries"], o["results"])):
                if res.get("tree") is None:
                    machinery(ci, "expression did not parse / runner error: %s" % q["expr"], res)
                    continue
                sq, flags = parse_dump(res["tree"])
                if q.get("ast") is not None and d_seq(q["ast"]) != d_seq(sq):
                    machinery(ci, "printed expression re-parses to a different tree", {"text": q["expr"], "tree": res["tree"]})
                    continue
                names = split_names(q["name"], q.get("split", "."))
                if "names" in q and q["names"] != names:
                    machinery(ci, "name splitting differs from the generator's parts", {"name": q["name"], "parts": names})
                    continue
                nm_term = c_names(names) if isinstance(q["name"], list) else "(split_name %s %s)" % (c_str(q.get("split", ".")), c_str(q["name"]))
                F = fuel(rows, names)
                qterms.append("runq %d m %s %d %s %s %s" % (F, c_seq(sq), q["start"], nm_term,
                              core.coq_opt(None if q["cls"] is None else c_str(q["cls"])), core.coq_bool(q["proxy"])))
                meta.append((ci, qi, sq, names))
        else:
            if o.get("r", "").startswith(("GRAMMAR-ERR", "SYN-ERR", "ERR", "RUNNER-ERR")):
                machinery(ci, "glue case could not be run", o)
                continue
            sq, flags = parse_dump(o["tree"])
            if c.get("ast") is not None and d_seq(c["ast"]) != d_seq(sq):
                machinery(ci, "printed expression re-parses to a different tree", {"text": c["expr"], "tree": o["tree"]})
                continue
            if ("p" in flags) != bool(c["proxy"]):
                machinery(ci, "flags of the parsed expression differ", {"text": c["expr"], "tree": o["tree"]})
                continue
            for ri, ref in enumerate(o["refs"]):
                names = split_names(ref["name"], sep_of(c, ref["kind"]))
                F = fuel(rows, names)
                qterms.append("runq %d m %s %d (split_name %s %s) (Some %s) %s" % (F, c_seq(sq), ref["i"], c_str(sep_of(c, ref["kind"])),
                              c_str(ref["name"]), c_str(c["cls"]), core.coq_bool(c["proxy"])))
                meta.append((ci, ri, sq, names))
        if qterms:
            tb = c_table(rows)
            exprs.append("(let m := %s in sjoin \";\" [%s])%%string" % (tb, ";\n ".join(qterms)))
            groups.append(len(qterms))
            exprs.append("show_bool (siblings_unique_tbl %s)" % tb[len("(of_table "):-1])
            groups.append(-ci - 1)

    gvals, errs = core.coq_eval("C11", IMPORTS, exprs, shard=40)
    vals = []
    for n, gv in zip(groups, gvals):
        if n < 0:       # the classifier of the known finding is the theorem's hypothesis
            ci = -n - 1
            py = "T" if siblings_unique(impl[ci]["rows"]) else "F"
            if gv != py:
                disagreements.append({"case": {"index": ci, "model": cases[ci].get("model")}, "impl": "classifier siblings_unique=" + py,
                                      "model": "siblings_unique_tbl=" + str(gv)})
            continue
        parts = gv.split(";") if gv is not None else []
        vals += parts if len(parts) == n else [None] * n
    if dbg:
        print('coq', time.time() - t0)
    if errs:
        disagreements.append({"case": "coq evaluation", "model": errs[:2]})
    model_res = {}
    for (ci, qi, sq, names), v in zip(meta, vals):
        model_res.setdefault(ci, {})[qi] = (v, sq, names)

    nohit = 0
    for ci, (c, o) in enumerate(zip(cases, impl)):
        if ci not in model_res:
            continue
        rows = o["rows"]
        if c["kind"] == "find":
            for qi, (q, res) in enumerate(zip(c["queries"], o["results"])):
                if qi not in model_res[ci]:
                    continue
                mv, sq, names = model_res[ci][qi]
                if mv is None:
                    continue
                mres, mhit, mcert = mv.split("|")
                r = res["r"]
                desc = {"model_text": c["model"], "xrefs": c["xrefs"], "post": c["post"], "start": q["start"], "name": q["name"],
                        "split": q.get("split"), "expr": q["expr"], "cls": q["cls"], "use_proxy": q["proxy"], "corpus": c.get("corpus")}
                kind = parse_res(r)[0]
                chk.count((c["model"], json.dumps(c["xrefs"]), json.dumps(c["post"]), q["start"], json.dumps(q["name"]), q["expr"], q["cls"], q["proxy"]),
                          nontrivial=kind in ("obj", "proxy", "Postponed") or size(sq) >= 3)
                chk.stat("find:" + kind)
                chk.stat("expr_size=%d" % min(size(sq), 8))
                chk.stat("names=%d" % len(names))
                if mhit == "F":
                    nohit += 1
                    chk.stat("search_without_pruning")
                if mres == "None" and siblings_unique(rows) and not has_post(rows):
                    chk.stat("not_found_certified" if mcert == "T" else "not_found_uncertified")
                    if mcert != "T":
                        disagreements.append({"case": desc, "impl": r, "model": "the visited set of the failed search does not pass closure_ok "
                                              "(C11_complete_certified does not apply)"})
                if mres == "OOF":
                    disagreements.append({"case": desc, "impl": r, "model": "model ran out of fuel"})
                elif mres != r:
                    disagreements.append({"case": desc, "impl": r, "model": mres})
                if res.get("extra") and kind == "proxy" and res["extra"]["tx_obj"] != parse_res(r)[1][-1]:
                    failures.append({"case": desc, "impl": res, "what": "proxy._tx_obj is not the last entry of _tx_path", "tags": []})
                for what, tags in judge(rows, sq, q["start"], names, q["cls"], q["proxy"], r):
                    failures.append({"case": desc, "impl": r, "model": mres, "what": what, "tags": tags})
                if chk.cov["evaluations"] % 97 == 3:
                    chk.sample({"expr": q["expr"], "name": q["name"], "start": q["start"], "cls": q["cls"], "result": r})
        else:
            exp, anynone, anypost = [], False, False
            for ri, ref in enumerate(o["refs"]):
                mv, sq, names = model_res[ci][ri]
                mres = mv.split("|")[0] if mv else None
                exp.append(mres)
                anynone |= mres == "None"
                anypost |= mres == "Postponed"
            desc = {"model_text": c["model"], "expr": c["expr"], "via": c["via"], "splits": c.get("splits"), "cls": c["cls"],
                    "preload": c.get("preload"), "corpus": c.get("corpus")}
            chk.count(("glue", c["model"], c["expr"], c["via"], json.dumps(c.get("splits"), sort_keys=True), c["cls"], json.dumps(c.get("preload"))), nontrivial=True)
            kinds_here = sorted({ref["kind"] for ref in o["refs"]})
            seps_here = sorted({sep_of(c, k) for k in kinds_here})
            chk.stat("glue_delimiters_in_model=%d" % len(seps_here))
            if c.get("preload"):
                chk.stat("glue_with_preload")
            chk.stat("glue:" + o["r"])
            chk.stat("glue_via=" + c["via"])
            if None in exp or "OOF" in exp:
                disagreements.append({"case": desc, "impl": o["r"], "model": exp})
                continue
            if o["r"] == "SEM-ERR":
                if not anynone:
                    disagreements.append({"case": desc, "impl": o, "model": exp})
                # property: a reference that is not resolved must have no justified target
                for ri, ref in enumerate(o["refs"]):
                    _, sq, names = model_res[ci][ri]
                    J = justified_targets(rows, sq, ref["i"], names, c["cls"])
                    if J and o.get("err_ref") == ref["i"]:
                        failures.append({"case": desc, "impl": o, "what": "reference %s not resolved although %s reachable" % (ref["name"], sorted(J)),
                                         "tags": [] if siblings_unique(rows) else ["duplicate_sibling_names"]})
            elif o["r"] == "OK":
                got = [x["r"] for x in o["resolved"]]
                if got != exp:
                    disagreements.append({"case": desc, "impl": got, "model": exp})
                for ri, (ref, x) in enumerate(zip(o["refs"], o["resolved"])):
                    _, sq, names = model_res[ci][ri]
                    for what, tags in judge(rows, sq, ref["i"], names, c["cls"], c["proxy"], x["r"]):
                        failures.append({"case": dict(desc, ref=ref["name"]), "impl": x["r"], "what": what, "tags": tags})
                    chk.stat("glue_ref:" + parse_res(x["r"])[0])
            else:
                disagreements.append({"case": desc, "impl": o, "model": exp})

    chk.cov["disagreements_checked"] = len(exprs)
    chk.cov["rule"] = ("%d corpus + %d generated find cases (object graph from a textX model of <=~15 objects with nested/abstract classes, equal names at "
                       "different depths, 20%% with duplicate sibling names, cross-reference attributes incl. cycles, 12%% with attributes reported "
                       "unresolved) x 8 queries (random RREL tree over navigation/~/fixed-name/./../^/parent(T)/*/brackets/',' or a template; start "
                       "object; 0-3 name parts as list or string with separator and empty parts; target type; use_proxy) + %d glue cases "
                       "(expression in the grammar reference or registered as string, split=, '+p:'); every answer compared with the Coq model's find "
                       "and judged by the property (soundness, completeness, ','-precedence, proxy path); non-trivial = resolved/Postponed answer or "
                       "expression of >=3 nodes; distinct by (graph, query)" % (ncorpus, nfind, nglue))
    chk.assumptions += ["'+m:' (importURI / multi-model) branch of RRELNavigation is outside the model and the generator",
                        "attribute values are objects, lists of objects or None (primitive-valued attributes are not navigated)",
                        "type names used in parent(T) / target type exist in the meta-model",
                        "completeness is proved only for searches that never hit the visited set; in general it is checked by the oracle on the generated cases",
                        "glue stream: the answer of the load is compared with find on the finished object graph"]
    if disagreements or failures:
        with open(chk.replay_path("details.json"), "w") as f:
            json.dump({"disagreements": disagreements[:20], "failures": failures[:20]}, f, indent=1, default=str)
    decide(chk, failures, disagreements)


# ASTs of the template expressions, obtained once from the model-side reader of their printed dumps
def _template_asts():
    # parse templates with a tiny recursive-descent parser mirroring rrel.py's grammar for the template subset
    out = {}
    for t in TEMPLATES:
        out[t] = parse_text(t)
    return out


def parse_text(t):
    pos = [0]

    def peek(s):
        return t.startswith(s, pos[0])

    def ident():
        m = re.compile(r"[A-Za-z_]\w*").match(t, pos[0])
        pos[0] = m.end()
        return m.group(0)

    def seq():
        paths = [path()]
        while peek(","):
            pos[0] += 1
            paths.append(path())
        return paths

    def path():
        els = []
        if peek("^"):
            pos[0] += 1
            els.append(("Star", [[("Dots", 2)]]))
        elif peek("."):
            n = 0
            while peek("."):
                pos[0] += 1
                n += 1
            els.append(("Dots", n))
        if els and (pos[0] >= len(t) or t[pos[0]] in ",)"):
            return els
        els.append(elem())
        while peek("."):
            pos[0] += 1
            els.append(elem())
        return els

    def elem():
        if peek("parent("):
            pos[0] += 7
            ty = ident()
            pos[0] += 1
            e = ("Parent", ty)
        elif peek("("):
            pos[0] += 1
            s = seq()
            assert peek(")"), t
            pos[0] += 1
            e = ("Br", s)
        elif peek("'"):
            j = t.index("'", pos[0] + 1)
            f = t[pos[0] + 1:j]
            pos[0] = j + 2
            e = ("Nav", ident(), False, f)
        elif peek("~"):
            pos[0] += 1
            e = ("Nav", ident(), False, None)
        else:
            e = ("Nav", ident(), True, None)
        if peek("*"):
            pos[0] += 1
            e = ("Star", e[1] if e[0] == "Br" else [[e]])
        return e

    s = seq()
    assert pos[0] == len(t), t
    return s


TEMPLATE_ASTS = _template_asts()


def replay(rep):
    """Re-run the recorded case on the implementation and judge it again."""
    c = rep.get("case") or {}
    print(json.dumps(rep, indent=1))
    if "start" not in c:
        return 0
    q = {"start": c["start"], "expr": c["expr"], "name": c["name"], "cls": c["cls"], "proxy": c["use_proxy"]}
    if c.get("split"):
        q["split"] = c["split"]
    out = core.run_impl("c11", {"cases": [{"kind": "find", "model": c["model_text"], "xrefs": c.get("xrefs", []),
                                           "post": c.get("post", []), "queries": [q]}]})[0]
    res = out["results"][0]
    print("implementation now answers:", res["r"])
    if res.get("tree"):
        sq, _ = parse_dump(res["tree"])
        bad = judge(out["rows"], sq, c["start"], split_names(c["name"], c.get("split") or "."), c["cls"], c["use_proxy"], res["r"])
        for what, tags in bad:
            print("property violated:", what, tags)
        return 1 if any(not t for _, t in bad) else 0
    return 0
