"""C28 — model loading errors point at the offending text."""
import json
import re

from vt import core
from vt.main import decide
from translate import loc_tr
from props import loc_common as L

KINDS = [("syntax-garbage", 4), ("syntax-drop", 2), ("unknown", 4), ("unresolvable", 5),
         ("nonunique-local", 3), ("nonunique-import", 3), ("nonunique-builtin", 2), ("valid", 1)]


def gen_case(r, kind=None):
    kind = kind or r.weighted(KINDS)
    as_string = r.chance(0.25) and kind != "nonunique-import"
    nfiles = None
    if kind == "nonunique-import":
        nfiles = r.range(2, 4)
    w = L.gen_world(r, nfiles=nfiles, as_string=as_string, builtin=True if kind == "nonunique-builtin" else None)
    files = w["files"]
    loaded = L.loaded_files(w)
    ef = r.below(len(loaded))               # file receiving the injected error
    case = {"kind": kind, "sites": []}
    ref_file = ef
    if kind == "unknown":
        name = L._name(r, w["used"], "zz")
        _add_ref(r, files[ef], name, rrel=r.chance(0.25))
        want = [(ef, name)]
    elif kind == "unresolvable":
        want = []
        for i in range(r.weighted([(1, 3), (2, 3), (3, 2)])):
            fi = r.below(len(loaded))
            name = "late%d" % (i + 1) + r.choice(["", "x", "ñ"])
            _add_ref(r, files[fi], name)
            want.append((fi, name))
    elif kind in ("nonunique-local", "nonunique-import", "nonunique-builtin"):
        name = L._name(r, w["used"], "dup")
        if kind == "nonunique-import":
            importers = [f.ix for f in loaded if f.imports]
            ref_file = r.choice(importers)
            ef = r.choice(files[ref_file].imports)
        elif kind == "nonunique-builtin":
            ef = len(files) - 1             # the duplicates live in the builtin model
        for _ in range(r.weighted([(2, 4), (3, 1)])):
            L.insert_item(r, files[ef], {"k": "def", "name": name, "tail": None})
        _add_ref(r, files[ref_file], name)
        want = [(ref_file, name)]
    else:
        want = []
    for f in files:
        L.tokens_of(f, files)
    special = {}
    for f in files:
        g = d = None
        if f.ix == ef and kind == "syntax-garbage":
            g = (r.below(len(f.toks) + 1), r.choice(L.GARBAGE))
        if f.ix == ef and kind == "syntax-drop":
            d = r.choice(f.semis)
        special[f.ix] = L.layout(r, f, as_string and f.name != L.BUILTIN_NAME, garbage=g, drop=d)
    if kind.startswith("syntax"):
        case["sites"] = [{"file": ef, "pos": special[ef]}]
    else:
        for fi, name in want:
            toks = [x["tok"] for x in files[fi].refs if x["name"] == name]
            assert len(toks) == 1
            case["sites"].append({"file": fi, "pos": files[fi].off[toks[0]], "name": name})
    if kind == "unresolvable":
        # iteration order of the error loop: models in load order, references in textual order
        order = L.load_order(loaded)
        case["sites"].sort(key=lambda s: (order.index(s["file"]), s["pos"]))
    if kind in ("nonunique-import", "nonunique-builtin"):
        case["searched"] = ef
    case["world"] = w
    return case


def _add_ref(r, f, name, rrel=False):
    lists = L.all_item_lists(f)
    if rrel:                                # reference with an RREL scope provider from the grammar
        L.insert_item(r, f, {"k": "rr", "names": [name]})
        return
    uses = [x for lst in lists for x in lst if x["k"] == "uses"]
    if uses and r.chance(0.3):
        x = r.choice(uses)
        x["names"].insert(r.below(len(x["names"]) + 1), name)
    else:
        L.insert_item(r, f, {"k": "use", "names": [name]})


PEG_FUEL = 200


def peg_expr(case, table):
    """the same syntax error, with the failure offset computed by the interpreter model (Model/Peg.v)
    from the text, instead of taken from the generator"""
    import pegdump
    s = case["sites"][0]
    return "let fs := %s in show_opt show_rec (load_syntax_error syntax_desc gLOC cLOC (orc_of %s) false %d fs %s)" % (
        L.coq_fs(case["world"]), pegdump.coq_table(table), PEG_FUEL, L.coq_nat(s["file"]))


def coq_case(case):
    fs = L.coq_fs(case["world"])
    k = case["kind"]
    s = case["sites"]
    if k.startswith("syntax"):
        return "let fs := %s in show_rec (syntax_error syntax_desc fs %s %s)" % (fs, L.coq_nat(s[0]["file"]), L.coq_nat(s[0]["pos"]))
    if k == "unknown":
        return "let fs := %s in show_rec (unknown_error unknown_desc fs %s %s)" % (fs, L.coq_nat(s[0]["file"]), L.coq_nat(s[0]["pos"]))
    if k == "unresolvable":
        d = core.coq_list(["(%s, %s)" % (L.coq_nat(x["file"]), L.coq_nat(x["pos"])) for x in s])
        return "let fs := %s in show_unres (unresolvable_error unresolvable_desc fs %s)" % (fs, d)
    if k == "nonunique-local":
        return "let fs := %s in show_rec (nonunique_error nonunique_desc importuri_relocates fs %s %s %s false)" % (
            fs, L.coq_nat(s[0]["file"]), L.coq_nat(s[0]["file"]), L.coq_nat(s[0]["pos"]))
    if k in ("nonunique-import", "nonunique-builtin"):
        return "let fs := %s in show_rec (nonunique_error nonunique_desc importuri_relocates fs %s %s %s true)" % (
            fs, L.coq_nat(s[0]["file"]), L.coq_nat(case["searched"]), L.coq_nat(s[0]["pos"]))
    return '"Loaded"'


ERR_CLASS = {"syntax-garbage": "TextXSyntaxError", "syntax-drop": "TextXSyntaxError", "unknown": "TextXSemanticError",
             "unresolvable": "TextXSemanticError", "nonunique-local": "TextXSemanticError", "nonunique-import": "TextXSemanticError",
             "nonunique-builtin": "TextXSemanticError"}
MSG = {"unknown": "Unknown object", "unresolvable": "Unresolvable cross references", "nonunique-local": "is not unique",
       "nonunique-import": "is not unique", "nonunique-builtin": "is not unique", "syntax-garbage": "Expected", "syntax-drop": "Expected"}
AT_RE = re.compile(r'"([^"]+)" of class "Def" at \((\d+), (\d+)\)')


def expected_loc(case, site):
    w = case["world"]
    f = w["files"][site["file"]]
    line, col = L.linecol(f.seen, site["pos"])
    return (L.file_name_of(w, f), line, col)


def oracle(case, o):
    """The property, stated on the implementation's outcome.  Returns None or a description."""
    k = case["kind"]
    if k == "valid":
        return None if o["status"] == "ok" else "a valid model did not load: %r" % (o,)
    if o["status"] != "textx":
        return "expected a %s, got %r" % (ERR_CLASS[k], o.get("cls") or o["status"])
    if o["cls"] != ERR_CLASS[k] or MSG[k] not in o["message"]:
        return "expected a %s (%s), got %s: %s" % (ERR_CLASS[k], MSG[k], o["cls"], o["message"])
    got = (o["filename"], o["line"], o["col"])
    if not o["dir_ok"]:
        return "file name of the error is not the path of the loaded file"
    exp = [expected_loc(case, s) for s in case["sites"]]
    if k == "unresolvable":
        # every unresolvable reference is offending text: the error must be at one of them ...
        if got not in exp:
            return "error located at %r, the unresolvable references are at %r" % (got, exp)
        # ... and each "at (line, col)" of the message must be the place of that reference in its file
        named = {s["name"]: e for s, e in zip(case["sites"], exp)}
        ats = AT_RE.findall(o["message"])
        if sorted(n for n, _, _ in ats) != sorted(named):
            return "message does not list exactly the unresolvable references: %s" % o["message"]
        for n, l, c in ats:
            if (int(l), int(c)) != named[n][1:]:
                return "message places %s at (%s, %s), it is at %r" % (n, l, c, named[n])
        return None
    if got != exp[0]:
        return "error located at %r, the offending text is at %r" % (got, exp[0])
    return None


def impl_canon(case, o):
    if case["kind"] == "unresolvable" and o["status"] == "textx":
        ats = AT_RE.findall(o["message"])
        return L.canon_rec(o["filename"], o["line"], o["col"], o["nchar"]) + "#" + ",".join("%s:%s" % (l, c) for _, l, c in ats)
    if o["status"] == "textx":
        return L.canon_rec(o["filename"], o["line"], o["col"], o["nchar"])
    return L.impl_canon(o)


def describe(case):
    w = case["world"]
    return {"kind": case["kind"], "string": w["string"], "files": {f.name: f.raw for f in w["files"]}, "payload": L.world_payload(w),
            "sites": [{"file": w["files"][s["file"]].name, "offset": s["pos"], "name": s.get("name")} for s in case["sites"]],
            "expected": [list(expected_loc(case, s)) for s in case["sites"]]}


def tags_of(case, o):
    return []


def corpus_case(j):
    w = L.world_from_files(j["files"], j["string"])
    names = [f.name for f in w["files"]]
    c = {"kind": j["kind"], "world": w, "sites": [{"file": names.index(s["file"]), "pos": s["offset"], "name": s.get("name")} for s in j["sites"]]}
    if "searched" in j:
        c["searched"] = names.index(j["searched"])
    return c


def build_cases(chk):
    n = 1200 if chk.thorough else 180
    cases = [corpus_case(j) for _, j in L.corpus_files("C28")]      # corpus first
    fixed = ["unresolvable", "nonunique-import", "nonunique-local", "nonunique-builtin", "unknown", "syntax-garbage", "syntax-drop"]
    for i, k in enumerate(fixed * 2):       # every kind is always present
        cases.append(gen_case(chk.rng.split("fixed%d" % i), k))
    for i in range(n):
        cases.append(gen_case(chk.rng.split(i)))
    return cases


def linecol_texts(chk):
    """pos_to_linecol of the model against Arpeggio's own method (and the independent walk) on EVERY text
    over {a, LF, CR} up to a length bound, at every offset 0..len.  Validation of the transcription of
    the dependency, not the proof (C28_linecol_exact is)."""
    import itertools
    bound = 6 if chk.thorough else 4
    texts = ["".join(t) for n in range(bound + 1) for t in itertools.product("a\n\r", repeat=n)]
    return texts + ["é\n\U0001F600b\r\n\nx", "\n" * 9, "ab" * 20 + "\n" + "c" * 7]


def check_linecol(chk, texts, impl, vals, disagreements, failures):
    for t, iv, mv in zip(texts, impl, vals):
        ic = ",".join("%d:%d" % (l, c) for l, c in iv)
        chk.count(("linecol", t), nontrivial="\n" in t)
        if mv is not None and mv != ic:
            disagreements.append({"case": {"pos_to_linecol on text": t}, "impl": ic, "model": mv})
        want = ",".join("%d:%d" % L.linecol(t, p) for p in range(len(t) + 1))
        if ic != want:
            failures.append({"case": {"pos_to_linecol on text": t}, "impl": ic, "what": "Arpeggio's pos_to_linecol differs from the line/column walk: want " + want, "tags": []})
    chk.stat("pos_to_linecol enumeration: texts", len(texts))


def run(chk):
    chk.prove([loc_tr.translate])
    cases = build_cases(chk)
    payloads = [dict(L.world_payload(c["world"])) for c in cases]
    for c, p in zip(cases, payloads):
        if c["kind"].startswith("syntax"):
            p["peg_text"] = c["world"]["files"][c["sites"][0]["file"]].seen
    chunks = [list(range(len(cases)))[i::core.NPROC] for i in range(core.NPROC)]
    chunks = [c for c in chunks if c]
    texts = linecol_texts(chk)
    disagreements, failures = [], []
    outs = core.run_impl_parallel("c28", [{"cases": [payloads[i] for i in ch]} for ch in chunks] + [{"linecol_texts": texts}])
    res = {}
    for ch, o in zip(chunks, outs):
        for i, x in zip(ch, o):
            res[i] = x
    import pegdump
    peg_cases = [i for i, c in enumerate(cases) if c["kind"].startswith("syntax") and res[i].get("peg_table") is not None]
    dumps = {json.dumps(res[i]["peg_dump"], sort_keys=True) for i in peg_cases}
    defs = ""
    if len(dumps) == 1:
        dj = json.loads(dumps.pop())
        defs = "Definition gLOC : grammar := %s.\nDefinition cLOC : config := %s." % (pegdump.coq_grammar(dj), pegdump.coq_config(dj))
    else:
        peg_cases = []
    exprs = ([coq_case(c) for c in cases] + ["show_lcs %s %d" % (L.coq_txt(t), len(t) + 1) for t in texts]
             + [peg_expr(cases[i], res[i]["peg_table"]) for i in peg_cases])
    vals, errs = core.coq_eval("C28", L.IMPORTS, exprs, defs=defs)
    peg_vals = dict(zip(peg_cases, vals[len(cases) + len(texts):]))
    lc_vals = vals[len(cases):len(cases) + len(texts)]
    vals = vals[:len(cases)]
    n_syntax = sum(1 for c in cases if c["kind"].startswith("syntax"))
    if len(peg_cases) != n_syntax:
        disagreements.append({"case": "parser model dump", "model": "dumped %d of %d syntax cases: %s" % (
            len(peg_cases), n_syntax, [res[i].get("peg_unsupported") for i, c in enumerate(cases) if c["kind"].startswith("syntax")][:2])})
    if errs:
        disagreements.append({"case": "coq evaluation", "model": errs[:2]})
    for i, (c, mv) in enumerate(zip(cases, vals)):
        o = res[i]
        w = c["world"]
        chk.count(json.dumps([c["kind"], [f.raw for f in w["files"]], c["sites"]], default=str),
                  nontrivial=c["kind"] != "valid" and any(L.linecol(w["files"][s["file"]].seen, s["pos"])[0] > 1 for s in c["sites"]))
        chk.stat("kind=" + c["kind"])
        L.world_stats(chk, w)
        if c["kind"] != "valid" and any(s["file"] != 0 for s in c["sites"]):
            chk.stat("error inside an imported file")
        ic = impl_canon(c, o)
        if mv is not None and ic != mv:
            disagreements.append({"case": describe(c), "impl": o, "model": mv, "impl_canon": ic})
        if i in peg_vals:
            chk.stat("syntax error position computed by the interpreter model")
            if peg_vals[i] is not None and peg_vals[i] != ic:
                disagreements.append({"case": describe(c), "impl": o, "model (Peg.run + syntax_error)": peg_vals[i], "impl_canon": ic})
        bad = oracle(c, o)
        if bad:
            failures.append({"case": describe(c), "impl": o, "model": mv, "what": bad, "tags": tags_of(c, o)})
        if i % 45 == 3:
            chk.sample({"case": describe(c), "impl": {k: o.get(k) for k in ("cls", "message", "line", "col", "filename")}, "model": mv})
    check_linecol(chk, texts, outs[-1], lc_vals, disagreements, failures)
    chk.cov["rule"] = ("generated 1-4 file models (imports as a DAG incl. diamonds; loaded from file, single-file ones also from a string) with ONE injected "
                       "error: stray token / dropped ';' (syntax), reference to an undefined name (unknown object), 1-3 forever-postponed references in "
                       "random files (unresolvable), a duplicated name referenced in the same file or from the importing file (not unique); random layout "
                       "with blank lines, tabs, CRLF/CR, comments, non-ASCII/astral characters; non-trivial = the offending text is not on line 1; "
                       "distinct by (kind, file texts, sites); plus pos_to_linecol against Arpeggio's own method on every text over {a, LF, CR} up to length "
                       "4 (thorough: 6) at every offset")
    chk.assumptions += ["translator loc_tr.py (which parser / file name each error site uses; shapes of the sites checked literally)",
                        "Python's bisect.bisect_left = first index with element >= x (linear definition; proved equal to the binary search on the line-end table)",
                        "NoMatch.position, ObjCrossRef.position are the offsets of the offending text (observed by the correspondence, not modelled: C01/C06)",
                        "order of get_included_models: main model first, then imported models in load order (mirrored by the generator, validated by the correspondence)"]
    decide(chk, failures, disagreements)


def replay(rep):
    print(json.dumps(rep, indent=1, default=str))
    c = rep.get("case") or {}
    if "files" not in c:
        return 0
    names = list(c["files"])
    payload = c.get("payload") or {"grammar": L.GRAMMAR, "string": c["string"], "files": [{"name": n, "raw": c["files"][n]} for n in names]}
    out = core.run_impl("c28", {"cases": [payload]})[0]
    print("implementation now:", json.dumps(out, default=str))
    print("expected location(s):", c.get("expected"))
    return 0
