"""C24 - the self-hosted textX grammar (textx/textx.tx) agrees with the grammar compiler (textx/lang.py).

Pipeline:
  translate   tools/translate/langpeg_tr.py dumps the two LIVE parsers of the textX language into
              Gen/SrcLangPeg.v / Gen/SrcTxPeg.v (shared oracle numbering = regex text + flags)
  prove       Props/C24.v: soundness of the equivalence checker Model/PegEquiv.v against the interpreter model
              Model/Peg.v (for every grammar table, input, oracle, fuel) + the per-run obligation
              `diffs(SrcLangPeg, SrcTxPeg) included in the accepted differences`
  correspond  generated + mutated grammar texts over the full syntax: (a) both real parsers (Arpeggio level and
              through the public API), (b) Model/Peg.v run in Coq on both dumped tables with Python's `re` as the
              oracle vs the real parsers (acceptance and error position)
  observe     property oracle on the implementation: compiler-accepts(text) == textx.tx-accepts(text); failures are
              attributed to a known finding only if the text is in the finding's class AND repairing exactly
              that construct makes the two parsers agree
  decide
"""
import json
import os
import re

from vt import core
from vt.main import decide
from translate import langpeg_tr
import pegdump

IMPORTS = ("From TxV Require Import Core.Base Core.Show Model.PegSyntax Model.Peg Model.PegShow Model.PegEquiv "
           "Gen.SrcLangPeg Gen.SrcTxPeg.\nOpen Scope string_scope.")
FUEL = 600
# the regular expressions the checker assumes never to match the empty string (mirror of
# Model/PegEquiv.v textx_nonempty_patterns; compared with the Coq value on every run and checked on every text)
NONEMPTY_PATTERNS = [r"\w+", r"'((\\')|[^'])*'", r'''"((\\")|[^"])*"''',
                     r"(ID|BOOL|INT|FLOAT|STRING|NUMBER|BASETYPE)\b(?!\.\w)", r"\w+(\.\w+)*"]
# regex triples (p1, p2, p3) of the acceptance-only theorem's oracle hypothesis: p3 matches at a position with the
# length p1 matches there, else with the length p2 matches there (mirror of Model/PegEquiv.v textx_alt_patterns)
ALT_PATTERNS = [[r"'((\\')|[^'])*'", r'''"((\\")|[^"])*"''', r'''("(\\"|[^"])*")|(\'(\\\'|[^\'])*\')'''],
                [r"(ID|BOOL|INT|FLOAT|STRING|NUMBER|BASETYPE)\b(?!\.\w)", r"\w+(\.\w+)*", r"\w+(\.\w+)*"]]
# the oracle as a per-oracle-id association list (same function as Peg.orc_of on the flat table, faster to evaluate)
DEFS = """Definition orc2 (t : list (list (nat * nat))) (o p : nat) : option nat :=
  (fix go (l : list (nat * nat)) : option nat :=
     match l with [] => None | (p', v) :: l' => if Nat.eqb p p' then Some v else go l' end) (nth o t []).
Definition c24_diffs (only_unaccepted : bool) : string :=
  let d := diff_labels lang_labels tx_labels
             (peg_equiv_diffs (ne_of lang_oracles textx_nonempty_patterns)
                (seeds_of lang_labels tx_labels textx_seeds) lang_grammar tx_grammar) in
  let d := if only_unaccepted then filter (fun p => negb (existsb (lp_eqb p) textx_accepted_diffs)) d else d in
  sjoin ";" (map (fun p => String.append (show_str (fst p)) (String.append "~" (show_str (snd p)))) d).
Definition c24_diffs_acc : string :=
  let d := diff_labels lang_labels tx_labels
             (peg_equiv_diffs_acc (ne_of lang_oracles textx_nonempty_patterns) (alts_of lang_oracles textx_alt_patterns)
                (seeds_of lang_labels tx_labels textx_seeds) lang_grammar tx_grammar) in
  let d := filter (fun p => negb (existsb (lp_eqb p) textx_accepted_diffs_acc)) d in
  sjoin ";" (map (fun p => String.append (show_str (fst p)) (String.append "~" (show_str (snd p)))) d).
Definition c24_alts : string :=
  sjoin ";" (map (fun t => match t with (a, b, c) => String.append (show_str a) (String.append " " (String.append (show_str b) (String.append " " (show_str c)))) end)
                 textx_alt_patterns).
Definition c24_ne : string := sjoin ";" (map show_str textx_nonempty_patterns).
Definition c24_case (t : list (list (nat * nat))) (inp : list N) : string :=
  String.append (show_outcome lang_grammar (run lang_grammar lang_config (orc2 t) false %d inp))
    (String.append " | " (show_outcome tx_grammar (run tx_grammar tx_config (orc2 t) false %d inp))).""" % (FUEL, FUEL)

CORPUS_DIR = os.path.join(core.VERIF, "corpus", "C24")

# ---------------------------------------------------------------- generator
IDENTS = ["A", "B", "Model", "name", "x", "items", "Rule_1", "ID1", "INTx", "STRINGS", "BASETYPE2", "parent", "parentx",
          "eolterm", "import", "as", "reference", "eé", "m", "p", "_a"]
BUILTINS = ["ID", "BOOL", "INT", "FLOAT", "STRING", "NUMBER", "BASETYPE"]
DIGIT_IDENTS = ["1A", "2b", "0", "9_x", "3ID"]
STRS = ["'a'", "'begin'", '"x"', "'it\\'s'", '"d\\"q"', "','", "';'", "'/'", "'//'", "'/*'", "''", '""', "'a b'", "'\\\\'"]
REGEXES = ["/\\d+/", "/a\\/b/", "/[a-z]*/", "/ x/", "/x /", "/(\\w|-)+/", "/\\s*/", "/[^\\/]+/", "/a|b/", "/\\\\/"]
COMMENTS = ["// c\n", "/* c */", "/* a\n b */", "//\n", "/**/"]


class Gen:
    def __init__(self, r, feats):
        self.r = r
        self.f = feats
        self.depth = 0
        self.rdepth = 0

    def ident(self):
        if self.f.get("digit") and self.r.chance(0.25):
            return self.r.choice(DIGIT_IDENTS)
        return self.r.choice(IDENTS)

    def rule_ref(self):
        if self.r.chance(0.35):
            return self.r.choice(BUILTINS)
        if self.r.chance(0.15):      # fully qualified rule names (also ones starting like a built-in)
            return self.r.choice(["a.b", "component.types.List", "ID.foo", "ns.INT", "STRING.x.y", "x.1y"])
        return self.ident()

    def simple_match(self):
        return self.r.choice(STRS) if self.r.chance(0.65) else self.r.choice(REGEXES)

    def modifiers(self):
        n = self.r.weighted([(1, 6), (2, 3), (3, 1)])
        return ["["] + [("eolterm" if self.r.chance(0.3) else self.simple_match()) for _ in range(n)] + ["]"]

    def rrel_elem(self):
        k = self.r.weighted([("nav", 6), ("parent", 2), ("brackets", 2 if self.rdepth < 1 else 0), ("fixed", 2 if self.f.get("fixed") else 0)])
        if k == "nav":
            return (["~"] if self.r.chance(0.3) else []) + [self.r.choice(["a", "b", "ref", "parent", "x1"])]
        if k == "parent":
            return ["parent", "(", self.r.choice(["A", "Some_Type", "ID"]), ")"]
        if k == "fixed":
            return [self.r.choice(["'n'", '"k"', "'a\\'b'"]), "~", self.r.choice(["a", "b"])]
        # only ONE level of RREL brackets: the compiler's RREL grammar ((part '.')* part) re-parses every nested
        # bracket twice per level, so the real parser needs time exponential in the nesting depth (seconds at depth 3)
        self.rdepth += 1
        s = ["("] + (self.rrel_seq() if self.rdepth < 2 else ["a"]) + [")"]
        self.rdepth -= 1
        return s

    def rrel_path(self):
        pre = self.r.weighted([([], 5), (["^"], 2), ([".."], 1), (["."], 1), (["..."], 1)])
        if pre and self.r.chance(0.2):
            return list(pre)
        t = list(pre)
        n = self.r.weighted([(1, 5), (2, 3), (3, 2)])
        for i in range(n):
            if i:
                t.append(".")
            t += self.rrel_elem()
            if self.r.chance(0.25):
                t.append("*")
        return t

    def rrel_seq(self):
        t = self.rrel_path()
        while self.r.chance(0.25):
            t += [","] + self.rrel_path()
        return t

    def rrel(self):
        t = []
        if self.r.chance(0.4):
            t.append("+m:" if not self.f.get("flags") or self.r.chance(0.4) else self.r.choice(["+p:", "+mp:", "+pm:", "+mm:"]))
        return t + self.rrel_seq()

    def obj_ref(self):
        t = ["[", self.r.choice(["B", "pkg.B", "Model", "x", "ns.sub.B", "a.b.c.D"])]
        if self.r.chance(0.7):
            t += [":" if self.r.chance(0.8) else "|", self.rule_ref()]
            if self.r.chance(0.6):
                t += ["|"] + self.rrel()
        return t + ["]"]

    def assignment(self):
        t = [self.ident(), self.r.choice(["=", "*=", "+=", "?="])]
        k = self.r.weighted([("simple", 3), ("rule", 4), ("obj", 4)])
        t += [self.simple_match()] if k == "simple" else [self.rule_ref()] if k == "rule" else self.obj_ref()
        if self.r.chance(0.3):
            t += self.modifiers()
        return t

    def expression(self):
        if self.r.chance(0.4):
            return self.assignment()
        t = [self.r.choice(["!", "&"])] if self.r.chance(0.15) else []
        k = self.r.weighted([("simple", 4), ("rule", 4), ("br", 2 if self.depth < 3 else 0)])
        if k == "simple":
            return t + [self.simple_match()]
        if k == "rule":
            return t + [self.rule_ref()]
        self.depth += 1
        t += ["("] + self.choice() + [")"]
        self.depth -= 1
        return t

    def repeatable(self):
        t = self.expression()
        if self.r.chance(0.35):
            t.append(self.r.choice(["*", "?", "+", "#"]))
            if self.r.chance(0.4):
                t += self.modifiers()
        if self.r.chance(0.1):
            t.append("-")
        return t

    def sequence(self):
        t = []
        for _ in range(self.r.weighted([(1, 4), (2, 4), (3, 2)])):
            t += self.repeatable()
        return t

    def choice(self):
        t = self.sequence()
        while self.r.chance(0.3):
            t += ["|"] + self.sequence()
        return t

    def rule(self):
        t = [self.ident()]
        if self.r.chance(0.25):
            t.append("[")
            for i in range(self.r.weighted([(1, 3), (2, 2)])):
                if i:
                    t.append(",")
                t.append(self.r.choice(["noskipws", "skipws", "ws", "split", "foo"]))
                if self.r.chance(0.5):
                    t += ["=", self.r.choice(["' '", '"\\t"', "'x'"])]
            t.append("]")
        return t + [":"] + self.choice() + [";"]

    def grammar(self):
        t = []
        for _ in range(self.r.weighted([(0, 6), (1, 3), (2, 1)])):
            if self.r.chance(0.5):
                t += ["import", self.r.choice(["base", "a.b.c", "x1", ".rel"] + (["my-lib"] if self.r.chance(0.15) else []))]
            else:
                t += ["reference", self.r.choice(["other", "some-lang", "a_b"])]
                if self.r.chance(0.5):
                    t += ["as", "a-b" if self.r.chance(0.1) else self.ident()]
        n = self.r.weighted([(1, 5), (2, 3), (3, 2), (0, 1 if self.f.get("empty") else 0)])
        for _ in range(n):
            t += self.rule()
        return t


WORD = re.compile(r"\w")


def render(r, toks, comments=True):
    out = []
    for i, t in enumerate(toks):
        if i:
            prev = toks[i - 1]
            need_sep = bool(WORD.match(prev[-1]) and WORD.match(t[0])) or (prev[-1] == "/" and t[0] in "/*") \
                or prev.startswith("//") or (prev[-1] in "+*?" and t[0] == "=") or (prev[-1] == "+" and t[0] in "mp")
            k = r.weighted([(" ", 8), ("\n", 2), ("", 4), ("  ", 1), ("c", 2 if comments else 0)])
            if k == "c":
                out.append(" " + r.choice(COMMENTS) + " ")
            elif k == "" and need_sep:
                out.append(" ")
            else:
                out.append(k)
        out.append(t)
    return "".join(out)


MUT_TOKENS = ["|", ";", ":", "[", "]", "(", ")", "*", "+", "?", "#", "-", "=", "+=", "~", "^", ".", ",", "'s'", "/r/", "A", "ID",
              "eolterm", "+m:", "+p:", "parent", "import", "1x", "//", "/*", "!", "&", "'n'"]
MUT_CHARS = " \n'\"/[]|:;+*?#!&-=^.~,()mp1\\"


def mutate(r, toks, text):
    k = r.weighted([("tdel", 4), ("tdup", 2), ("tswap", 2), ("trep", 4), ("tins", 3), ("cdel", 3), ("cins", 3)])
    toks = list(toks)
    if k[0] == "t" and toks:
        i = r.below(len(toks))
        if k == "tdel":
            del toks[i]
        elif k == "tdup":
            toks.insert(i, toks[i])
        elif k == "tswap" and len(toks) > 1:
            j = min(i + 1, len(toks) - 1)
            toks[i], toks[j] = toks[j], toks[i]
        elif k == "trep":
            toks[i] = r.choice(MUT_TOKENS)
        else:
            toks.insert(i, r.choice(MUT_TOKENS))
        return render(r, toks, comments=False)
    if not text:
        return r.choice(MUT_TOKENS)
    i = r.below(len(text))
    if k == "cdel":
        return text[:i] + text[i + 1:]
    return text[:i] + r.choice(MUT_CHARS) + text[i:]


def gen_cases(chk, n):
    cases = []
    for f in sorted(os.listdir(CORPUS_DIR)) if os.path.isdir(CORPUS_DIR) else []:
        if f.endswith(".tx"):
            cases.append({"text": open(os.path.join(CORPUS_DIR, f), encoding="utf-8").read(), "kind": "corpus:" + f})
    for i in range(n):
        r = chk.rng.split("c%d" % i)
        style = r.weighted([("plain", 6), ("findings", 3)])
        feats = {"empty": r.chance(0.1)}
        if style == "findings":
            feats.update(digit=r.chance(0.5), flags=r.chance(0.5), fixed=r.chance(0.5))
        toks = Gen(r, feats).grammar()
        text = render(r, toks)
        cases.append({"text": text, "kind": style})
        for k in range(2):
            rm = r.split("m%d" % k)
            cases.append({"text": mutate(rm, toks, text), "kind": "mut-" + style})
    return cases


# ---------------------------------------------------------------- classifier of the known findings
LIT = re.compile(r"""//[^\n]*|/\*.*?\*/|'(?:\\'|[^'])*'|"(?:\\"|[^"])*"|/(?:\\/|[^/])*/""", re.S)


def _blank(text):
    """comments and regex literals blanked, string literals replaced by a marker keeping their place"""
    def sub(m):
        s = m.group(0)
        if s[0] in "'\"":
            return " \x01 "
        return " "
    return LIT.sub(sub, text)


def _is_regex_lit(s):
    return len(s) >= 3 and s[0] == "/" and not s.startswith("//") and not s.startswith("/*")


def classify(text):
    """tags of the finding classes this text belongs to, with the repaired text per tag"""
    b = _blank(text)
    tags = {}
    if re.search(r"(?<!\w)\d\w*", b):
        tags["digit-ident"] = None
    if any(m.group(0) != "+m:" for m in re.finditer(r"\+[mp]+:", b)):
        tags["rrel-flags"] = None
    if re.search(r"\x01\s*~", b):
        tags["rrel-fixed-name"] = None
    if any(_is_regex_lit(m.group(0)) and m.group(0)[-2] == "\\" for m in LIT.finditer(text)):
        tags["regex-backslash-end"] = None
    return tags


def repair(text):
    """remove every construct of the three finding classes from the text (literals and comments untouched)"""
    out, pos = [], 0
    pieces = []
    for m in LIT.finditer(text):
        pieces.append(("code", text[pos:m.start()]))
        pieces.append(("lit", m.group(0)))
        pos = m.end()
    pieces.append(("code", text[pos:]))
    res = []
    for i, (k, s) in enumerate(pieces):
        if k == "code":
            s = re.sub(r"(?<!\w)(\d\w*)", r"x\1", s)
            s = re.sub(r"\+[mp]+:", "+m:", s)
            res.append(s)
        else:
            nxt = ""
            for k2, s2 in pieces[i + 1:]:      # what follows, skipping comments and white space
                if k2 == "lit" and (s2.startswith("//") or s2.startswith("/*")):
                    continue
                if s2.strip() == "":
                    continue
                nxt = s2
                break
            if s[0] in "'\"" and re.match(r"\s*~", nxt):
                res.append(" ")       # drop the fixed name, keep `~attr`
            elif _is_regex_lit(s) and s[-2] == "\\":
                res.append("/x/")
            else:
                res.append(s)
    return "".join(res)


# ---------------------------------------------------------------- observation
def compiler_accepts(o):
    return not o["api_lang"].startswith("syntax:")


def tx_accepts(o):
    return o["api_tx"] == "ok"


def run_texts(texts, tables=False):
    chunks = [list(range(i, len(texts), core.NPROC)) for i in range(core.NPROC)]
    chunks = [c for c in chunks if c]
    outs = core.run_impl_parallel("c24", [{"mode": "cases", "texts": [texts[i] for i in ch], "tables": tables,
                                           "nonempty": NONEMPTY_PATTERNS, "alts": ALT_PATTERNS} for ch in chunks])
    res = [None] * len(texts)
    for ch, o in zip(chunks, outs):
        for i, x in zip(ch, o):
            res[i] = x
    return res


# ---------------------------------------------------------------- targeted search for a new differing pair
FOCUS = [
    (("rrel", "parent", "navigation", "dots", "brackets", "zeroormore", "path"), [
        "A : x = [ B : ID | ^ a . b * ] ;", "A : x = [ B : ID | parent ( T ) . a ] ;", "A : x = [ B : ID | ( a , b ) * . ~ c ] ;",
        "A : x = [ B : ID | +m: .. a , b ] ;", "A : x = [ B | ID | a . ( b ) ] ;"],
     ["^", ".", "..", ",", "*", "~", "(", ")", "parent", "a", "+m:", "|", "T", "'n'"]),
    (("import", "reference", "grammar_to_import", "language", "alias"), [
        "import a.b reference some-lang as o A : 'a' ;", "reference x A : 'a' ;", "import base import .rel A : 'a' ;"],
     ["import", "reference", "as", "a.b", "a-b", "o", ".", "-", "x"]),
    (("param",), ["A [ skipws , ws = ' ' ] : 'a' ;", "A [ noskipws ] : 'a' ;", "A [ split = 'x' , foo = \"y\" ] : 'a' ;"],
     ["[", "]", ",", "=", "ws", "' '", "x"]),
    (("repeat", "modifier", "operator"), [
        "A : 'a' * [ ',' eolterm ] x += B [ eolterm ] - ;", "A : 'a' # [ ',' ] B + C ? - ;", "A : x *= 'a' [ '/' /r/ ] ;"],
     ["*", "+", "?", "#", "-", "[", "]", "eolterm", "','", "/r/"]),
    (("assignment", "attribute"), ["A : x = ID y *= 'a' z ?= /r/ w += [ B ] ;", "A : x = a.b y += B [ ',' ] ;"],
     ["=", "*=", "+=", "?=", "x", "ID", "'a'", "[", "]"]),
    (("obj_ref", "objref", "class_name", "classname", "qualified", "rule_ref", "ruleref", "builtin", "reference"), [
        "A : x = [ ns.B : ID ] y = [ B | ID | ^ a ] ;", "A : x = [ B ] y = a.b.C z = ID.x INTx ;", "A : x = [ a.b.c : q ] ;"],
     ["[", "]", ":", "|", "B", "ID", "a.b", ".", "INT", "x", "1x"]),
    (("predicate", "expression", "bracketed", "choice", "sequence", "rule_body", "rulebody", "textx_rule", "textxrule"), [
        "A : ! 'a' & B ( 'c' | D 'e' ) + | F - ;", "A : ( ( 'a' ) ) | B ; C : 'd' ;", "A : 'a' | 'b' | 'c' d = E ;"],
     ["!", "&", "(", ")", "|", ";", ":", "'a'", "B", "-"]),
    (("match", "string", "re_", "rematch"), ["A : 'a' \"b\" /c\\/d/ 'it\\'s' ;", "A : /x/ // c\n 'y' /* z */ ;"],
     ["'a'", "\"b\"", "/r/", "'", "\"", "/", "\\", "//", "/*"]),
    (("comment",), ["A : 'a' ; // c\n B : 'b' ; /* d */", "/* x */ A : 'a' // y\n ;"], ["//", "/*", "*/", "\n", "/"]),
]


def targeted_texts(unaccepted, limit=1600):
    """texts exercising the rules named in the unaccepted differing pairs: for each matching family, every
    single-token deletion / insertion / replacement (family tokens + general tokens) of a few base grammars"""
    labels = [x.lower() for pair in unaccepted.split(";") if pair for x in pair.split("~")]
    fams = [f for f in FOCUS if any(k in lab or k.replace("_", "") in lab for k in f[0] for lab in labels)] or FOCUS
    out, seen = [], set()
    per = max(1, limit // max(1, sum(len(f[1]) for f in fams)))
    for keys, bases, toks in fams:
        alphabet = toks + [t for t in MUT_TOKENS if t not in toks][:12]
        for b in bases:
            tl = b.split(" ")
            mine = [b]
            for i in range(len(tl) + 1):
                if i < len(tl):
                    mine.append(" ".join(tl[:i] + tl[i + 1:]))
                for t in alphabet:
                    mine.append(" ".join(tl[:i] + [t] + tl[i:]))
                    if i < len(tl):
                        mine.append(" ".join(tl[:i] + [t] + tl[i + 1:]))
            step = max(1, len(mine) // per)
            for t in mine[::step] if len(mine) > per else mine:
                if t not in seen:
                    seen.add(t)
                    out.append(t)
    return out[:limit]


def run(chk):
    import time
    t0 = time.time()
    chk.prove([langpeg_tr.translate])
    chk.notes.append("prove %.1fs" % (time.time() - t0))
    n = 1800 if chk.thorough else 70
    n_model = 360 if chk.thorough else 24
    cases = gen_cases(chk, n)
    failures, disagreements = [], []
    suspects, timeouts = [], []

    def observe(batch):
        t0 = time.time()
        outs = run_texts([c["text"] for c in batch])
        chk.notes.append("impl %d texts %.1fs" % (len(batch), time.time() - t0))
        for c, o in zip(batch, outs):
            c["impl"] = o
            if o.get("timeout"):
                timeouts.append(c["text"])
                chk.stat("skipped: a real parser needed more than 20 s")
                continue
            acc_l, acc_t = compiler_accepts(o), tx_accepts(o)
            chk.count(c["text"], nontrivial=acc_l or acc_t or len(c["text"]) > 8)
            chk.stat("%s compiler=%s textx.tx=%s" % (c["kind"].split(":")[0], "accept" if acc_l else "reject", "accept" if acc_t else "reject"))
            # glue: the API-level classification must be the Arpeggio-level one
            if (o["lang"] == "P") != acc_l or (o["tx"] == "P") != acc_t or o["lang"].startswith("X") or o["tx"].startswith("X") \
                    or o["api_tx"].startswith(("crash", "semantic", "syntax-visitor")) or o.get("merge_mismatch") or o.get("empty_match") or o.get("alts_mismatch"):
                disagreements.append({"case": c["text"], "impl": o, "model": "API level and parser level classify the text differently, "
                                      "or grammar_model_from_str failed otherwise than by a syntax error, or merged regex texts differ, "
                                      "or a regex assumed non-empty matched the empty string, or a regex triple of the oracle hypothesis "
                                      "orc_alts does not hold at some position"})
            if acc_l != acc_t:
                suspects.append(c)
            if chk.cov["evaluations"] % 97 == 5:
                chk.sample({"text": c["text"], "compiler": o["api_lang"], "textx_tx": o["api_tx"]})

    observe(cases)
    # model correspondence: Model/Peg.v on both dumped tables vs the real parsers; and the differing pairs by label
    sel = [c for c in cases if not c["impl"].get("timeout") and len(c["text"]) <= (160 if chk.thorough else 100)][:n_model]
    touts = run_texts([c["text"] for c in sel], tables=True) if sel else []
    exprs = []
    for c, o in zip(sel, touts):
        per = {}
        for oid, p, ln in o["table"]:
            per.setdefault(oid, []).append((p, ln))
        nor = max(per) + 1 if per else 0
        tbl = "[" + ";".join("[" + ";".join("(%d,%d)" % x for x in per.get(i, [])) + "]" for i in range(nor)) + "]"
        s = pegdump.coq_str(c["text"])
        exprs.append("c24_case %s %s" % (tbl, s))
    exprs = ["c24_diffs false", "c24_diffs true", "c24_ne", "c24_diffs_acc", "c24_alts"] + exprs
    t0 = time.time()
    vals, errs = core.coq_eval("C24", IMPORTS, exprs, shard=max(1, -(-len(exprs) // core.NPROC)), defs=DEFS)
    all_diffs, unaccepted, ne_coq, unaccepted_acc, alts_coq = vals[0], vals[1], vals[2], vals[3], vals[4]
    vals = vals[5:]
    if alts_coq != ";".join(" ".join(core.canon_text(x) for x in t) for t in ALT_PATTERNS):
        disagreements.append({"case": "the regex triples of the check differ from Model/PegEquiv.v textx_alt_patterns",
                              "impl": ALT_PATTERNS, "model": alts_coq})
    if unaccepted_acc is None or unaccepted_acc != "":
        disagreements.append({"case": "acceptance-only check: the two live parser models differ outside the accepted pairs",
                              "model": unaccepted_acc})
    if ne_coq != ";".join(core.canon_text(x) for x in NONEMPTY_PATTERNS):
        disagreements.append({"case": "the non-empty regex list of the check differs from Model/PegEquiv.v textx_nonempty_patterns",
                              "impl": NONEMPTY_PATTERNS, "model": ne_coq})
    chk.cov["differing_pairs"] = all_diffs
    chk.notes.append("coq model eval %d cases %.1fs" % (len(exprs), time.time() - t0))
    if unaccepted is None or unaccepted != "":
        disagreements.append({"case": "the two live parser models differ outside the accepted pairs (lang.py label ~ textx.tx label)",
                              "model": unaccepted, "all_differing_pairs": all_diffs})
        # targeted search: texts that exercise the named rules
        extra = [{"text": t, "kind": "targeted"} for t in targeted_texts(unaccepted or "")]
        chk.notes.append("targeted search for %s: %d texts" % (unaccepted, len(extra)))
        observe(extra)
    if errs:
        disagreements.append({"case": "coq evaluation", "model": errs[:2]})
    nm = 0
    for c, o, v in zip(sel, touts, vals):
        if v is None:
            continue
        nm += 1
        m1, m2 = [x.strip() for x in v.split("|")]
        i1, i2 = o["lang"], o["tx"]
        ok = (m1.startswith("P:") and i1 == "P" or m1 == i1) and (m2.startswith("P:") and i2 == "P" or m2 == i2)
        if not ok:
            disagreements.append({"case": c["text"], "impl": [i1, i2], "model": [m1[:80], m2[:80]]})
    chk.cov["disagreements_checked"] = nm
    chk.stat("model-correspondence cases", nm)
    if len(timeouts) * 50 > len(cases):
        disagreements.append({"case": "more than 2% of the texts exceeded the per-text timer", "impl": timeouts[:3]})
    # attribution: in the class of a finding AND the repaired text is agreed upon
    rep_texts = [repair(c["text"]) for c in suspects]
    rep_outs = run_texts(rep_texts) if suspects else []
    for c, rt, ro in zip(suspects, rep_texts, rep_outs):
        o = c["impl"]
        tags = []
        cls = classify(c["text"])
        if cls and not ro.get("timeout") and compiler_accepts(ro) == tx_accepts(ro) and not classify(rt):
            tags = sorted(cls)
        chk.stat("disagreement:" + ("+".join(tags) if tags else "UNATTRIBUTED"))
        failures.append({"case": {"text": c["text"], "kind": c["kind"]}, "impl": {k: o[k] for k in ("lang", "tx", "api_lang", "api_tx")},
                         "what": "the grammar compiler %s this text, textx.tx %s it" % (
                             "accepts" if compiler_accepts(o) else "rejects", "accepts" if tx_accepts(o) else "rejects"),
                         "tags": tags, "repaired": {"text": rt, "compiler": ro.get("api_lang"), "textx_tx": ro.get("api_tx")}})
    failures.sort(key=lambda f: (bool(f["tags"]), len(f["case"]["text"])))     # report the shortest unattributed text first
    with open(chk.replay_path("unattributed.json"), "w") as f:
        json.dump([x for x in failures if not x["tags"]], f, indent=1)
    chk.cov["rule"] = ("grammar texts over the full textX syntax (imports, references with alias, rule parameters, choices, sequences, all "
                       "repeat operators with separator/eolterm modifiers, predicates, suppression, string and regex matches with escapes, "
                       "assignments with all four operators, built-in, user and fully qualified rule references, object references with ':' "
                       "and '|' match rule and RREL (flags, ^, dots, parent(), brackets, ~, fixed names, *, sequences), comments between any "
                       "tokens, optional whitespace), the committed corpus, and two token/character mutations per text; evaluated by both "
                       "real parsers (Arpeggio level and public API); non-trivial = accepted by one side or longer than 8 characters; "
                       "distinct by text; a subset is also run through Model/Peg.v in Coq on both dumped parser tables; when the parser "
                       "models differ outside the accepted pairs, all single-token edits of base grammars for the named rules are added")
    chk.assumptions += [
        "translator langpeg_tr.py/pegdump.py: the dumped tables are the live parser models (validated per run by running Model/Peg.v on "
        "them against the real parsers: acceptance and error position)",
        "regular expressions are oracles: same regex text (after reading `\\/` as `/`) and flags = same oracle; the merge is re-validated "
        "on every generated text with Python's re",
        "oracle hypothesis of the soundness theorem: `\\w+` never matches the empty string (checked with re on every text and position)",
        "the checker soundness theorem covers memoization=False (both parsers are built without memoization; checked in C24_diffs); "
        "the memoization=True corollary needs C19's class, which excludes grammars with a comment model such as the textX language",
        "accepted NOTATION differences ((x sep)* x, STRING/string_value, rule_ref, /regex/) are covered by the differential correspondence only",
    ]
    with open(chk.replay_path("disagreements.json"), "w") as f:
        json.dump(disagreements, f, indent=1)
    decide(chk, failures, disagreements)


def replay(rep):
    case = rep.get("case")
    if not case:
        print(json.dumps(rep, indent=1)[:4000])
        return 1
    text = case["text"] if isinstance(case, dict) else case
    o = run_texts([text])[0]
    print(json.dumps({"text": text, "outcome": o, "classes": sorted(classify(text))}, indent=1))
    return 0 if compiler_accepts(o) == tx_accepts(o) else 1
