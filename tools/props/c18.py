"""C18 — a failing multi-file load leaves the model repositories clean."""
from vt import core
from vt.main import decide
from props import repo_common as rc
from translate import repo_tr

replay = rc.replay


def run(chk):
    chk.prove([repo_tr.translate])
    cases = rc.corpus_cases("C18")
    # every digraph on 2 files x failing file x phase, global repository on (and off in the thorough tier)
    k = 0
    for edges in rc.all_graphs(2):
        for ff in range(2):
            for ph in rc.PHASES:
                for g in ((True, False) if chk.thorough else (True,)):
                    prov = rc.PROVIDERS[k % 5]
                    k += 1
                    if ph == "nofile" and prov.endswith("grepo"):
                        prov = "plain_uri"
                    cases.append(rc.graph_case(2, edges, prov, g, fail=(ff, ph), history="c18"))
    if chk.thorough:
        for edges in rc.all_graphs(3, self_edges=False):
            for ff in range(3):
                for ph in rc.PHASES:
                    prov = rc.PROVIDERS[k % 3]
                    k += 1
                    cases.append(rc.graph_case(3, edges, prov, k % 4 != 0, fail=(ff, ph), history="c18"))
    # main models loaded from a string (GlobalRepo providers, global repository): earlier string model, failing one, repair
    for edges in ([[], [(0, 1)], [(0, 1), (1, 0)]] if not chk.thorough else list(rc.all_graphs(2))):
        for ph in ("syn", "unres", "obj", "mp"):
            for prov in ("plain_grepo", "fqn_grepo"):
                cases.append(rc.str_case(2, edges, prov, True, ph))
                if chk.thorough:
                    cases.append(rc.str_case(2, edges, prov, False, ph))
    # two registered languages with own global repositories: failing importer / failing imported file of the other language
    for edges in ([[(0, 1)], [(0, 1), (1, 0)]] if not chk.thorough else [e for e in rc.all_graphs(2) if (0, 1) in e]):
        for ff in range(2):
            for ph in rc.PHASES:
                hist = [{"op": "load", "file": 1}] if ff == 0 else []
                hist += [{"op": "load", "file": 0}, {"op": "write", "file": 0, "version": 1}, {"op": "write", "file": 1, "version": 1},
                         {"op": "load", "file": 0}, {"op": "load", "file": 1}]
                cases.append(rc.ml_case(2, edges, [0, 1], [True, True], provider=rc.PROVIDERS[len(cases) % 2], fail=(ff, ph), ops=hist))
    n = 1200 if chk.thorough else 140
    for i in range(n):
        r = chk.rng.split(i)
        cases.append(rc.gen_case(r, fail="one" if i % 2 else "random"))
    outs, vals, errs = rc.run_cases(chk, cases, "C18")
    failures, disagreements = rc.evaluate(chk, "C18", cases, outs, vals, errs)
    chk.cov["rule"] = ("every import digraph on 2 files%s x failing file x 5 phases (syntax error, unresolved reference, object processor, model processor, import not found), "
                       "each: [earlier successful load], failing load, repair of every file, reload; plus %d random directories (as for C17) with one or more failing files and "
                       "histories of loads and rewrites; non-trivial = some load reads >= 2 files; distinct by (files, config, history)"
                       % (" and every digraph without self imports on 3 files" if chk.thorough else "", n))
    chk.assumptions += ["glob.glob / os.path.exists are oracles (expansions computed by the runner with the real, sorted glob)",
                        "processors fail as a function of the parsed content ('def opfail;' / 'def mpfail;'), so stale cached models are observable",
                        "Model/Repo.v is hand-written; tied by Gen/SrcRepo.v (translator repo_tr.py) and by this correspondence"]
    decide(chk, failures, disagreements)
