"""Shared harness of C17 (multi-file models: loaded once, shared identity, lookup order, global
cache) and C18 (a failing multi-file load leaves the repositories clean).

A case is a directory of model files (with versions: a failing one and its repair), a provider
kind, a metamodel configuration (global repository, builtin models) and a history of load /
rewrite operations.  The implementation runner (tools/impl/c17.py) executes the history on the
real textX; Model/Repo.v executes it in Coq; both are printed canonically and diffed.  The
property oracles below are direct statements of C17 / C18 on the implementation's outputs,
written independently of the Coq model.
"""
import itertools
import json
import os
import posixpath
import re

from vt import core

PROVIDERS = ["plain_uri", "fqn_uri", "rrel", "plain_grepo", "fqn_grepo"]
NAMES = ["e0", "e1", "e2", "e3", "e4", "e5", "q0", "q1"]
CODE = {n: 100 + i for i, n in enumerate(NAMES)}
PHASES = ["syn", "unres", "obj", "mp", "nofile"]


# ------------------------------------------------------------------ rendering
def render(fv):
    """abstract file version -> model text"""
    out = ['import "%s";' % u for u in fv["imports"]]
    out += ["def %s;" % e for e in fv["elems"]]
    if fv.get("obj"):
        out.append("def opfail;")
    if fv.get("mp"):
        out.append("def mpfail;")
    out += ["use %s;" % r for r in fv["refs"]]
    if fv.get("syn"):
        out.append("@@@")
    return "\n".join(out) + "\n"


def impl_case(case):
    return {"files": [{"path": f["path"], "versions": [render(v) for v in f["versions"]],
                       "imports": [v["imports"] for v in f["versions"]]} for f in case["files"]],
            "dirs": case.get("dirs", []),
            "provider": case["provider"], "search_path": case.get("search_path"), "recursive": case.get("recursive", False),
            "patterns": case.get("patterns", []), "global_repo": case["global_repo"],
            "builtins": ["".join("def %s; " % e for e in b) for b in case["builtins"]], "ops": case["ops"],
            "strs": [[render(v) for v in st] for st in case.get("strs", [])], "langs": case.get("langs")}


# ------------------------------------------------------------------ Coq encoding
def c_names(ns):
    return "[" + ";".join(str(CODE[n]) for n in ns) + "]%N"


def c_file(fv, exp):
    return "(mkFile %s %s %s %s %s %s)" % (
        core.coq_list([core.coq_list([str(x) for x in st]) for st in exp]), c_names(fv["elems"]), c_names(fv["refs"]),
        core.coq_bool(fv.get("syn", False)), core.coq_bool(fv.get("obj", False)), core.coq_bool(fv.get("mp", False)))


def hash_text(s):
    h = 7
    for ch in s:
        h = (h * 1000003 + ord(ch)) % 1099511627776
    return str(h)


def str_stmts(case, expansions):
    """what the model loading providers load for a model without a file: the registered GlobalRepo patterns (the
    same for every model: taken from file 0); an ImportURI provider loads nothing (string models have no imports)"""
    return expansions[0][0] if case["provider"].endswith("grepo") else []


def coq_case(case, expansions, fn="run_case"):
    files = [c_file(f["versions"][0], expansions[i][0]) for i, f in enumerate(case["files"])]
    ops = []
    for o in case["ops"]:
        if o["op"] == "load":
            ops.append("OLoad %d" % o["file"])
        elif o["op"] == "loadstr":
            ops.append("OLoadStr %s" % c_file(case["strs"][o["str"]][o["version"]], str_stmts(case, expansions)))
        else:
            i, v = o["file"], o["version"]
            ops.append("OWrite %d %s" % (i, c_file(case["files"][i]["versions"][v], expansions[i][v])))
    if case.get("langs"):
        lo = [[i for i, lg in enumerate(case["langs"]) if f["path"].endswith(lg["ext"])][0] for f in case["files"]]
        return "%s %s %s %s %s" % ("run_case_ml_hash" if fn.endswith("hash") else "run_case_ml",
                                   core.coq_list([core.coq_bool(lg["global_repo"]) for lg in case["langs"]]),
                                   core.coq_list([str(x) for x in lo]), core.coq_list(files), core.coq_list(ops))
    builtins = ["(mkFile [] %s []%%N false false false)" % c_names(b) for b in case["builtins"]]
    fn = {"run_case": "run_case_u", "run_case_hash": "run_case_u_hash"}.get(fn, fn)
    return "%s %s %s %s %s %s %s" % (fn, core.coq_bool(case["provider"].startswith("plain")), core.coq_bool(case["global_repo"]), core.coq_bool(case["provider"] == "rrel"),
                                        core.coq_list(builtins), core.coq_list(files), core.coq_list(ops))


IMPORTS = "From TxV Require Import Core.Base Core.Show Model.RepoDefs Gen.SrcRepo Model.Repo Model.RepoShow.\nOpen Scope string_scope."


# ------------------------------------------------------------------ canonical form of the implementation's outcome
def show_dict(d):
    return ",".join("%s>%s" % (f, t) for f, t in d)


def show_model(m):
    return "%s{%s}{%s}" % (m["tok"], show_dict(m["local"]), ",".join("None" if t is None else "%s.%d" % (t[0], t[1]) for t in m["targets"]))


def canon_op(o):
    if o["res"] == "written":
        return "w"
    extra = []
    if "grepos" in o:
        extra = [";".join("-" if g is None else show_dict(g) for g in o["grepos"])]
    return "|".join(extra_first(o) + extra)


def extra_first(o):
    return [o["res"], ",".join(str(x) for x in o["reads"]), o.get("main", "-"),
            ";".join(show_model(m) for m in o.get("models", [])),
            show_dict(o["all"]) if "all" in o else "-",
            show_dict(o["grepo"]) if o["grepo"] is not None else "-"]


def canon(out):
    return " # ".join(canon_op(o) for o in out["ops"])


# ------------------------------------------------------------------ property oracles (on implementation outputs)
TOK_RE = re.compile(r"^(?:f(\d+)|(s))@(\d+)$")      # f<file>@<op> | s@<op> (model loaded from a string)


def oracle(case, out):
    """Returns a list of (property, message, op index). Direct statement of C17 / C18."""
    bad = []
    exp = out["expansions"]
    lazy = case["provider"] == "rrel"
    plain = case["provider"].startswith("plain")
    glob = case["global_repo"]
    ver = [0] * len(case["files"])
    tok_ver = {}            # token -> version of its file when it was created
    failed_ops = set()
    grepo_before = []
    nb = len(case["builtins"])

    def content(tok):
        if tok.startswith("b"):
            return {"elems": case["builtins"][int(tok[1:])], "refs": []}
        m = TOK_RE.match(tok)
        if m.group(2):
            j, v = tok_ver[tok]
            return case["strs"][j][v]
        return case["files"][int(m.group(1))]["versions"][tok_ver[tok]]

    cur_str = [None]

    def stmts_of(i):
        if not isinstance(i, int):      # a model loaded from a string (key aN or the current string main)
            fv = cur_str[0]
            if fv is None or (lazy and not fv["refs"]):
                return []
            return str_stmts(case, exp)
        fv = case["files"][i]["versions"][ver[i]]
        if lazy and not fv["refs"]:
            return []
        return exp[i][ver[i]]

    for k, (o, r) in enumerate(zip(case["ops"], out["ops"])):
        if o["op"] == "write":
            ver[o["file"]] = o["version"]
            continue
        is_str = o["op"] == "loadstr"
        f = "str" if is_str else o["file"]
        cur_str[0] = case["strs"][o["str"]][o["version"]] if is_str else None
        res = r["res"]
        cached = dict(grepo_before) if glob else {}
        # every token mentioned anywhere
        toks = set()
        for m in r.get("models", []):
            toks.add(m["tok"])
            toks.update(t for _, t in m["local"])
            toks.update(t[0] for t in m["targets"] if t)
        toks.update(t for _, t in r.get("all", []))
        toks.update(t for _, t in (r["grepo"] or []))
        for t in toks:
            if t.startswith("b"):
                continue
            m = TOK_RE.match(t)
            if not m:
                bad.append(("C17", "two distinct model objects for one file in one load (%s)" % t, k))
                continue
            if int(m.group(3)) in failed_ops:
                bad.append(("C18", "model %s created by the failed load %s is still reachable" % (t, m.group(3)), k))
            if t not in tok_ver:
                if m.group(2):
                    if is_str and int(m.group(3)) == k:
                        tok_ver[t] = (o["str"], o["version"])
                else:
                    tok_ver[t] = ver[int(m.group(1))]
        if res.startswith("EXC"):
            bad.append(("C17", "unexpected exception " + res, k))
        # ---- C17: each file is read at most once per load
        if len(set(r["reads"])) != len(r["reads"]):
            bad.append(("C17", "a file was opened more than once in one load: reads=%s" % r["reads"], k))
        for m in r["oracle"]:
            bad.append(("C17", m, k))
        if f in cached:
            # ---- C17: repeated load with a global repository returns the cached model, reads nothing
            if res != "ok" or r.get("main") != cached[f] or r["reads"] or r["grepo"] != grepo_before:
                bad.append(("C17", "repeated load of cached file %s: res=%s main=%s cached=%s reads=%s" % (f, res, r.get("main"), cached[f], r["reads"]), k))
        elif res == "ok":
            # expected set of files read: closure of the main file through files that are not cached
            want, todo = set(), [f]
            while todo:
                g = todo.pop()
                if g in want or g in cached:
                    continue
                want.add(g)
                for st in stmts_of(g):
                    todo.extend(st)
            want.discard("str")
            if set(r["reads"]) != want:
                bad.append(("C17", "files read %s, import closure (minus cached) %s" % (sorted(r["reads"]), sorted(want)), k))
        if res == "ok":
            allm = dict(r["all"])
            if len(set(allm.values())) != len(allm):
                bad.append(("C17", "one model registered under two files: %s" % r["all"], k))
            if f in allm and allm[f] != r["main"]:
                bad.append(("C17", "main model is not the registered model of its file", k))
            norepo = is_str and lazy and not cur_str[0]["refs"]      # no repository object at all (see RepoShow.show_load_gen)
            if glob and r["grepo"] != r["all"] and not norepo:
                bad.append(("C17", "the model's repository is not the metamodel's global repository", k))
            for m in r["models"]:
                mt = TOK_RE.match(m["tok"])
                if not mt:
                    continue
                own_op = int(mt.group(3)) == k
                if m["file"] in allm and allm[m["file"]] != m["tok"]:
                    bad.append(("C17", "model %s is not the registered model of file %s" % (m["tok"], m["file"]), k))
                for g, t in m["local"]:
                    if allm.get(g) != t:
                        bad.append(("C17", "local model %s of %s is not the single model of file %s (%s)" % (t, m["tok"], g, allm.get(g)), k))
                for t in m["targets"]:
                    if t and not t[0].startswith("b"):
                        tm = TOK_RE.match(t[0])
                        if tm and t[0] != m["tok"] and (t[0] not in allm.values() or (tm.group(1) and allm.get(int(tm.group(1))) != t[0])):
                            bad.append(("C17", "reference target in %s is not in the single model of its file" % t[0], k))
                if own_op:
                    # ---- C17: local models are the imports in order, lookup is own -> local -> builtin
                    order = []
                    for st in stmts_of(m["file"] if not mt.group(2) else "str"):
                        for g in st:
                            if g not in order:
                                order.append(g)
                    if [g for g, _ in m["local"]] != order:
                        bad.append(("C17", "local models of %s are files %s, imports in order are %s" % (m["tok"], [g for g, _ in m["local"]], order), k))
                    search = [m["tok"]] + [t for _, t in m["local"]] + ["b%d" % i for i in range(nb)]
                    refs = content(m["tok"])["refs"]
                    for j, name in enumerate(refs):
                        want_t = None
                        for t in search:
                            if t in tok_ver or t.startswith("b"):
                                es = content(t)["elems"]
                                if name in es:
                                    want_t = [t, es.index(name)]       # the FIRST element of that name
                                    if plain and es.count(name) > 1:
                                        bad.append(("C17", "PlainName resolved reference %d (%s) of %s although %s defines the name twice" % (j, name, m["tok"], t), k))
                                    break
                        got = m["targets"][j] if j < len(m["targets"]) else None
                        if got != want_t:
                            bad.append(("C17", "reference %d (%s) of %s resolved to %s, lookup order gives %s" % (j, name, m["tok"], got, want_t), k))
        else:
            failed_ops.add(k)
            # ---- C18: nothing of the failed attempt stays, earlier models stay
            if glob and r["grepo"] != grepo_before:
                bad.append(("C18", "after the failed load (%s) the global repository is %s, before it was %s" % (res, r["grepo"], grepo_before), k))
            # ---- C18: the failure is justified by a defect in the current files (no stale state)
            parts = res.split(":")
            kind = parts[1] if len(parts) > 1 else "?"
            why = None
            if kind in ("syntax", "obj", "mp", "unresolved") and (parts[2] != "?" or is_str):
                g = "str" if parts[2] == "?" else int(parts[2])
                fv = cur_str[0] if g == "str" else case["files"][g]["versions"][ver[g]]
                if kind == "syntax" and not fv.get("syn"):
                    why = "file %s has no syntax error" % g
                if kind == "obj" and not fv.get("obj"):
                    why = "no object processor fails on file %s" % g
                if kind == "mp" and not fv.get("mp"):
                    why = "no model processor fails on file %s" % g
                if kind == "unresolved":
                    visible = set(fv["elems"])
                    for st in stmts_of(g):
                        for h in st:
                            # an import may be served from the cache with older content
                            hv = case["files"][h]["versions"]
                            for v in hv:
                                visible.update(v["elems"])
                    for b in case["builtins"]:
                        visible.update(b)
                    dup = set()
                    if plain:
                        srcs = [fv["elems"]] + [v["elems"] for st in stmts_of(g) for h in st for v in case["files"][h]["versions"]] + list(case["builtins"])
                        dup = {x for es in srcs for x in es if es.count(x) > 1}
                    if all(x in visible for x in fv["refs"]) and not any(x in dup for x in fv["refs"]):
                        why = "every reference of file %s is resolvable" % g
            elif kind == "nofile":
                if not any(st == [] for i in range(len(case["files"])) for st in exp[i][ver[i]]):
                    why = "every import statement finds a file"
            else:
                why = "unexpected error " + res
            if why:
                bad.append(("C18", "load failed with %s although %s (stale state?)" % (res, why), k))
        grepo_before = r["grepo"] or []
    return bad


SEPARATE_REPOS = "ml_model_cached_in_another_languages_repository"


def oracle_ml(case, out):
    """C17 / C18 on histories over several registered languages (each metamodel with or without its own global
    repository): a file is read at most once per load and not at all when the global repository of ITS language (or of
    the importing language) holds it; every local model / reference target / all_models entry for such a file is the
    cached object; one model per file; a failed load leaves no model it created anywhere."""
    bad = []
    exp = out["expansions"]
    langs = case["langs"]
    nl = len(langs)
    lang_of = [[i for i, lg in enumerate(langs) if f["path"].endswith(lg["ext"])][0] for f in case["files"]]
    ver = [0] * len(case["files"])
    repos = [([] if lg["global_repo"] else None) for lg in langs]
    failed_ops = set()
    for k, (o, r) in enumerate(zip(case["ops"], out["ops"])):
        if o["op"] == "write":
            ver[o["file"]] = o["version"]
            continue
        f = o["file"]
        L = lang_of[f]
        res = r["res"]
        own = dict(repos[L]) if repos[L] is not None else {}

        def cached_tok(g):
            if g in own:
                return own[g]
            rg = repos[lang_of[g]]
            return dict(rg).get(g) if rg is not None else None
        toks = set()
        for m in r.get("models", []):
            toks.add(m["tok"]); toks.update(t for _, t in m["local"]); toks.update(t[0] for t in m["targets"] if t)
        toks.update(t for _, t in r.get("all", []))
        for g in (r.get("grepos") or []):
            toks.update(t for _, t in (g or []))
        for t in toks:
            mt = TOK_RE.match(t)
            if not mt:
                bad.append(("C17", "two distinct model objects for one file in one load (%s)" % t, k))
            elif int(mt.group(3)) in failed_ops:
                bad.append(("C18", "model %s created by the failed load %s is still reachable" % (t, mt.group(3)), k))
        if res.startswith("EXC"):
            bad.append(("C17", "unexpected exception " + res, k))
        if len(set(r["reads"])) != len(r["reads"]):
            bad.append(("C17", "a file was opened more than once in one load: reads=%s" % r["reads"], k))
        for m in r["oracle"]:
            bad.append(("C17", m, k))
        for g in r["reads"]:
            if cached_tok(g) is not None:
                bad.append(("C17", "file %d was read although the global repository of its language (or of the importing one) holds it as %s" % (g, cached_tok(g)), k))
        if res == "ok":
            if f in own:
                if r["main"] != own[f] or r["reads"]:
                    bad.append(("C17", "repeated load of cached file %d: main=%s cached=%s reads=%s" % (f, r["main"], own[f], r["reads"]), k))
            else:
                want, todo = set(), [f]
                while todo:
                    g = todo.pop()
                    if g in want or (g != f and cached_tok(g) is not None):
                        continue
                    want.add(g)
                    for st in exp[g][ver[g]]:
                        todo.extend(st)
                if set(r["reads"]) != want:
                    bad.append(("C17", "files read %s, import closure minus cached files %s" % (sorted(r["reads"]), sorted(want)), k))
            allm = dict(r["all"])
            if len(set(allm.values())) != len(allm):
                bad.append(("C17", "one model registered under two files: %s" % r["all"], k))
            if f in allm and allm[f] != r["main"]:
                bad.append(("C17", "main model is not the registered model of its file", k))
            for g, t in allm.items():
                if g != f and f not in own and cached_tok(g) is not None and t != cached_tok(g):
                    bad.append(("C17", "file %d is cached as %s in a global repository but the load uses another instance %s" % (g, cached_tok(g), t), k))
            for m in r["models"]:
                # known finding (classifier): the model was taken from the global repository of ANOTHER language's
                # metamodel; its local models and references were fixed when that repository loaded it
                foreign = [SEPARATE_REPOS] if any(rg is not None and li != L and m["tok"] in [x for _, x in rg] for li, rg in enumerate(repos)) \
                    and int(TOK_RE.match(m["tok"]).group(3)) != k else []
                for g, t in m["local"]:
                    if allm.get(g) != t:
                        bad.append(("C17", "local model %s of %s is not the single model of file %s (%s)" % (t, m["tok"], g, allm.get(g)), k) + tuple(foreign))
                for t in m["targets"]:
                    mt = t and TOK_RE.match(t[0])
                    if mt and t[0] != m["tok"] and allm.get(int(mt.group(1))) != t[0]:
                        bad.append(("C17", "reference target in %s (from %s) is not in the single model of its file" % (t[0], m["tok"]), k) + tuple(foreign))
        else:
            failed_ops.add(k)
            for li in range(nl):
                if repos[li] is None:
                    continue
                after = (r.get("grepos") or [None] * nl)[li] or []
                new = [e for e in after if e not in repos[li]]
                gone = [e for e in repos[li] if e not in after]
                fresh = [e for e in new if TOK_RE.match(e[1]) and int(TOK_RE.match(e[1]).group(3)) == k]
                if gone or fresh:
                    bad.append(("C18", "after the failed load (%s) the global repository of language %d lost %s / kept new models %s" % (res, li, gone, fresh), k))
        if r.get("grepos"):
            repos = [(list(g) if g is not None else None) for g in r["grepos"]]
    return bad


def ml_case(n, edges, langs_of, globs, provider="fqn_uri", fail=None, ops=None, search_path=None):
    """Import graph over files of several registered languages: file i has language langs_of[i] (extension .model / .typ)."""
    exts = [".model", ".typ", ".dat"]
    names = ["a", "b", "c", "d"]
    paths = [names[i] + exts[langs_of[i]] for i in range(n)]
    files = []
    for i in range(n):
        imps = [paths[j] for (a, j) in edges if a == i]
        refs = ["e%d" % j for (a, j) in edges if a == i] + ["e5"]
        files.append({"path": paths[i], "versions": [{"imports": list(imps), "elems": ["e%d" % i, "e5"], "refs": refs}]})
    if fail:
        i, ph = fail
        v = files[i]["versions"][0]
        if ph == "unres":
            v["refs"] = v["refs"] + ["q1"]
        elif ph == "nofile":
            v["imports"] = v["imports"] + ["nothere.model"]
        else:
            v[ph] = True
    for f in files:
        v = f["versions"][0]
        f["versions"].append({"imports": [u for u in v["imports"] if u != "nothere.model"], "elems": list(v["elems"]), "refs": [x for x in v["refs"] if x != "q1"]})
    case = {"provider": provider, "recursive": False, "search_path": search_path, "global_repo": globs[langs_of[0]], "builtins": [], "files": files, "dirs": [],
            "langs": [{"ext": exts[i], "global_repo": globs[i]} for i in range(len(globs))]}
    case["ops"] = ops if ops is not None else [{"op": "load", "file": n - 1}, {"op": "load", "file": 0}, {"op": "load", "file": n - 1}, {"op": "load", "file": 0}]
    return case


# ------------------------------------------------------------------ generators
def rel(frm_path, to_path):
    return posixpath.relpath(to_path, posixpath.dirname(frm_path) or ".")


LAYOUTS = [
    ["a.model", "b.model", "c.model", "d.model", "e.model", "f.model"],
    ["a.model", "sub/b.model", "sub/c.model", "d.model", "sub/deep/e.model", "lib/f.model"],
    ["m/a.model", "m/b.model", "lib/c.model", "lib/d.model", "e.model", "m/x/f.model"],
]


def _match(pat, parts, recursive):
    """glob semantics on path components (no hidden files in the layouts)"""
    import fnmatch
    if not pat:
        return not parts
    if pat[0] == "**" and recursive:
        if len(pat) == 1:
            return len(parts) >= 1
        return any(_match(pat[1:], parts[k:], recursive) for k in range(len(parts)))
    if not parts:
        return False
    return fnmatch.fnmatchcase(parts[0], pat[0]) and _match(pat[1:], parts[1:], recursive)


def expand(paths, frm, uri, recursive, search_path=None):
    """Which of `paths` an import statement `uri` written in file `frm` reaches (approximation used by the
    generator only, to keep most imports and references meaningful; the model gets the real expansion)."""
    if search_path is not None:
        for d in [posixpath.dirname(frm) or "."] + list(search_path):
            cand = posixpath.normpath(posixpath.join(d, uri))
            if cand in paths:
                return [paths.index(cand)]
        return []
    pat = posixpath.normpath(posixpath.join(posixpath.dirname(frm) or ".", uri))
    if pat.startswith(".."):
        return []
    pp = pat.split("/")
    out = [k for k, q in enumerate(paths) if _match(pp, q.split("/"), recursive)]
    return sorted(out, key=lambda k: paths[k])


def gen_case(r, n_files=None, fail=None, with_history=True):
    """Random case. fail: None | 'one' (one failing file / phase) | 'random'."""
    n = n_files or r.weighted([(1, 1), (2, 4), (3, 6), (4, 5), (5, 3), (6, 2)])
    layout = r.choice(LAYOUTS)
    paths = layout[:n]
    provider = r.choice(PROVIDERS)
    grepo = provider.endswith("grepo")
    recursive = r.chance(0.3) and provider != "rrel"
    search_path = None
    if provider in ("plain_uri", "fqn_uri") and r.chance(0.25):
        dirs = sorted({posixpath.dirname(p) or "." for p in paths})
        search_path = r.sample(dirs, r.range(1, len(dirs)))
        recursive = False
    case = {"provider": provider, "recursive": recursive, "search_path": search_path, "global_repo": r.chance(0.6),
            "dirs": sorted({posixpath.dirname(p) for p in layout if posixpath.dirname(p)})}
    if grepo:
        pats = [["*.model"], ["*.model", "sub/*.model"], ["**/*.model"], ["lib/*.model", "m/*.model", "*.model"], [r.choice(paths)], ["*/*.model", "?.model"],
                ["m/*.model"], ["sub/*.model", "sub/deep/*.model"], [r.choice(paths), r.choice(paths)]]
        for _ in range(8):
            cand = r.choice(pats)
            rec = cand == ["**/*.model"] or recursive
            if all(expand(paths, "x", u, rec) for u in cand):
                break
        case["patterns"] = cand
        case["recursive"] = rec
        recursive = rec
    nb = r.weighted([(0, 5), (1, 3), (2, 2)])
    case["builtins"] = [r.sample(NAMES, r.range(1, 3)) for _ in range(nb)]
    files = []
    reach = []
    for i, p in enumerate(paths):
        imports = []
        for _ in range(r.weighted([(0, 2), (1, 5), (2, 4), (3, 1)])):
            for _try in range(4):
                kind = r.weighted([("file", 10), ("self", 1), ("glob", 4), ("odd", 2)])
                tgt = r.choice(paths)
                if search_path is not None:
                    u = r.choice([posixpath.basename(tgt), tgt, posixpath.basename(tgt)])
                elif kind == "file":
                    u = rel(p, tgt)
                elif kind == "self":
                    u = rel(p, p)
                elif kind == "glob":
                    u = r.choice(["*.model", "../*.model", "sub/*.model", "?.model", "*/*.model", "**/*.model" if recursive else "*.model", "[ab].model",
                                  "../*/*.model", "x/*.model", "deep/*.model", "../lib/*.model"])
                else:
                    u = r.choice(["./" + rel(p, tgt), "./././" + rel(p, tgt), posixpath.join(posixpath.dirname(rel(p, tgt)) or ".", ".", posixpath.basename(tgt))])
                if expand(paths, p, u, recursive, search_path):
                    break
            imports.append(u)
        elems = r.sample(NAMES[:6], r.weighted([(0, 1), (1, 4), (2, 4), (3, 2)]))
        if not imports and not elems:
            elems = [r.choice(NAMES[:6])]       # a completely empty file is not a model object (out of scope)
        if elems and r.chance(0.12):
            elems = elems + [r.choice(elems)]   # a name defined twice: PlainName refuses it ('not unique'), FQN / RREL take the first
        files.append({"path": p, "versions": [{"imports": imports, "elems": elems, "refs": []}]})
    for i, f in enumerate(files):
        v = f["versions"][0]
        if grepo:
            rs = [k for u in case["patterns"] for k in expand(paths, "x", u, recursive)]
        else:
            rs = [k for u in v["imports"] for k in expand(paths, f["path"], u, recursive, search_path)]
        reach.append(rs)
    # references: mostly to names visible through the own file, its imports or the builtins
    allnames = sorted({e for f in files for e in f["versions"][0]["elems"]} | {e for b in case["builtins"] for e in b})
    for i, f in enumerate(files):
        v = f["versions"][0]
        visible = list(v["elems"]) + [e for k in reach[i] for e in files[k]["versions"][0]["elems"]] + [e for b in case["builtins"] for e in b]
        k = r.weighted([(0, 2), (1, 4), (2, 3), (3, 2)])
        for _ in range(k):
            if visible and (fail is None or r.chance(0.93)):
                v["refs"].append(r.choice(visible))
            elif fail == "random" and allnames:
                v["refs"].append(r.choice(allnames))
    # failures
    if fail:
        nfail = 1 if fail == "one" else r.weighted([(0, 2), (1, 5), (2, 2)])
        for _ in range(nfail):
            v = r.choice(files)["versions"][0]
            ph = r.choice(PHASES)
            if ph == "syn":
                v["syn"] = True
            elif ph == "obj":
                v["obj"] = True
            elif ph == "mp":
                v["mp"] = True
            elif ph == "unres":
                v["refs"].insert(r.below(len(v["refs"]) + 1), "q1" if "q1" not in allnames else "e5")
            elif ph == "nofile" and not grepo:
                v["imports"].insert(r.below(len(v["imports"]) + 1), "nothere.model")
    # version 1: the repair (flags off, missing imports dropped, dangling references dropped)
    for i, f in enumerate(files):
        v = f["versions"][0]
        visible = set(v["elems"]) | {e for k in reach[i] for e in files[k]["versions"][0]["elems"]} | {e for b in case["builtins"] for e in b}
        f["versions"].append({"imports": [u for u in v["imports"] if u != "nothere.model"], "elems": list(v["elems"]),
                              "refs": [x for x in v["refs"] if x in visible]})
    case["files"] = files
    # history
    ops = []
    nops = r.range(2, 5) if with_history else 1
    main = r.below(n)
    for k in range(nops):
        ops.append({"op": "load", "file": main if (k == 0 or r.chance(0.4)) else r.below(n)})
        if fail and r.chance(0.4):
            for i in r.sample(list(range(n)), r.range(1, n)):
                ops.append({"op": "write", "file": i, "version": 1})
    if fail:
        for i in range(n):
            ops.append({"op": "write", "file": i, "version": 1})
        ops.append({"op": "load", "file": main})
        if r.chance(0.5):
            ops.append({"op": "load", "file": r.below(n)})
    # main models loaded from a string (no file name): registered under invented names by the GlobalRepo providers
    if r.chance(0.45 if grepo else 0.15):
        strs = []
        for _ in range(r.range(1, 2)):
            vis = [e for k in (reach[0] if grepo and reach else []) for e in files[k]["versions"][0]["elems"]] + [e for b in case["builtins"] for e in b]
            elems = r.sample(NAMES[:6], r.range(1, 2))
            # (RREL '+m:' creates the model's repository per reference: a string main without references has none)
            v0 = {"imports": [], "elems": elems, "refs": [r.choice(elems + vis) for _ in range(r.range(0, 2))]}
            if fail and r.chance(0.6):
                ph = r.choice(["syn", "obj", "mp", "unres"])
                if ph == "unres":
                    v0["refs"].append("q1" if "q1" not in allnames else "e5")
                else:
                    v0[ph] = True
            v1 = {"imports": [], "elems": list(elems), "refs": [x for x in v0["refs"] if x in elems + vis]}
            strs.append([v0, v1])
        case["strs"] = strs
        for j in range(len(strs)):
            ops.insert(r.below(len(ops) + 1), {"op": "loadstr", "str": j, "version": 0})
            if r.chance(0.7):
                ops.append({"op": "loadstr", "str": j, "version": 1})
        if r.chance(0.5):
            ops.append({"op": "load", "file": main})
    case["ops"] = ops
    return case


def str_case(n, edges, provider, glob_repo, phase):
    """A main model loaded from a string over the import graph of graph_case (GlobalRepo pattern *.model): an earlier
    string model, the failing one, its repair, then a file."""
    case = graph_case(n, edges, provider, glob_repo)
    bad = {"imports": [], "elems": ["e4"], "refs": ["e4", "e0"]}
    if phase == "unres":
        bad["refs"] = bad["refs"] + ["q1"]
    else:
        bad[phase] = True
    good = {"imports": [], "elems": ["e4"], "refs": ["e4", "e0"]}
    earlier = {"imports": [], "elems": ["e3"], "refs": ["e0"]}
    case["strs"] = [[bad, good], [earlier, earlier]]
    case["ops"] = [{"op": "loadstr", "str": 1, "version": 0}, {"op": "loadstr", "str": 0, "version": 0},
                   {"op": "loadstr", "str": 0, "version": 1}, {"op": "load", "file": 0}, {"op": "loadstr", "str": 1, "version": 0}]
    return case


def graph_case(n, edges, provider, glob_repo, fail=None, history="c17"):
    """Explicit import graph on n files (edges: list of (i, j)), every file defines e<i> and a shared
    name e5 and references the elements of its imports; fail = (file, phase)."""
    paths = LAYOUTS[0][:n]
    files = []
    for i in range(n):
        imps = [paths[j] for (a, j) in edges if a == i]
        refs = ["e%d" % j for (a, j) in edges if a == i] + ["e5"]
        v0 = {"imports": list(imps), "elems": ["e%d" % i, "e5"], "refs": refs}
        files.append({"path": paths[i], "versions": [v0]})
    if fail:
        i, ph = fail
        v = files[i]["versions"][0]
        if ph == "syn":
            v["syn"] = True
        elif ph == "obj":
            v["obj"] = True
        elif ph == "mp":
            v["mp"] = True
        elif ph == "unres":
            v["refs"] = v["refs"] + ["q1"]
        elif ph == "nofile":
            v["imports"] = v["imports"] + ["nothere.model"]
    for f in files:
        v = f["versions"][0]
        f["versions"].append({"imports": [u for u in v["imports"] if u != "nothere.model"], "elems": list(v["elems"]),
                              "refs": [x for x in v["refs"] if x != "q1"]})
    case = {"provider": provider, "recursive": False, "search_path": None, "global_repo": glob_repo, "builtins": [], "files": files, "dirs": []}
    if provider.endswith("grepo"):
        case["patterns"] = ["*.model"]
    if history == "c17":
        case["ops"] = [{"op": "load", "file": 0}, {"op": "load", "file": n - 1}, {"op": "load", "file": 0}]
    else:
        last = n - 1
        case["ops"] = ([{"op": "load", "file": last}] if fail and fail[0] != last else []) + \
            [{"op": "load", "file": 0}] + [{"op": "write", "file": i, "version": 1} for i in range(n)] + \
            [{"op": "load", "file": 0}, {"op": "load", "file": last}]
    return case


def all_graphs(n, self_edges=True):
    pairs = [(i, j) for i in range(n) for j in range(n) if self_edges or i != j]
    for bits in itertools.product([0, 1], repeat=len(pairs)):
        yield [p for p, b in zip(pairs, bits) if b]


# ------------------------------------------------------------------ running
def closure_size(case, out):
    return max([len(set(o.get("reads", []))) for o in out["ops"]] + [0])


def run_cases(chk, cases, tag):
    """Runs implementation and model on the cases; returns (outs, model strings, coq errors)."""
    chunks = [cases[i::core.NPROC] for i in range(core.NPROC)]
    chunks = [c for c in chunks if c]
    res = core.run_impl_parallel("c17", [{"cases": [impl_case(c) for c in ch]} for ch in chunks])
    outs = {}
    for ch, o in zip(chunks, res):
        for c, x in zip(ch, o):
            outs[id(c)] = x
    outs = [outs[id(c)] for c in cases]
    # few large shards: starting coqc (loading the libraries) costs far more than evaluating the cases
    nproc = core.NPROC
    core.NPROC = max(1, min(nproc, 3 if len(cases) < 1500 else 6))
    try:
        hashes, errs = core.coq_eval(tag, IMPORTS, [coq_case(c, o["expansions"], "run_case_hash") for c, o in zip(cases, outs)], shard=400)
    finally:
        core.NPROC = nproc
    # full model text only where the hash of the canonical outcome differs (printing strings is slow in coqc)
    vals = []
    diff = []
    for k, (c, o, h) in enumerate(zip(cases, outs, hashes)):
        if h is not None and h == hash_text(canon(o)):
            vals.append(canon(o))
        else:
            vals.append(None if h is None else "<hash %s differs>" % h)
            if h is not None and len(diff) < 12:
                diff.append(k)
    if diff:
        full, e2 = core.coq_eval(tag + "full", IMPORTS, [coq_case(cases[k], outs[k]["expansions"]) for k in diff], shard=4)
        errs = errs + e2
        for k, v in zip(diff, full):
            if v is not None:
                vals[k] = v
    return outs, vals, errs


def corpus_cases(pid):
    d = os.path.join(core.VERIF, "corpus", pid)
    out = []
    if os.path.isdir(d):
        for f in sorted(os.listdir(d)):
            if f.endswith(".json"):
                c = json.load(open(os.path.join(d, f)))
                out.append(c.get("case", c))
    return out


def evaluate(chk, pid, cases, outs, vals, errs):
    """Diff model vs implementation, apply the oracle of property pid; returns (failures, disagreements)."""
    failures, disagreements = [], []
    if errs:
        disagreements.append({"case": "coq evaluation", "model": errs[:2]})
    for c, o, mv in zip(cases, outs, vals):
        ic = canon(o)
        nfiles = closure_size(c, o)
        key = json.dumps([c["provider"], c["global_repo"], c["builtins"], [f["versions"] for f in c["files"]], c["ops"], c.get("search_path"), c.get("patterns"), c.get("strs"), c.get("langs")], sort_keys=True)
        chk.count(key, nontrivial=nfiles >= 2)
        chk.stat("provider:" + c["provider"])
        chk.stat("global_repo:%s" % c["global_repo"])
        chk.stat("closure files:%d" % nfiles)
        if c.get("search_path") is not None:
            chk.stat("search_path")
        for op in o["ops"]:
            if op["res"] != "written":
                chk.stat("load:" + ":".join(op["res"].split(":")[:2]))
        if c.get("strs"):
            chk.stat("with string-loaded main models")
        if mv is not None and mv != ic:
            disagreements.append({"case": c, "impl": ic, "model": mv})
        bad = oracle_ml(c, o) if c.get("langs") else oracle(c, o)
        if c.get("langs"):
            chk.stat("several registered languages")
        mine = [b for b in bad if b[0] == pid]
        if mine:
            tags = sorted({b[3] for b in mine if len(b) > 3}) if all(len(b) > 3 for b in mine) else []
            failures.append({"case": c, "impl": ic, "model": mv, "what": "; ".join("op %d: %s" % (b[2], b[1]) for b in mine[:4]), "tags": tags})
        if chk.cov["evaluations"] % 97 == 5:
            chk.sample({"provider": c["provider"], "global_repo": c["global_repo"], "files": {f["path"]: render(f["versions"][0]) for f in c["files"]},
                        "ops": c["ops"], "outcome": ic})
    return failures, disagreements


def replay(rep):
    case = rep.get("case")
    if not isinstance(case, dict) or "files" not in case:
        print(json.dumps(rep, indent=1))
        return 0
    out = core.run_impl("c17", {"cases": [impl_case(case)]})[0]
    vals, errs = core.coq_eval("replay", IMPORTS, [coq_case(case, out["expansions"])])
    print("files:")
    for f in case["files"]:
        for v, fv in enumerate(f["versions"]):
            print("  %s (version %d): %s" % (f["path"], v, render(fv).replace("\n", " ")))
    print("provider=%s global_repo=%s builtins=%s ops=%s" % (case["provider"], case["global_repo"], case["builtins"], case["ops"]))
    print("implementation:", canon(out))
    print("model         :", vals[0] if vals else errs)
    bad = oracle(case, out)
    for b in bad:
        print("property %s violated at op %d: %s" % b[:1] + (b[2], b[1]) if False else "property %s violated at op %d: %s" % (b[0], b[2], b[1]))
    print("verdict:", "VIOLATED" if bad else "holds", "| model agrees:", bool(vals) and vals[0] == canon(out))
    return 1 if bad else 0
