"""Structured generator of textX grammar texts for C23: mostly-valid grammars and a stream of
targeted and token-level mutations.  Every choice comes from the Rng passed in."""
import re

BASE = ["ID", "INT", "STRING", "FLOAT", "BOOL", "NUMBER", "STRICTFLOAT", "BASETYPE"]
RULES = ["A", "B", "C", "D", "E", "F"]
ATTRS = ["a", "b", "c", "name", "x"]
STRS_OK = ["'a'", "'b'", '"kw"', "','", "';'", "'+'", "'\\n'", "'\\x41'", "'\\u0041'", "'\\101'",
           "'\\N{BULLET}'", "''", "'it\\'s'", "'\\U00000041'", "'\\q'", "'\\x'", "'begin'", "'end'", "'\\t x'"]
STRS_BAD = ["'\\N{foo}'", "'\\U99999999'", "'\\xzz'", "'\\uzzzz'", "'\\Uzzzzzzzz'", "'a\\N{no such name}b'",
            '"\\u12G4"', "'\\U0011FFFF'", "'\\\\'"]
RES_OK = ["/a+/", "/[a-z]+/", "/\\d+/", "/\\//", "/x|y/", "/(a)(b)/", "/\\w+\\b/", "/[^;]*/", "/\\s*/", "/a{1,2}/"]
RES_BAD = ["/a{99999999999}/", "/\\1/", "/(?i/", "/(/", "/[a/", "/a{2,1}/", "/*/", "/(?P<x>a)(?P<x>b)/", "/[z-a]/", "/\\N{foo}/", "/a**/", "/(?<=a+)b/", "/)/", "/\\/(/"]
PARAMS_OK = ["skipws", "noskipws", "ws=' '", "ws='\\n\\t '", "ws=''", "split='.'", "split='::'", "skipws='x'"]
PARAMS_BAD = ["ws", "nows", "split", "nosplit", "split=''", "foo", "nofoo", "ws2=' '", "noskipws='3'", "no", "eolterm"]
RRELS_OK = ["a", "a.b", "^a", "..a", ".a", "~a", "a*", "(a,b)", "+m:a.b", "+p:^a*.b", "+mp:a", "parent(B).a", "a.~b", "'x'~a",
            "(..)*.a", "^(a,b).c", "...", "^"]
RRELS_BAD = ["", "^^^", "~", "a.", ".", "+q:a", "parent(B", "(a", "a,,b", "a b", "+m:", "*", "parent().a", "1a"]


def pick_name(r, defined):
    return r.choice(defined)


class G:
    """One generated grammar as a list of rule dicts; printed by text()."""

    def __init__(self, r, nrules=None):
        self.r = r
        n = nrules or r.weighted([(1, 2), (2, 4), (3, 4), (4, 3), (5, 1)])
        pool = RULES if r.chance(0.85) else r.choice([["R\u00e8gle", "_x1", "\u0394", "B2", "Comment", "E_"], ["Model", "Comment", "Item", "X", "Y", "Z"]])
        self.names = pool[:n]
        self.header = []
        self.rules = [self.rule(nm) for nm in self.names]
        self.sep = r.weighted([(" ", 8), ("\n    ", 2), ("\t", 1)])
        self.comments = {}
        if r.chance(0.15):
            self.comments[r.below(n)] = r.choice(["// a comment", "/* block\n comment */", "// A: B#;", "/* ' */"])

    # -- pieces
    def smatch(self):
        r = self.r
        return r.choice(STRS_OK) if r.chance(0.75) else r.choice(RES_OK)

    def ref(self):
        r = self.r
        if r.chance(0.04):
            return "__base__." + r.choice(BASE)
        return r.choice(self.names) if r.chance(0.75) else r.choice(BASE)

    def mods(self):
        r = self.r
        items = []
        for _ in range(r.range(1, 2)):
            items.append(r.weighted([("eolterm", 2), (self.smatch(), 5)]))
        return "[" + " ".join(items) + "]"

    def objref(self):
        r = self.r
        cls = r.choice(self.names)
        k = r.below(10)
        if k < 5:
            return "[%s]" % cls
        sep = r.choice([":", "|"])
        rule = r.choice(["ID", "INT", "STRING"] + self.names[:1])
        if k < 8:
            return "[%s%s%s]" % (cls, sep, rule)
        return "[%s%s%s|%s]" % (cls, sep, rule, r.choice(RRELS_OK))

    def assignment(self):
        r = self.r
        op = r.weighted([("=", 6), ("+=", 3), ("*=", 2), ("?=", 2)])
        rhs = r.weighted([(self.smatch(), 3), (self.ref(), 5), (self.objref(), 3)])
        m = ""
        if op in ("+=", "*=") and r.chance(0.35):
            m = self.mods()
        return "%s%s%s%s" % (r.choice(ATTRS), op, rhs, m)

    def expr(self, depth):
        r = self.r
        k = r.weighted([("asg", 5), ("str", 5), ("ref", 4), ("grp", 2 if depth < 2 else 0)])
        pred = ""
        if k == "asg":
            e = self.assignment()
        else:
            if r.chance(0.08):
                pred = r.choice(["!", "&"])
            if k == "str":
                e = self.smatch()
            elif k == "ref":
                e = self.ref()
            else:
                e = "(" + self.choice(depth + 1) + ")"
        rep = ""
        if r.chance(0.3):
            op = r.weighted([("*", 3), ("+", 3), ("?", 3), ("#", 1 if k == "grp" else 0)])
            if k == "asg" and e.split("=")[0].endswith("?"):
                op = "?"       # bool assignment inside */+ is a (textX) semantic error: keep the valid stream valid
            rep = op
            if op in "*+#" and r.chance(0.3):
                rep += self.mods()
        sup = "-" if r.chance(0.06) and k != "asg" else ""
        return pred + e + rep + sup

    def sequence(self, depth):
        return " ".join(self.expr(depth) for _ in range(self.r.weighted([(1, 4), (2, 4), (3, 2), (4, 1)])))

    def choice(self, depth):
        return " | ".join(self.sequence(depth) for _ in range(self.r.weighted([(1, 6), (2, 3), (3, 1)])))

    def rule(self, name):
        r = self.r
        params = ""
        if r.chance(0.2):
            params = "[" + ", ".join(r.choice(PARAMS_OK) for _ in range(r.range(1, 2))) + "]"
        body = self.choice(0)
        if r.chance(0.06):
            body = r.choice(BASE)          # alias of a base type
        return {"name": name, "params": params, "body": body}

    def text(self):
        out = list(self.header)
        for i, ru in enumerate(self.rules):
            if i in self.comments:
                out.append(self.comments[i])
            out.append("%s%s:%s%s%s;" % (ru["name"], ru["params"], self.sep, ru["body"], self.sep if self.sep != " " else ""))
        return "\n".join(out) + "\n"


TOK_RE = re.compile(r"""'(?:\\.|[^'\\])*'|"(?:\\.|[^"\\])*"|/(?:\\.|[^/\\])*/|\w+|[+*?]=|\S""")


def tokens(text):
    return TOK_RE.findall(text)


def untok(toks):
    return " ".join(toks) + "\n"


def bool_bodies(g):
    return [ru for ru in g.rules if "?=" in ru["body"]]


# ---- targeted mutations: each returns (text, label)
def m_token(r, g):
    toks = tokens(g.text())
    if not toks:
        return g.text(), "token-none"
    k = r.weighted([("drop", 4), ("dup", 3), ("swap", 2), ("ins", 2)])
    i = r.below(len(toks))
    if k == "drop":
        del toks[i]
    elif k == "dup":
        toks.insert(i, toks[i])
    elif k == "swap" and len(toks) > 1:
        j = r.below(len(toks))
        toks[i], toks[j] = toks[j], toks[i]
    else:
        toks.insert(i, r.choice(["#", "-", "[", "]", "(", ")", "|", ":", ";", "=", "?=", "+=", "*", "+", "?", "!", "&", ",", ".",
                                 "^", "~", "eolterm", "import", "reference", "as", "'", "/", "Zz", "ID", "A", "3"]))
    if r.chance(0.25):        # second edit
        i = r.below(len(toks)) if toks else 0
        if toks:
            if r.chance(0.5):
                del toks[i]
            else:
                toks.insert(i, toks[i])
    return untok(toks), "token-" + k


def _replace_ref(r, g, new, pick=None):
    """replace one rule-reference token (outside brackets) in some body by `new`."""
    cand = []
    for ri, ru in enumerate(g.rules):
        toks = tokens(ru["body"])
        depth = 0
        for ti, t in enumerate(toks):
            if t == "[":
                depth += 1
            elif t == "]":
                depth -= 1
            elif depth == 0 and re.fullmatch(r"[A-Z]\w*", t):
                cand.append((ri, ti))
    if not cand:
        g.rules[-1]["body"] += " " + new
        return
    ri, ti = r.choice(cand)
    toks = tokens(g.rules[ri]["body"])
    toks[ti] = new
    g.rules[ri]["body"] = " ".join(toks)


def m_undefined(r, g):
    _replace_ref(r, g, r.choice(["Zz", "Undefined", "id", "Id", "OBJECT", "a"]))
    return g.text(), "undefined-rule"


def m_bad_regex(r, g):
    ru = r.choice(g.rules)
    bad = r.choice(RES_BAD)
    k = r.below(4)
    if k == 0:
        ru["body"] = bad + " " + ru["body"]
    elif k == 1:
        ru["body"] += " x=" + bad
    elif k == 2:
        ru["body"] += " 'k'+[%s]" % bad
    else:
        ru["body"] += " | (" + bad + ")*"
    return g.text(), "bad-regex"


def m_bad_string(r, g):
    ru = r.choice(g.rules)
    bad = r.choice(STRS_BAD)
    k = r.below(4)
    if k == 0:
        ru["body"] = bad + " " + ru["body"]
    elif k == 1:
        ru["body"] += " x=" + bad
    elif k == 2:
        ru["body"] += " y+=ID[%s]" % bad
    else:
        ru["body"] += " | " + bad + "?"
    return g.text(), "bad-string"


def m_bad_param(r, g):
    ru = r.choice(g.rules)
    ps = [r.choice(PARAMS_BAD)]
    if r.chance(0.4):
        ps.insert(r.below(2), r.choice(PARAMS_OK))
    ru["params"] = "[" + ", ".join(ps) + "]"
    return g.text(), "bad-param"


def m_bad_modifier(r, g):
    ru = r.choice(g.rules)
    k = r.below(5)
    sm = r.choice(["','", "eolterm", "/;/"])
    if k == 0:
        ru["body"] += " 'z'?[%s]" % sm
    elif k == 1:
        ru["body"] += " m=ID[%s]" % sm
    elif k == 2:
        ru["body"] += " m?='z'[%s]" % sm
    elif k == 3:
        ru["body"] += " (m?='z')*"
    else:
        ru["body"] += " m?='z'+"
    return g.text(), "bad-modifier"


def m_multi_bool(r, g):
    ru = r.choice(g.rules)
    a = r.choice(ATTRS)
    ru["body"] += " %s=ID %s?='q'%s" % (a, a, r.choice(["", "", "[',']", "?", "*"]))
    return g.text(), "multi-bool"


def m_alias_cycle(r, g):
    k = r.below(8)
    names = g.names
    if k == 0 or len(names) == 1:
        ru = r.choice(g.rules)
        ru["body"] = r.choice([ru["name"], "(%s)" % ru["name"], ru["name"] + "-", "((%s))" % ru["name"]])
        ru["params"] = ""
    elif k in (1, 2, 3):
        n = min(len(names), r.range(2, 4))
        cyc = r.sample(list(range(len(names))), n)
        for i, ri in enumerate(cyc):
            g.rules[ri]["body"] = g.rules[cyc[(i + 1) % n]]["name"]
            g.rules[ri]["params"] = ""
    elif k == 4:      # alias chain ending in an undefined rule
        g.rules[-1]["body"] = "Zz"
        g.rules[-1]["params"] = ""
        if len(g.rules) > 1:
            g.rules[0]["body"] = g.rules[-1]["name"]
            g.rules[0]["params"] = ""
    elif k == 5:      # legitimate alias chain (no cycle) with recursion through a real rule
        if len(g.rules) > 1:
            g.rules[0]["body"] = g.rules[1]["name"]
            g.rules[0]["params"] = ""
            g.rules[1]["body"] = "'x' " + g.rules[0]["name"] + "?"
        else:
            g.rules[0]["body"] = "'x' " + g.rules[0]["name"] + "?"
    elif k == 6:      # cycle not reachable from the first rule, first rule fine
        if len(g.rules) > 2:
            g.rules[1]["body"] = g.rules[2]["name"]
            g.rules[2]["body"] = g.rules[1]["name"]
            g.rules[1]["params"] = g.rules[2]["params"] = ""
        else:
            g.rules[-1]["body"] = g.rules[-1]["name"]
            g.rules[-1]["params"] = ""
    else:             # self alias with rule params: wrapped in a Sequence, not an alias
        ru = r.choice(g.rules)
        ru["body"] = ru["name"]
        ru["params"] = "[noskipws]"
    return g.text(), "alias-cycle"


def m_ugroup_ref(r, g):
    ru = r.choice(g.rules)
    k = r.below(5)
    tgt = r.choice(g.names + ["ID"])
    if k == 0:
        ru["body"] += " %s#" % tgt
    elif k == 1:
        ru["body"] += " (%s)#" % tgt
    elif k == 2:
        ru["body"] = "%s#[',']" % tgt
    elif k == 3:
        ru["body"] += " 'q'# /r/#"
    else:
        ru["body"] += " (x=%s)# (!%s)#" % (tgt, tgt)
    return g.text(), "ugroup-ref"


def m_bad_objref(r, g):
    ru = r.choice(g.rules)
    k = r.below(7)
    if k == 0:
        ru["body"] += " r=[%s]" % r.choice(BASE)
    elif k == 1:
        ru["body"] += " r=[Zz]"
    elif k == 2:
        ru["body"] += " r=[%s:Zz]" % r.choice(g.names)
    elif k == 3:
        ru["body"] += " r=[%s|ID|%s]" % (r.choice(g.names), r.choice(RRELS_BAD))
    elif k == 4:
        ru["body"] += " r=[foo.Bar]"
    elif k == 5:
        ru["body"] += " r+=[%s|ID|%s][',']" % (r.choice(g.names), r.choice(RRELS_OK))
    else:
        ru["body"] += " r=[OBJECT]"
    return g.text(), "bad-objref"


def m_reference(r, g):
    k = r.below(6)
    lang = r.choice(["textx", "c23lang", "nolang"])
    alias = r.choice(["", "", " as t"])
    ns = "t" if alias else lang
    g.header.append("reference %s%s" % (lang, alias))
    ru = r.choice(g.rules)
    if k < 3:
        ru["body"] += " r=[%s.%s]" % (ns, r.choice(["Foo", "Thing", "ID", "Model"]))
    elif k == 3:
        ru["body"] += " r=[%s.Thing|ID|+m:a]" % ns
    elif k == 4:
        ru["body"] += " r=[other.Thing]"
    return g.text(), "reference"


QUALIFIED = ["__base__.INT", "__base__.ID", "__base__.Foo", "types.Item", "a.b.C", "lib.common.Thing", "A.A", "B.x", "None.A",
             "c23lang.Thing", "c23lang.Model", "c23lang.Nope", "nolang.X", "textx.TextxRule", "textx.Nope", "t.Thing", "t.Nope",
             "c23lang.sub.Thing", "__base__.sub.INT"]


def m_qualified(r, g):
    """fully qualified rule / class references with existing and non-existing namespaces"""
    for _ in range(r.range(0, 2)):
        lang = r.choice(["c23lang", "textx", "nolang"])
        g.header.append("reference %s%s" % (lang, r.choice(["", "", " as t"])))
    q = r.choice(QUALIFIED)
    ru = r.choice(g.rules)
    k = r.below(9)
    if k == 0:
        ru["body"] += " " + q
    elif k == 1:
        ru["body"] += " q=" + q
    elif k == 2:
        ru["body"] += " q+=%s[',']" % q
    elif k == 3:
        ru["body"] = q                      # alias of a qualified rule
        ru["params"] = ""
    elif k == 4:
        ru["body"] = q + "-"
        ru["params"] = ""
    elif k == 5:
        ru["body"] += " q=[%s]" % q
    elif k == 6:
        ru["body"] += " | %s+ !%s (%s)#" % (q, q, q)
    elif k == 7:                            # alias chain ending in a qualified rule
        ru["body"] = q
        ru["params"] = ""
        if len(g.rules) > 1:
            other = r.choice([x for x in g.rules if x is not ru])
            other["body"] = ru["name"]
            other["params"] = ""
    else:
        ru["body"] += " q=[%s|%s]" % (r.choice(g.names), "ID")
        _replace_ref(r, g, q)
    return g.text(), "qualified"


def m_bool_many(r, g):
    """a `?=` attribute that is also assigned elsewhere in the rule"""
    ru = r.choice(g.rules)
    a = r.choice(ATTRS)
    tail = r.choice(["%s*=ID" % a, "%s+=ID" % a, "(%s=ID)*" % a, "%s=ID %s=INT" % (a, a), "| 'k' %s=ID" % a, "| %s+=ID" % a,
                     "(%s=ID | 'z')+" % a, "%s=ID" % a, "('x' | %s=ID) %s=ID" % (a, a), "(%s*=ID)#" % a, "(%s=ID)#" % a])
    if r.chance(0.5):
        ru["body"] = "%s?='q' %s" % (a, tail)
    else:
        ru["body"] = "%s?='q' %s %s" % (a, ru["body"], tail)
    return g.text(), "bool-many"


def m_import(r, g):
    g.header.insert(0, "import " + r.choice(["foo", "a.b", "base"]))
    return g.text(), "import"


def m_duplicate(r, g):
    k = r.below(4)
    i = r.below(len(g.rules))
    ru = dict(g.rules[i])
    if k == 0:
        ru["body"] = "Zz"                 # overridden definition with an undefined reference
        g.rules.insert(i, ru)
    elif k == 1:
        ru["body"] = "Zz"
        g.rules.append(ru)                # overriding definition is the bad one
    elif k == 2:
        ru["body"] = ru["name"]
        ru["params"] = ""
        g.rules.insert(i, ru)
    else:
        ru = {"name": r.choice(BASE + ["Comment", "OBJECT"]), "params": "", "body": r.choice(["'q'", "/q/", "A", "ID", "x=ID"])}
        g.rules.append(ru)
    return g.text(), "duplicate-rule"


def m_garbage(r, g):
    k = r.below(8)
    t = g.text()
    if k == 0:
        return "", "garbage-empty"
    if k == 1:
        return r.choice(["   \n", "// only a comment\n", "/* c */", ";", ":", "A", "A:", "A: ;", "A: 'a'", "'a';", "\x00", "A: \u00e9;"]), "garbage-small"
    if k == 2:
        cut = r.below(len(t) + 1)
        return t[:cut], "garbage-truncated"
    if k == 3:
        i = r.below(len(t) + 1)
        return t[:i] + r.choice(["'", '"', "/", "/*", "//", "\\", "\u00e9", "\u4e2d", "\t", "\r\n"]) + t[i:], "garbage-char"
    if k == 4:
        return t + t, "garbage-doubled"
    if k == 5:
        return t.replace(";", "", 1), "garbage-nosemi"
    if k == 6:
        return t.replace(":", "=", 1), "garbage-colon"
    return "\u00dcber: name=ID '\u20ac' /[\u00e4\u00f6]+/;\n" + t, "garbage-unicode"


MUTATORS = [(m_token, 10), (m_undefined, 4), (m_bad_regex, 4), (m_bad_string, 4), (m_bad_param, 4), (m_bad_modifier, 3),
            (m_multi_bool, 1), (m_alias_cycle, 5), (m_ugroup_ref, 3), (m_bad_objref, 4), (m_reference, 3), (m_import, 1),
            (m_duplicate, 3), (m_qualified, 6), (m_bool_many, 3), (m_garbage, 3)]


def gen_case(r):
    """Returns dict(text, kind).  ~35% valid grammars, the rest mutated."""
    g = G(r)
    if r.chance(0.35):
        return {"text": g.text(), "kind": "valid"}
    m = r.weighted(MUTATORS)
    text, label = m(r, g)
    if r.chance(0.12) and m is not m_garbage:      # stack a second mutation
        m2 = r.weighted(MUTATORS[1:15])
        if m2 is not m:
            text, l2 = m2(r, g)
            label += "+" + l2
    return {"text": text, "kind": label}
