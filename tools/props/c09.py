"""C09 — postponed resolution reaches the right fixpoint and terminates."""
import itertools
import json
from vt import core
from vt.main import decide
from props import resolve_common as rc
from translate import resolve_tr


def enum_digraphs(n, r, limit):
    """dependency digraphs on n single references in one or two files: every subset of the n*n edges when small, else sampled."""
    cases = []
    edges = [(a, b) for a in range(n) for b in range(n)]
    total = 2 ** len(edges)
    picks = range(total) if total <= limit else sorted(set(r.below(total) for _ in range(limit)))
    for bits in picks:
        deps = {i: [] for i in range(n)}
        for k, (a, b) in enumerate(edges):
            if bits >> k & 1:
                deps[a].append(b)
        two = bits % 2 == 1 and n > 1
        files = ["main.c8"] + (["f1.c8"] if two else [])
        split = n // 2 if two else n
        texts = {}
        layout, slots, table = {}, [], {}
        for fi, f in enumerate(files):
            ids = list(range(0, split)) if fi == 0 else list(range(split, n))
            lines = ['import "f1.c8"'] if (fi == 0 and two) else []
            lines += ["item t%d" % i for i in ids] + ["item tx"]
            if ids:
                lines.append("holder h0" + "".join(" single r%d" % i for i in ids))
            for pi, i in enumerate(ids):
                layout[str(i)] = {"file": f, "slot": i, "many": False, "pos": pi}
                slots.append((i, False, "%s/h0/%d" % (f, pi)))
                table[str(i)] = {"delay": 0, "deps": deps[i], "never": False, "tgt": i}
            texts[f] = "\n".join(lines) + "\n"
        cases.append({"files": texts, "main": "main.c8", "table": table, "layout": layout, "slots": slots,
                      "file_order": files, "nrefs": n, "kind": "enum%d" % n})
    return cases


def chain_cases():
    """Chains r0 -> r1 -> ... -> rn (ri waits for r(i+1), rn for nothing) with the head in one file and the rest
    in the other, both placements, the rest in both textual orders, decided the way real providers do
    (needs_to_be_resolved on the object holding the awaited reference, i.e. another model's resolver)."""
    cases = []
    for n in range(1, 5):
        for head_in_main in (True, False):
            for rev in (False, True):
                for one_file in (False, True):
                    if one_file and not head_in_main:
                        continue
                    rest = list(range(1, n + 1))
                    if rev:
                        rest.reverse()
                    if one_file:
                        per = {"main.c8": [0] + rest}
                    else:
                        per = {"main.c8": [0], "f1.c8": rest} if head_in_main else {"main.c8": rest, "f1.c8": [0]}
                    texts, layout, slots, table = {}, {}, [], {}
                    for f, ids in per.items():
                        lines = ['import "f1.c8"'] if (f == "main.c8" and len(per) == 2) else []
                        lines += ["item t%d" % i for i in ids] + ["item tx"]
                        lines.append("holder h0" + "".join(" single r%d" % i for i in ids))
                        for pi, i in enumerate(ids):
                            layout[str(i)] = {"file": f, "slot": i, "many": False, "pos": pi}
                            slots.append((i, False, "%s/h0/%d" % (f, pi)))
                            table[str(i)] = {"delay": 0, "deps": [i + 1] if i < n else [], "never": False, "tgt": i}
                        texts[f] = "\n".join(lines) + "\n"
                    c = {"files": texts, "main": "main.c8", "table": table, "layout": layout, "slots": slots,
                         "file_order": list(per), "nrefs": n + 1, "kind": "chain-query"}
                    cases.append(rc.set_query(c))
    # a cycle in the imported file plus a reference of the main file waiting for it; two healthy references
    for head_in_main in (True, False):
        per = {"main.c8": [0, 1], "f1.c8": [2, 3, 4, 5]} if head_in_main else {"main.c8": [2, 3, 4, 5], "f1.c8": [0, 1]}
        deps = {0: [4], 1: [3], 2: [], 3: [2], 4: [5], 5: [4]}
        texts, layout, slots, table = {}, {}, [], {}
        for f, ids in per.items():
            lines = ['import "f1.c8"'] if f == "main.c8" else []
            lines += ["item t%d" % i for i in ids] + ["item tx"]
            lines.append("holder h0" + "".join(" single r%d" % i for i in ids))
            for pi, i in enumerate(ids):
                layout[str(i)] = {"file": f, "slot": i, "many": False, "pos": pi}
                slots.append((i, False, "%s/h0/%d" % (f, pi)))
                table[str(i)] = {"delay": 0, "deps": deps[i], "never": False, "tgt": i}
            texts[f] = "\n".join(lines) + "\n"
        c = {"files": texts, "main": "main.c8", "table": table, "layout": layout, "slots": slots,
             "file_order": list(per), "nrefs": 6, "kind": "chain-query"}
        cases.append(rc.set_query(c))
    return cases


def run(chk):
    if not chk.prove([resolve_tr.translate]):
        # say which theorems are affected: termination is proved directly on the model with the loop-condition fact only,
        # the progress count with the two counting facts only; the least-fixpoint theorems use all facts (Proofs/ResolveProofs.v)
        if chk.translator_errors:
            chk.notes.append("the translator refused the current source: no theorem of C09 is re-established (%s)" % "; ".join(chk.translator_errors)[:300])
        else:
            for thms, target in (("C09_terminates, C09_terminates_snapshot", "Proofs/ResolveTermProofs.vo"),
                                 ("C09_progress_counted_exact", "Proofs/ResolveCountProofs.vo"),
                                 ("the least-fixpoint theorems (C09_success_iff, C09_monotone_*, C09_snapshot_*, C09_error_names, ...)", "Proofs/ResolveProofs.vo")):
                ok, _ = core.coq_make([target])
                chk.notes.append("%s: %s against the current source (%s %s)" % (thms, "still proved" if ok else "NOT proved", target, "builds" if ok else "does not build"))
        for n in chk.notes:
            print("NOTE property=C09 " + n)
    cases = rc.corpus_cases("C09") + chain_cases()
    cases += enum_digraphs(2, chk.rng.split("e2"), 16)
    cases += enum_digraphs(3, chk.rng.split("e3"), 512 if chk.thorough else 150)
    cases += enum_digraphs(4, chk.rng.split("e4"), 3000 if chk.thorough else 150)
    n = 1500 if chk.thorough else 250
    for i in range(n):
        r = chk.rng.split(i)
        c = rc.build_case(r, r.range(2, 10), r.weighted([(1, 4), (2, 3), (3, 2)]), "deps")
        c["kind"] = "random"
        if i % 3 == 2:
            rc.set_query(c)
            c["kind"] = "random-query"
        cases.append(c)
    impl, vals, errs = rc.run_cases(chk, cases)
    disagreements, failures = [], []
    if errs:
        disagreements.append({"case": "coq evaluation", "model": errs[:2]})
    for c, mv in zip(cases, vals):
        o = impl[id(c)]
        ic = rc.impl_canon(c, o)
        postponed = len(o["log"]) > c["nrefs"]
        chk.count(json.dumps([c["files"], c["table"], bool(c.get("where"))], sort_keys=True), nontrivial=postponed)
        chk.stat(c["kind"])
        chk.stat("outcome=" + o["outcome"].split(":")[0])
        chk.stat("rounds~%d" % min(6, (len(o["log"]) + c["nrefs"] - 1) // max(1, c["nrefs"])))
        if mv is not None and ic != mv:
            disagreements.append({"case": {"files": c["files"], "table": c["table"], "where": c.get("where")}, "impl": ic, "model": mv})
        # property oracle: verdict = (least fixpoint covers everything); names = the complement; targets fixed
        good = rc.lfp(c)
        allr = set(range(c["nrefs"]))
        bad = None
        if o["outcome"] == "ok":
            if good != allr:
                bad = "load succeeded although %s cannot resolve in any order" % sorted(allr - good)
            else:
                for s, many, key in c["slots"]:
                    ids = sorted([int(i) for i, l in c["layout"].items() if l["slot"] == s], key=lambda i: c["layout"][str(i)]["pos"])
                    want = ["t%d" % c["table"][str(i)]["tgt"] for i in ids]
                    got = o["slots"].get(key)
                    if (got if many else [got]) != want:
                        bad = "slot %s holds %r, expected %r" % (key, got, want)
                        break
        elif o["outcome"] == "unresolvable":
            names = sorted(int(x[1:]) for x in o["names"])
            if good == allr:
                bad = "load failed although every reference can resolve in some order"
            elif names != sorted(allr - good):
                bad = "error names %s, unresolvable references are %s" % (names, sorted(allr - good))
        else:
            bad = "unexpected load outcome " + o["outcome"]
        if len(o["log"]) > (c["nrefs"] + 1) * c["nrefs"] + 1:
            bad = "more provider calls than (n+1) rounds allow: %d" % len(o["log"])
        if bad:
            failures.append({"case": {"files": c["files"], "table": c["table"], "where": c.get("where")}, "impl": o, "what": bad, "tags": []})
        if chk.cov["evaluations"] % 150 == 11:
            chk.sample({"files": c["files"], "table": c["table"], "impl": ic})
    chk.cov["rule"] = ("dependency digraphs between references: all on 2 references, %s on 3 and 4 references (spread over one or two files), plus %d random structures on 2-10 references in "
                       "lists/scalars over 1-3 files with import cycles and never-resolving references; the scripted provider and the model's dep_ans answer from the same table; compared: "
                       "verdict, reported names, final contents, complete provider call log; non-trivial = at least one Postponed answer" % ("all/sampled" if chk.thorough else "150 sampled each", n))
    chk.assumptions += ["scripted provider as in C08; the readiness predicate is monotone by construction (dependency sets)"]
    decide(chk, failures, disagreements)
