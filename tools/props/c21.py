"""C21 - autokwd matches keyword-like literals only on word boundaries.

Pipeline: translator kw_tr (textx/lang.py -> Gen/SrcKw.v: detection pattern, `\\b` suffix, guard, full-span
test, ignore_case arguments) -> Props/C21.v (kw_like / kw_match over a word-character classification;
boundary theorem; non-keyword literals compile identically; related parser models parse alike; same model
when no keyword is glued to a word character) -> (a) kw_like / kw_match against Python's re and against the
terminals the real textX builds, exhaustively on small strings; (b) generated grammars mixing identifier-like
and symbol literals, each built by the real textX with autokwd off and on (tools/impl/c21.py), inputs with
and without word characters glued to keywords: Coq interpreter on both dumped parser models vs the real
parsers, compile_lit vs the dumped terminals, decidable instance of the hypotheses of C21_same_model ->
property oracle on the implementation -> decide.
"""
import itertools
import json
import os
import re

from vt import core
from vt.main import decide
from translate import kw_tr
import pegdump
from props import kw_common as K
from props import build_common as B
import mmdump

CORPUS_DIR = os.path.join(core.VERIF, "corpus", "C21")
ALPHA = ["a", "B", "1", "_", "-", " ", "é", "٣", "\n"]
KW_RE = re.compile(r"[^\d\W]\w*")


def py_kw_like(t, flags=0):
    m = re.compile(r"[^\d\W]\w*", flags).match(t)
    return bool(m and m.span() == (0, len(t)))


def py_glued(text, kws, icase):
    """Python mirror of no_glue_ok: occurrences of a keyword-like literal immediately followed by a word character"""
    out = []
    low = text.lower() if icase else text
    for k in kws:
        kk = k.lower() if icase else k
        p = low.find(kk)
        while p >= 0:
            e = p + len(k)
            if e < len(text) and K.is_word(text[e]):
                out.append((k, p))
            p = low.find(kk, p + 1)
    return out


def impl_oracle(chk, cinfo, text, ic, kws, p, k, failures, no_glue):
    """the part of the property oracle that needs only the implementation's own outcomes (works when the
    parser model cannot be dumped): (1) no terminal of a keyword-like literal in the autokwd parse is followed
    by a word character; (3) without a glued keyword model_from_str gives the same result."""
    for lit, pos, ch in (k.get("glued") or []):
        failures.append({"case": cinfo, "what": "autokwd: keyword %r matched at %d although the next character %r is a word character (model_from_str: %s)" % (
            lit, pos, ch, "accepted" if k["model"]["ok"] else k["model"]["err"]), "tags": [], "impl": k.get("tree")})
    if no_glue and p["model"] != k["model"]:
        tags, notes = [], []
        if ic and p["model"]["ok"] and k["model"]["ok"] and K.model_struct_equal(p["model"]["model"], k["model"]["model"], text, text, notes):
            tags = ["icase_keyword_spelling"]
        chk.stat("impl: autokwd changes the outcome without a glued keyword")
        failures.append({"case": cinfo, "what": "no keyword is followed by a word character, but model_from_str differs: plain %r, autokwd %r" % (
            json.dumps(p["model"])[:300], json.dumps(k["model"])[:300]), "tags": tags, "impl": [p.get("tree"), k.get("tree")]})


def corpus_cases():
    cases = []
    if os.path.isdir(CORPUS_DIR):
        for f in sorted(os.listdir(CORPUS_DIR)):
            if f.endswith(".json"):
                c = json.load(open(os.path.join(CORPUS_DIR, f)))
                c["tag"] = "corpus:" + f
                cases.append(c)
    return cases


# characters put right after a keyword: word characters of every kind (letter, digit, underscore, non-ASCII letter,
# non-ASCII digits / numerics) and look-alikes that are NOT word characters (combining mark, hyphen-like, NBSP)
GLUE_CHARS = ["a", "b", "x", "1", "9", "_", "_", "é", "\u00b2", "\u0660", "\u0301", "\u00a0", "\u2010", "\u00aa", "\u2160"]


def glue(r, text, lits):
    """put a word character right after (or before) an occurrence of a keyword-like literal"""
    occ = []
    for l in lits:
        for m in re.finditer(re.escape(l), text):
            occ.append((m.start(), m.end()))
    if not occ:
        return text
    a, b = r.choice(sorted(set(occ)))
    c = r.weighted([("ins", 5), ("del", 4), ("pre", 2), ("delpre", 3)])
    if c == "ins":
        return text[:b] + r.choice(GLUE_CHARS) + text[b:]
    if c == "pre":
        return text[:a] + r.choice("ax1_") + text[a:]
    if c == "delpre":      # keyword glued to what precedes it (there is no boundary requirement on that side)
        e = a
        while e > 0 and text[e - 1] in " \t\r\n":
            e -= 1
        return text[:e] + text[a:]
    e = b
    while e < len(text) and text[e] in " \t\r\n":
        e += 1
    return text[:b] + text[e:]


def gen_cases(chk, n, per):
    G = K.gen("c21")
    cases = corpus_cases()
    for i in range(n):
        r = chk.rng.split("g%d" % i)
        style = r.weighted([("plain", 5), ("ctx", 3)])
        feats = {"plain": dict(modifiers=False, eolterm=False, comment=r.chance(0.25)), "ctx": dict()}[style]
        g = G.gen_grammar(r, feats)
        opts = {}
        if r.chance(0.25):
            opts["ignore_case"] = True
        if r.chance(0.1):
            opts["skipws"] = False
        if r.chance(0.1):
            opts["ws"] = r.choice([" ", " \t", "\n "])
        if r.chance(0.15):
            opts["use_regexp_group"] = True
        kws = [l for l in K.LITS21 + K.SEPS21 if py_kw_like(l)]
        inputs = []
        for k in range(per):
            ri = r.split("i%d" % k)
            t = G.gen_input(ri, g, opts)
            if ri.chance(0.4):
                t = glue(ri, t, kws)
            if opts.get("ignore_case") and ri.chance(0.3):
                t = "".join(c.swapcase() if ri.chance(0.4) else c for c in t)
            inputs.append(t)
        cases.append({"grammar": G.grammar_text(g), "opts": opts, "inputs": inputs, "tag": style})
    return cases


# ---------------------------------------------------------------- (a) the two regexes against Python / textX
def small_strings(n):
    out = []
    for k in range(n + 1):
        for tup in itertools.product(ALPHA, repeat=k):
            out.append("".join(tup))
    return out


ENUM_DEFS = """
From Coq Require Import Ascii.
Definition W0 := wordc_of %s.
Definition D0 := digitc_of %s.
Fixpoint strings_len (al : list N) (n : nat) : list (list N) :=
  match n with 0 => [@nil N] | S n' => flat_map (fun c => map (fun s => c :: s) (strings_len al n')) al end.
Definition strings_upto (al : list N) (n : nat) : list (list N) := flat_map (strings_len al) (seq 0 (S n)).
Definition bits (l : list bool) : string := fold_right (fun (b : bool) acc => String (if b then "1"%%char else "0"%%char) acc) EmptyString l.
Definition AL : list N := %s.
"""


KWS = ["a", "aB", "_1", "é", "B_a"]
TIE_SAMPLE = None


def tie_sample():
    return [t for t in small_strings(2) if t] + ["ab1", "a-b", "_B_", "1ab", "éa1", "٣a", "a٣", "a b", "if", "B1-", "end\n", "ab\n\n", "\nab", "a$", "a\r", "a\t", "a\x0b", "a\u2028"]


def tie_exprs(chk):
    """Coq side of (a): one 'case' per enumeration, evaluated together with the grammar cases"""
    w, d, _ = K.class_extras(ALPHA)
    defs = ENUM_DEFS % (K.coq_codes(w), K.coq_codes(d), K.coq_codes(ALPHA))
    tn = 4 if chk.thorough else 3
    per_case = [([], ["bits (map (kw_like W0 D0) (strings_upto AL 3))"], [("tie", "kwlike")])]
    for ic in (False, True):
        for t in KWS:
            per_case.append(([], ["bits (flat_map (fun s => map (fun p => match kw_match W0 ascii_lower %s %s s p with Some _ => true | None => false end) (seq 0 5)) (strings_upto AL %d))"
                                  % ("true" if ic else "false", pegdump.coq_str(t), tn)], [("tie", "kwmatch", t, ic)]))
    sample = tie_sample()
    per_case.append(([], ["show_spec (compile_lit W0 D0 true false %s)" % pegdump.coq_str(t) for t in sample], [("tie", "spec", t) for t in sample]))
    return defs, per_case, tn


def tie_check(chk, mvals, tn, kwlike_out, failures, disagreements):
    lits = small_strings(3)
    texts = small_strings(tn)
    # kw_like against Python's re on the translated pattern
    py = "".join("1" if py_kw_like(t) else "0" for t in lits)
    chk.stat("kw_like vs re: literals", len(lits))
    v = mvals.get(("tie", "kwlike"))
    if v != py:
        bad = [lits[i] for i in range(min(len(py), len(v or ""))) if py[i] != v[i]][:5]
        disagreements.append({"case": {"literals": bad}, "impl": "re: [^\\d\\W]\\w* full match", "model": "kw_like differs" if v is not None else None})
    for t in lits:
        chk.count(("kwlike", t), nontrivial=True)
    # kw_match against Python's re on <t>\b  (ASCII lower is exact here: the cased letters of the alphabet are a / B / e-acute,
    # none of which has its partner in the alphabet)
    for ic in (False, True):
        for t in KWS:
            rx = re.compile(t + r"\b", re.MULTILINE | (re.IGNORECASE if ic else 0))
            py = "".join("1" if rx.match(s, p) else "0" for s in texts for p in range(5))
            v = mvals.get(("tie", "kwmatch", t, ic))
            if v != py:
                j = next((i for i in range(len(py)) if v is None or i >= len(v) or py[i] != v[i]), 0)
                disagreements.append({"case": {"literal": t, "ignore_case": ic, "text": texts[j // 5], "pos": j % 5},
                                      "impl": "re %r: %s" % (rx.pattern, py[j]), "model": "kw_match differs" if v is not None else None})
            chk.stat("kw_match vs re: (literal, text, position) triples", len(py))
    # compile_lit against the terminals the real textX builds for `Model: '<literal>';` with autokwd
    sample = tie_sample()
    for t, o in zip(sample, kwlike_out):
        chk.count(("compile", t), nontrivial=True)
        if "err" in o:
            chk.stat("compile_lit: literal not accepted by the grammar language")
            continue
        want = spec_of_node(o["kind"], o["text"], o["oracle"])
        sv = mvals.get(("tie", "spec", t))
        if want != sv:
            disagreements.append({"case": {"literal": t}, "impl": want, "model": sv})
        # property: keyword-like <-> regex terminal
        if (o["kind"] == "KRegex") != py_kw_like(t):
            failures.append({"case": {"literal": t, "opts": {"autokwd": True}}, "what": "literal %r: keyword-like=%s but textX builds %s" % (t, py_kw_like(t), o["kind"]), "tags": []})
    chk.stat("compile_lit vs textX: literals", len(sample))


def spec_of_node(kind, text, oracle):
    """what a dumped terminal looks like in the notation of show_spec"""
    if kind == "KStr":
        return "S|%s|%s" % (core.canon_text(text), "T" if oracle is not None else "F")
    return "R|%s|%s|%s" % (core.canon_text(oracle[1]), "T" if oracle[2] & re.IGNORECASE else "F", core.canon_text(text))


# ---------------------------------------------------------------- (b) grammars
STRUCT_KEYS = ("kind", "kids", "sep", "eolterm", "rule", "root", "suppress", "ws", "skipws")


def structure_diff(d0, d1):
    """nodes of the two dumps must be identical except StrMatch -> RegExMatch replacements"""
    if len(d0["nodes"]) != len(d1["nodes"]) or d0["top"] != d1["top"] or d0["comments"] != d1["comments"]:
        return "parser models have different shape"
    if (d0["skipws"], d0["ws"]) != (d1["skipws"], d1["ws"]):
        return "parser configurations differ"
    for nid, (a, b) in enumerate(zip(d0["nodes"], d1["nodes"])):
        for k in STRUCT_KEYS:
            if k == "kind" and a["kind"] == "KStr" and b["kind"] == "KRegex":
                continue
            if a[k] != b[k]:
                return "node %d differs in %s: %r vs %r" % (nid, k, a[k], b[k])
        if a["kind"] == b["kind"] and a["text"] != b["text"]:
            return "node %d differs in text" % nid
    return None


def run(chk):
    chk.prove([kw_tr.translate])
    disagreements, failures = [], []

    n, per = (600, 4) if chk.thorough else (85, 3)
    cases = gen_cases(chk, n, per)
    idx = [list(range(i, len(cases), core.NPROC)) for i in range(core.NPROC)]
    idx = [ix for ix in idx if ix]
    outs = core.run_impl_parallel("c21", [{"mode": "c21", "cases": [
        {"grammar": cases[i]["grammar"], "opts": cases[i]["opts"], "inputs": cases[i]["inputs"]} for i in ix]} for ix in idx]
        + [{"mode": "kwlike", "literals": tie_sample()}])
    kwlike_out = outs.pop()
    results = [None] * len(cases)
    for ix, o in zip(idx, outs):
        for i, x in zip(ix, o):
            results[i] = x

    per_case = []
    nbuild, build_budget = [0], (300 if chk.thorough else 50)
    for ci, (case, res) in enumerate(zip(cases, results)):
        d0, d1 = res.get("dump_plain"), res.get("dump_kw")
        if d0 is None:
            continue
        ic = bool(case["opts"].get("ignore_case"))
        w, dg, lo = K.class_extras(list(case["inputs"]) + K.literal_texts(d0))
        lets = [("g", pegdump.coq_grammar(d0)), ("k", pegdump.coq_grammar(d1)), ("c", pegdump.coq_config(d0)),
                ("W", "wordc_of %s" % K.coq_codes(w)), ("D", "digitc_of %s" % K.coq_codes(dg)), ("L", "lower_of %s" % K.coq_pairs(lo))]
        parts, keys = [], []
        have_mm = res.get("mm_plain") is not None and res.get("mm_kw") is not None
        if have_mm:
            lets += [("m0", mmdump.coq_mm(res["mm_plain"])), ("m1", mmdump.coq_mm(res["mm_kw"]))]
        for t in sorted({n_["text"] for n_ in d0["nodes"] if n_["kind"] == "KStr"}):
            for ak in (False, True):
                parts.append("show_spec (compile_lit W D %s %s %s)" % ("true" if ak else "false", "true" if ic else "false", pegdump.coq_str(t)))
                keys.append((ci, "lit", t, ak))
        for ii, (text, run_) in enumerate(zip(case["inputs"], res["runs"])):
            if run_.get("timeout") or run_.get("unsupported"):
                continue
            t0, t1 = pegdump.coq_table(run_["plain"]["table"]), pegdump.coq_table(run_["kw"]["table"])
            s = pegdump.coq_str(text)
            parts.append("show_bool (kw_case_ok W D L %s %s %s g k) ++ show_bool (no_glue_ok W D L %s g) ++ \"|\" ++ "
                         "show_outcome g (run g c (orc_of %s) false %d %s) ++ \"|\" ++ show_outcome k (run k c (orc_of %s) false %d %s)" % (
                             s, t0, t1, s, t0, K.FUEL, s, t1, K.FUEL, s))
            keys.append((ci, "run", ii, None))
            # model level, on a sample: parse + Model/Build.v on both tables
            if have_mm and run_["plain"]["tree"].startswith("P:") and nbuild[0] < build_budget and (case.get("tag", "").startswith("corpus") or (ci + ii) % 2 == 0):
                nbuild[0] += 1
                parts.append(K.build_part("g", "c", "m0", run_["plain"], res, text))
                keys.append((ci, "b0", ii, None))
                parts.append(K.build_part("k", "c", "m1", run_["kw"], res, text))
                keys.append((ci, "b1", ii, None))
        if parts:
            per_case.append((lets, parts, keys))
    tdefs, tcases, tn = tie_exprs(chk)
    mvals, errs = K.eval_cases("C21", tcases + per_case, defs=tdefs)
    if errs:
        disagreements.append({"case": "coq evaluation", "model": errs[:2]})
        chk.notes.append("coq evaluation errors: " + " || ".join(e[-600:] for e in errs[:3]))
    tie_check(chk, mvals, tn, kwlike_out, failures, disagreements)

    nrun = 0
    for ci, (case, res) in enumerate(zip(cases, results)):
        if res["grammar_error"]:
            chk.stat("grammar rejected: " + res["grammar_error"].split(":")[0])
            continue
        d0, d1 = res["dump_plain"], res["dump_kw"]
        ic = bool(case["opts"].get("ignore_case"))
        ginfo = {"grammar": case["grammar"], "opts": case["opts"], "tag": case.get("tag")}
        kws = res.get("keywords", [])
        if d0 is None:
            # no dump: the tie to the model is lost for this grammar, the implementation is still observed
            if "parsing expression of type" in (res.get("dump_error") or ""):
                disagreements.append({"case": ginfo, "impl": res["dump_error"], "model": "the parser model contains a node class the model does not know"})
            else:
                chk.stat("grammar outside the dumped fragment: " + (res.get("dump_error") or "?")[:60])
            for text, run_ in zip(case["inputs"], res["runs"]):
                if run_.get("timeout") or run_.get("unsupported"):
                    continue
                chk.count(json.dumps([case["grammar"], case["opts"], text]), nontrivial=run_["kw"]["model"]["ok"] or run_["plain"]["model"]["ok"])
                impl_oracle(chk, dict(ginfo, input=text), text, ic, kws, run_["plain"], run_["kw"], failures, not py_glued(text, kws, ic))
            continue
        # ---- property (2): nothing but keyword-like literals changes
        sd = structure_diff(d0, d1)
        if sd:
            failures.append({"case": ginfo, "what": "autokwd changes the parser model beyond keyword-like literals: " + sd, "tags": []})
            continue
        # the metamodel tables model construction reads must be the same for both settings
        if res.get("mm_plain") is not None and res.get("mm_kw") is not None and res["mm_plain"] != res["mm_kw"]:
            failures.append({"case": ginfo, "what": "autokwd changes what model construction reads off the metamodel (classes / attributes / terminals)", "tags": []})
        kwnodes = set()
        for nid, (a, b) in enumerate(zip(d0["nodes"], d1["nodes"])):
            if a["kind"] != "KStr" or d0["builtin"][nid]:
                continue
            t = a["text"]
            for ak, dd, nn in ((False, d0, a), (True, d1, b)):
                want = spec_of_node(nn["kind"], nn["text"], dd["oracles"][nn["oid"]] if nn["oid"] is not None else None)
                sv = mvals.get((ci, "lit", t, ak))
                if sv != want:
                    disagreements.append({"case": dict(ginfo, literal=t, autokwd=ak), "impl": want, "model": sv})
            if b["kind"] == "KRegex":
                kwnodes.add(nid)
            chk.stat("literal terminals: %s" % ("keyword regex" if b["kind"] == "KRegex" else "StrMatch in both"))
            if (b["kind"] == "KRegex") != py_kw_like(t):
                failures.append({"case": dict(ginfo, literal=t), "what": "literal %r: keyword-like=%s but the autokwd parser model has %s" % (t, py_kw_like(t), b["kind"]), "tags": []})
        for ii, (text, run_) in enumerate(zip(case["inputs"], res["runs"])):
            if run_.get("timeout") or run_.get("unsupported"):
                chk.stat("input skipped (timeout/unsupported)")
                continue
            nrun += 1
            cinfo = dict(ginfo, input=text)
            p, k = run_["plain"], run_["kw"]
            mv = mvals.get((ci, "run", ii, None))
            flags, _, rest = (mv or "??|").partition("|")
            mo0, _, mo1 = rest.partition("|")
            chk.stat("inputs: plain %s / autokwd %s" % (p["tree"][:1], k["tree"][:1]))
            if mv is None or not (K.model_equiv_impl(mo0, p["tree"]) and K.model_equiv_impl(mo1, k["tree"])):
                disagreements.append({"case": cinfo, "impl": [p["tree"], k["tree"]], "model": mv})
                continue
            for tt, mm in ((p["tree"], p["model"]), (k["tree"], k["model"])):
                if tt.startswith("P:") and not mm["ok"] and mm["err"] == "syntax":
                    disagreements.append({"case": cinfo, "impl": [tt, mm], "model": "textX-level syntax error but Arpeggio-level accept"})
                if tt.startswith("E:") and (mm["ok"] or mm["err"] != "syntax" or "E:%s" % mm["pos"] != tt):
                    disagreements.append({"case": cinfo, "impl": [tt, mm], "model": "textX-level outcome differs from Arpeggio-level error"})
            tables_ok, no_glue = flags[0] == "T", flags[1] == "T"
            if not tables_ok:
                # the keyword regex of the real parser does not answer like kw_match (or the tables are not related)
                disagreements.append({"case": cinfo, "impl": {"plain": p["table"], "kw": k["table"]}, "model": "kw_case_ok = F (hypothesis of C21_same_model about the terminals)"})
            nontrivial = k["tree"].startswith("P:") or p["tree"].startswith("P:") or not no_glue
            chk.count(json.dumps([case["grammar"], case["opts"], text]), nontrivial=nontrivial)
            # ---- the Python view of "no glued keyword" must agree with the Coq one
            if (not py_glued(text, kws, ic)) != no_glue:
                disagreements.append({"case": cinfo, "impl": {"glued (python)": py_glued(text, kws, ic)[:3]}, "model": "no_glue_ok = %s" % no_glue})
            # ---- property (1): a keyword match is never followed by a word character
            if k["tree"].startswith("P:"):
                for nid, pos, ln in K.terminals(k["tree"]):
                    if nid in kwnodes and pos + ln < len(text) and K.is_word(text[pos + ln]) and not k.get("glued"):
                        failures.append({"case": cinfo, "what": "autokwd: keyword %r matched at %d although the next character %r is a word character" % (
                            d0["nodes"][nid]["text"], pos, text[pos + ln]), "tags": [], "impl": k["tree"]})
            # ---- property (3): same model when no keyword is glued
            if no_glue:
                chk.stat("no glued keyword: same outcome required")
                if tables_ok and K.strip_sup(mo0) != K.strip_sup(mo1):
                    disagreements.append({"case": cinfo, "impl": None, "model": [mo0, mo1], "what": "theorem instance contradicted by evaluation"})
                if K.strip_sup(p["tree"]) != K.strip_sup(k["tree"]):
                    chk.stat("impl: autokwd changes the outcome without a glued keyword")
                    failures.append({"case": cinfo, "what": "no keyword is followed by a word character, but the parse differs: plain %s, autokwd %s" % (
                        p["tree"][:160], k["tree"][:160]), "tags": [], "impl": [p["tree"], k["tree"]], "model": mv})
            else:
                chk.stat("glued keyword: %s" % ("outcomes differ" if K.strip_sup(p["tree"]) != K.strip_sup(k["tree"]) else "outcomes equal"))
            impl_oracle(chk, cinfo, text, ic, kws, p, k, failures, no_glue and K.strip_sup(p["tree"]) == K.strip_sup(k["tree"]))
            # ---- model level (sample): Coq Build on both tables vs the implementation, and vs each other
            b0, b1 = mvals.get((ci, "b0", ii, None)), mvals.get((ci, "b1", ii, None))
            if b0 is not None and b1 is not None:
                o0, o1 = B.model_outcome(b0), B.model_outcome(b1)
                if any(o.get("err") == "unsup" or str(o.get("err", "")).startswith("eval:") for o in (o0, o1)):
                    chk.stat("model level: outside the fragment of Model/Build.v")
                else:
                    chk.stat("model level: inputs built in Coq on both tables")
                    if res.get("use_grp"):
                        chk.stat("model level: ... of which with use_regexp_group")
                    for oo, rr, nm_ in ((o0, p, "plain"), (o1, k, "autokwd")):
                        if not B.outcomes_agree(oo, rr["model01"]):
                            disagreements.append({"case": cinfo, "impl": rr["model01"], "model": oo, "what": "Model/Build.v vs model_from_str (%s)" % nm_})
                    if no_glue and tables_ok:
                        # C21_same_model_objects instance: identical object graphs (up to case under ignore_case)
                        same = (o0["ok"] and o1["ok"] and K.shape_rel(o0["value"], o1["value"], not ic)) or (not o0["ok"] and o0 == o1)
                        if not same:
                            disagreements.append({"case": cinfo, "impl": None, "model": [o0, o1], "what": "C21_same_model_objects instance contradicted by evaluation"})
                        i0, i1 = p["model01"], k["model01"]
                        same_i = (i0["ok"] and i1["ok"] and K.shape_rel(B.strip_impl(i0["value"]), B.strip_impl(i1["value"]), not ic)) or (not i0["ok"] and i0.get("err") == i1.get("err"))
                        if not same_i:
                            failures.append({"case": cinfo, "what": "no keyword is glued, but the object graphs differ (positions / locations / values)", "tags": [], "impl": [i0, i1]})
            if nrun % 60 == 7:
                chk.sample({"grammar": case["grammar"], "opts": case["opts"], "input": text, "plain": p["tree"][:100], "autokwd": k["tree"][:100], "no_glue": no_glue})
    chk.cov["rule"] = ("(a) all literals over {a,B,1,_,-,space,e-acute,arabic-indic digit,newline} up to length 3: kw_like vs Python re on the translated pattern; "
                       "kw_match vs re `<t>\\b` for 5 keyword literals x all texts up to length 4 x positions 0..4 x ignore_case off/on; compile_lit vs the terminal "
                       "the real textX builds for `Model: '<t>';` with autokwd. (b) generated textX grammars (2-6 rules; sequences, choices, repetitions with "
                       "keyword/symbol separators, predicates, assignments, base types, user regexes incl. one ending in \\b; literal pool mixing identifier-like "
                       "(a if kw k2 _b b_ in e-acute+1 n-tilde) and other literals (symbols, `a-b`, `1a`, `a.`, `x y`, digit-first with a non-ASCII digit)), each built by the "
                       "real textX with autokwd off and on (25%% with ignore_case, skipws/ws options) x inputs derived from the grammar, 40%% with a word character "
                       "inserted after / before a keyword occurrence or the whitespace after it deleted; both parsed by the real parsers and by the Coq interpreter on "
                       "both dumped parser models; non-trivial = accepted by either parser or containing a glued keyword; distinct by (grammar, options, input)")
    chk.assumptions += ["tools/pegdump.py dumps the live Arpeggio parser models faithfully (fail closed on unknown node types)",
                        "\\w / \\d classification and lower-casing of non-ASCII characters are taken from Python (re, str.lower) per case; ASCII is modelled in Coq",
                        "the keyword regex `<literal>\\b` of the real parser answers like kw_match: checked at every position of every generated input (kw_case_ok) and "
                        "exhaustively on small texts; regex terminals other than the keyword regex are oracles",
                        "Arpeggio (RegExMatch/StrMatch._parse, the interpreter) is modelled, validated by this correspondence, not verified",
                        "model equality at textX level is compared on the implementation, not derived in Coq"]
    decide(chk, failures, disagreements)
