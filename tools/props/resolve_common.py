"""Shared case generation / model encoding for C08 and C09 (reference resolution rounds)."""
import json
from vt import core

IMPORTS = """From TxV Require Import Core.Base Core.Show Model.Resolve.
Open Scope string_scope.
Definition mk (i s : nat) (m : bool) (p t : nat) (d : list nat) (n : bool) : xref :=
  {| xid := i; xslot := s; xmany := m; xpos := p; xtgt := t; xdeps := d; xnever := n |}.
Definition delay_of (tbl : list (nat * nat)) (i : nat) : nat :=
  match find (fun kv => Nat.eqb (fst kv) i) tbl with Some kv => snd kv | None => 0 end.
Definition show_slot (st : state) (sm : nat * bool) : string :=
  if snd sm then show_list (fun pt => show_nat (snd pt)) (lists st (fst sm))
  else show_opt show_nat (singles st (fst sm)).
Definition show_out (slots : list (nat * bool)) (o : outcome) : string :=
  match o with
  | Ok st => "ok|" ++ sjoin ";" (map (show_slot st) slots) ++ "|" ++ show_list show_nat (rev (log st))
  | Unresolvable lf st => "unresolvable|" ++ show_list show_nat (map xid (List.concat lf)) ++ "|" ++ show_list show_nat (rev (log st))
  | UnknownObject => "unknown"
  | OutOfFuel => "outoffuel"
  end.
"""


def add_anchors(case, k):
    """Append k scalar references to main.c8 forming a reverse dependency chain (the last one
    resolves in round 1, the one before it in round 2, ...), so that k rounds make progress."""
    if k <= 0:
        return case
    base = case["nrefs"]
    ids = list(range(base, base + k))
    pos0 = 1 + max([l["pos"] for l in case["layout"].values() if l["file"] == "main.c8"] + [-1])
    slot0 = 1 + max([s for s, _, _ in case["slots"]] + [-1])
    nh = sum(1 for ln in case["files"]["main.c8"].split("\n") if ln.startswith("holder"))
    line = "holder anch"
    for j, i in enumerate(ids):
        case["table"][str(i)] = {"delay": 0, "deps": [i + 1] if j + 1 < k else [], "never": False, "tgt": i}
        case["layout"][str(i)] = {"file": "main.c8", "slot": slot0 + j, "many": False, "pos": pos0 + j}
        case["slots"].append((slot0 + j, False, "main.c8/anch/%d" % j))
        line += " single r%d" % i
    items = "".join("item t%d\n" % i for i in ids)
    case["files"]["main.c8"] = case["files"]["main.c8"].replace("item tx\n", "item tx\n" + items, 1) + line + "\n"
    case["nrefs"] = base + k
    return case


def build_case(r, nrefs, nfiles, mode):
    """A case = files with holders/parts/references + a provider table.
    mode: 'schedule' (delays only, C08) or 'deps' (dependency structure, C09) or 'mixed'."""
    refs = list(range(nrefs))
    files = ["main.c8"] + ["f%d.c8" % k for k in range(1, nfiles)]
    # assign refs to files, then to parts
    per_file = {f: [] for f in files}
    for i in refs:
        per_file[r.choice(files)].append(i)
    table, layout = {}, {}
    slot = 0
    slots = []          # (slot id, many, key)
    texts = {}
    for fi, f in enumerate(files):
        lines = []
        if f == "main.c8":
            for g in files[1:]:
                lines.append('import "%s"' % g)
        elif r.chance(0.3) and fi + 1 < len(files):
            lines.append('import "%s"' % files[fi + 1])
        elif r.chance(0.15):
            lines.append('import "main.c8"')      # import cycle
        mine = per_file[f]
        for i in mine:
            lines.append("item t%d" % i)
        lines.append("item tx")
        # group refs into parts: many-lists of 1..4 refs or singles
        pos = 0
        idx = 0
        hol = 0
        parts = []
        while idx < len(mine):
            if r.chance(0.75):
                k = min(len(mine) - idx, r.range(1, 4))
                parts.append((True, mine[idx:idx + k]))
                idx += k
            else:
                parts.append((False, mine[idx:idx + 1]))
                idx += 1
        # distribute parts over holders
        h = []
        cur = []
        for p in parts:
            cur.append(p)
            if r.chance(0.5):
                h.append(cur)
                cur = []
        if cur:
            h.append(cur)
        for hi, hp in enumerate(h):
            line = "holder h%d" % hi
            for pi, (many, ids) in enumerate(hp):
                key = "%s/h%d/%d" % (f, hi, pi)
                slots.append((slot, many, key))
                for i in ids:
                    layout[i] = {"file": f, "slot": slot, "many": many, "pos": pos}
                    pos += 1
                line += (" many " + ", ".join("r%d" % i for i in ids)) if many else (" single r%d" % ids[0])
                slot += 1
            lines.append(line)
        texts[f] = "\n".join(lines) + "\n"
    for i in refs:
        t = {"delay": 0, "deps": [], "never": False, "tgt": i}
        if mode in ("schedule", "mixed"):
            t["delay"] = r.weighted([(0, 5), (1, 3), (2, 2), (3, 1)])
        if mode in ("deps", "mixed"):
            k = r.weighted([(0, 4), (1, 4), (2, 2)])
            t["deps"] = sorted(set(r.choice(refs) for _ in range(k)))
            t["never"] = r.chance(0.06)
        table[str(i)] = t
    return {"files": texts, "main": "main.c8", "table": table, "layout": {str(k): v for k, v in layout.items()},
            "slots": slots, "file_order": files, "nrefs": nrefs}


def corpus_cases(pid):
    """minimised regression cases of corpus/<pid> (full case dictionaries), run before the generated ones"""
    import os
    d = os.path.join(core.VERIF, "corpus", pid)
    out = []
    for f in sorted(os.listdir(d)) if os.path.isdir(d) else []:
        if f.endswith(".json"):
            c = json.load(open(os.path.join(d, f)))
            if "layout" not in c:
                continue
            c["slots"] = [tuple(x) for x in c["slots"]]
            c["kind"] = "corpus"
            if c.get("query"):
                set_query(c)
            out.append(c)
    return out


def file_order_from_log(case, log):
    """Order in which the resolver visits the models, read off the first provider calls."""
    order = []
    for rid in log:
        f = case["layout"][str(rid)]["file"]
        if f not in order:
            order.append(f)
    for f in case["file_order"]:
        if f not in order:
            order.append(f)
    return order


def coq_expr(case, order):
    models = []
    for f in order:
        xs = sorted([int(i) for i, l in case["layout"].items() if l["file"] == f], key=lambda i: case["layout"][str(i)]["pos"])
        models.append(core.coq_list(["mk %d %d %s %d %d %s %s" % (
            i, case["layout"][str(i)]["slot"], core.coq_bool(case["layout"][str(i)]["many"]), case["layout"][str(i)]["pos"],
            case["table"][str(i)]["tgt"], core.coq_list([str(d) for d in case["table"][str(i)]["deps"]]) + "%nat" if case["table"][str(i)]["deps"] else "[]",
            core.coq_bool(case["table"][str(i)]["never"])) for i in xs]))
    delays = core.coq_list(["(%d, %d)" % (int(i), t["delay"]) for i, t in case["table"].items() if t["delay"]])
    slots = core.coq_list(["(%d, %s)" % (s, core.coq_bool(m)) for s, m, _ in case["slots"]])
    if case.get("where"):
        return "show_out %s (qload (snap_ans (delay_of %s)) %s)" % (slots, delays, core.coq_list(models))
    return "show_out %s (load (table_ans (delay_of %s)) %s)" % (slots, delays, core.coq_list(models))


def set_query(case):
    """Switch a case to query mode: the provider asks needs_to_be_resolved(object, attribute) for every awaited
    reference.  That question is per (object, attribute), so waiting for one element of a list means waiting for
    the whole list: the table's deps are closed under 'same slot'."""
    by_slot = {}
    for i, l in case["layout"].items():
        by_slot.setdefault(l["slot"], []).append(int(i))
    for i, t in case["table"].items():
        deps = set()
        for d in t["deps"]:
            deps.update(by_slot[case["layout"][str(d)]["slot"]])
        t["deps"] = sorted(deps)
    keys = {s: (key, many) for s, many, key in case["slots"]}
    where = {}
    for i, l in case["layout"].items():
        key, many = keys[l["slot"]]
        fn, hname, pi = key.split("/")
        where[i] = [fn, hname, int(pi), "many" if many else "single"]
    case["where"] = where
    return case


def impl_canon(case, o):
    log = "[" + ",".join(str(x) for x in o["log"]) + "]"
    if o["outcome"] == "ok":
        parts = []
        for s, many, key in case["slots"]:
            v = o["slots"].get(key)
            if many:
                parts.append("[" + ",".join(x[1:] for x in (v or [])) + "]")
            else:
                parts.append("None" if v is None else v[1:])
        return "ok|" + ";".join(parts) + "|" + log
    if o["outcome"] == "unresolvable":
        return "unresolvable|[" + ",".join(n[1:] for n in o["names"]) + "]|" + log
    return o["outcome"]


def lfp(case):
    done = set()
    changed = True
    while changed:
        changed = False
        for i, t in case["table"].items():
            i = int(i)
            if i not in done and not t["never"] and all(d in done for d in t["deps"]):
                done.add(i)
                changed = True
    return done


def run_cases(chk, cases):
    chunks = [cases[i::core.NPROC] for i in range(core.NPROC)]
    chunks = [c for c in chunks if c]
    outs = core.run_impl_parallel("c08", [{"cases": [{"files": c["files"], "main": c["main"], "table": c["table"], "where": c.get("where")} for c in ch]} for ch in chunks])
    impl = {}
    for ch, o in zip(chunks, outs):
        for c, x in zip(ch, o):
            impl[id(c)] = x
    exprs = [coq_expr(c, file_order_from_log(c, impl[id(c)]["log"])) for c in cases]
    vals, errs = core.coq_eval(chk.pid, IMPORTS, exprs)
    return impl, vals, errs
