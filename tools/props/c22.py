"""C22 - whitespace and comments between tokens do not change the model.

Pipeline: Props/C22.v (skip absorption, invariance of the interpreter Model/Peg.v under insertion of
active-set whitespace for the class ins_wf and the per-case shifted-oracle hypothesis shift_okb,
"only the active set is skipped", refuted witnesses outside the class)
-> generated grammars (with/without Comment rule, rule modifiers noskipws/skipws/ws, eolterm, global
skipws/ws) x accepted inputs x insertions (every active-set character, a mixed run, Comment texts) at the
token boundaries of the accepting parse where skipping is active
-> tools/impl/c22.py on $TEXTX_REPO (real parser: parse tree, textX model without positions; terminal
log giving the whitespace mode per token) and the Coq interpreter on the dumped parser model for the
original and the mutated input (correspondence), with ins_wf / shift_okb evaluated in Coq per case
-> property oracles on the implementation: (1) mutated input accepted with the same model and the same
tree up to the position shift; (2) the gap before every token consists of characters of the DECLARED
active set (rule modifiers in force by dynamic scoping, from the grammar text) and Comment matches,
and the parser's mode at every token is the declared one; (3) declared modifiers are present on the
rule's node of the live parser model -> decide.
"""
import json
import re

from vt import core
from vt.main import decide
import peggen
import pegdump
import mmdump
from props import build_common as bc      # read-only: evaluation of Build.v's symbolic values, comparison with the runner's dump

IMPORTS = ("From TxV Require Import Core.Base Core.Show Model.PegSyntax Model.Peg Model.PegShow Model.PegWsDefs.\n"
           "Open Scope string_scope.")
DEFS = """
Definition c22_case (g : grammar) (c : config) (tbl tbl' : list ((nat * nat) * nat)) (fuel : nat)
           (a w1 cc w2 b : list N) : string :=
  let ins := (w1 ++ cc ++ w2)%list in
  show_outcome g (run g c (orc_of tbl) false fuel (a ++ b)%list) ++ " | " ++
  show_outcome g (run g c (orc_of tbl') false fuel (a ++ ins ++ b)%list) ++ " | " ++
  show_bool (ins_wf g c ins) ++
  show_bool (shift_okb g (a ++ b)%list (orc_of tbl) (a ++ ins ++ b)%list (orc_of tbl') (List.length a) (List.length ins)) ++
  show_bool (cmt_wf g c) ++
  show_bool (cmt_ins_okb g c (orc_of tbl') a w1 cc w2) ++
  show_bool (top_eof g).
"""
FUEL = 120
BUILD_IMPORTS = ("From TxV Require Import Core.Base Core.Show Model.PegSyntax Model.Peg Model.PegShow Model.Build Model.PegWsDefs "
                 "Model.BuildShiftDefs.\nOpen Scope string_scope.")
BUILD_DEFS = """
Definition c22_build (g : grammar) (c : config) (mm : list ninfo) (tbl tbl' : list ((nat * nat) * nat)) (fuel : nat)
           (a ins b : list N) : string :=
  show_build g c mm tbl [] true false fuel (a ++ b)%list ++ "@@" ++
  show_build g c mm tbl' [] true false fuel (a ++ ins ++ b)%list ++ "@@" ++
  match run g c (orc_of tbl) false fuel (a ++ b)%list with
  | Parsed r => show_bool (fits_res (List.length a) r)
  | _ => "-"
  end ++ show_bool (no_empty_lit g).
"""
BUILD_SAMPLE = 140
DEFAULT_WS = "\t\n\r "

POS_RE = re.compile(r"@(\d+)\+")


def shift_tree_str(tree, k, n):
    """Mirror of PegWsDefs.shift_res on canonical tree strings."""
    return POS_RE.sub(lambda m: "@%d+" % (int(m.group(1)) if int(m.group(1)) < k else int(m.group(1)) + n), tree)


# ---------------------------------------------------------------- classifiers (mirrors of the Coq classes)
def ins_wf(dump, ins):
    """Mirror of PegWsDefs.ins_wf (cross-checked against the Coq value on every case)."""
    if not dump["skipws"] or any(c not in dump["ws"] for c in ins):
        return False
    for nd in dump["nodes"]:
        if nd["skipws"] is False:
            return False
        if nd["ws"] is not None and any(c not in nd["ws"] for c in ins):
            return False
        if nd["eolterm"] and any(c in "\n\r" for c in ins):
            return False
    return True


def _tmatch(nd, text, tbl, p):
    k = nd["kind"]
    if k == "KStr":
        if nd["oid"] is None:
            return len(nd["text"]) if text[p:p + len(nd["text"])] == nd["text"] else None
        return len(nd["text"]) if (nd["oid"], p) in tbl else None
    if k == "KRegex":
        return tbl.get((nd["oid"], p))
    if k == "KEOF":
        return 0 if len(text) == p else None
    return None


def shift_ok(dump, text, table, text2, table2, k, n):
    """Mirror of PegWsDefs.shift_okb (cross-checked against the Coq value on every whitespace case)."""
    t1 = {(o, p): ln for o, p, ln in table}
    t2 = {(o, p): ln for o, p, ln in table2}
    for nd in dump["nodes"]:
        if nd["kind"] not in ("KStr", "KRegex", "KEOF"):
            continue
        for p in range(len(text) + 1):
            b = _tmatch(nd, text, t1, p)
            a = _tmatch(nd, text2, t2, p if p < k else p + n)
            if a != b:
                return False
            if b is not None and not (p + b <= len(text) and (p >= k or p + b <= k)):
                return False
    return True


def tiled(dump, text, table):
    """Mirror of PegGap.covered 0 |text|: the text is a concatenation of characters of the grammar's whitespace
    sets and of matches of its terminals."""
    tbl = {(o, p): ln for o, p, ln in table}
    W = set(dump["ws"])
    for nd in dump["nodes"]:
        if nd["ws"] is not None:
            W |= set(nd["ws"])
    terms = [nd for nd in dump["nodes"] if nd["kind"] in ("KStr", "KRegex", "KEOF")]
    reach = [False] * (len(text) + 1)
    reach[0] = True
    for p in range(len(text)):
        if not reach[p]:
            continue
        if text[p] in W:
            reach[p + 1] = True
        for nd in terms:
            ln = _tmatch(nd, text, tbl, p)
            if ln and p + ln <= len(text):
                reach[p + ln] = True
    return reach[len(text)]


def ctx_constant(dump):
    """Mirror of PegProofs.ctx_constant (C19's class): no node changes the mode, Comment rule absent or one terminal."""
    cm = dump["comments"]
    if cm is not None and dump["nodes"][cm]["kind"] not in ("KStr", "KRegex", "KEOF"):
        return False
    return all(nd["ws"] is None and nd["skipws"] is None and not nd["eolterm"] for nd in dump["nodes"])


def mode_constant(dump):
    return dump["skipws"] and all(nd["ws"] is None and nd["skipws"] is None and not nd["eolterm"] for nd in dump["nodes"])


# ---------------------------------------------------------------- cases
CORPUS = [
    {"grammar": "Model: a=A;\nA[noskipws]: 'a'+;\n", "opts": {}, "rules": {"A": {"skipws": False}}, "comment": None,
     "inputs": ["aa", "a a", " aa", "a"], "tag": "corpus-noskipws-repetition"},
    {"grammar": "Model: a=A 'c';\nA[ws=' ']: ('a' 'b')*;\n", "opts": {}, "rules": {"A": {"ws": " "}}, "comment": None,
     "inputs": ["a b a b c", "a b a\nb c", "ab\nc", "a b\tc"], "tag": "corpus-ws-repetition"},
    {"grammar": "Model: a=A 'c';\nA[noskipws]: 'a'? ;\n", "opts": {}, "rules": {"A": {"skipws": False}}, "comment": None,
     "inputs": ["a c", "ac", " a c"], "tag": "corpus-noskipws-optional"},
    {"grammar": "Model: a=FLOAT b=ID | a=INT '.5' b=ID;\n", "opts": {}, "rules": {}, "comment": None,
     "inputs": ["1.5x", "1.5 x", "1 .5 x"], "tag": "corpus-adjacency"},
    {"grammar": "Model: !A 'a' 'b';\nA[noskipws]: 'a' ' ' ' ';\n", "opts": {}, "rules": {"A": {"skipws": False}}, "comment": None,
     "inputs": ["a b", "ab"], "tag": "corpus-mixed"},
    {"grammar": "Model: a=A;\nA[noskipws]: 'a' 'b';\nComment: /\\/\\*(.|\\n)*?\\*\\//;\n", "opts": {}, "rules": {"A": {"skipws": False}},
     "comment": "block", "inputs": ["ab", "a/*c*/b", "/*c*/ab"], "tag": "corpus-comment-noskipws"},
    {"grammar": "Model: 'a' b=B c=ID;\nB[ws=' ']: 'x' 'y'+;\nComment: /\\/\\/.*?$/ | /\\/\\*(.|\\n)*?\\*\\//;\n", "opts": {},
     "rules": {"B": {"ws": " "}}, "comment": "both", "inputs": ["a x y y\n // c\n foo", "a x y foo"], "tag": "corpus-cpos-modes"},
    {"grammar": "Model: a=A 'c';\nA[noskipws]: 'a' b=B;\nB[skipws, ws=' ']: 'x' 'y';\n", "opts": {}, "comment": None,
     "rules": {"A": {"skipws": False}, "B": {"skipws": True, "ws": " "}}, "inputs": ["a x  y c", "ax y\nc", "a x\ty c"], "tag": "corpus-two-params"},
    {"grammar": "Model: a=A 'c';\nA[noskipws]: 'a' b=B;\nB[ws=' ', skipws]: 'x' 'y';\n", "opts": {}, "comment": None,
     "rules": {"A": {"skipws": False}, "B": {"skipws": True, "ws": " "}}, "inputs": ["a x  y c", "ax y\nc"], "tag": "corpus-two-params-2"},
    {"grammar": "Model: ('a' x+=X ';')*[eolterm] 'z';\nX: 'x' ys*=ID[',' eolterm];\n", "opts": {}, "rules": {}, "comment": None,
     "eol": {"Model": 1, "X": 1}, "inputs": ["a x y, z ; a x ;\nz", "a x y ;\n z", "a x\n; z", "z"], "tag": "corpus-eolterm"},
    {"grammar": "Model: ('a' X)*[eolterm] 'z';\nX[ws=' ']: 'x';\n", "opts": {}, "rules": {"X": {"ws": " "}}, "comment": None,
     "eol": {"Model": 1, "X": 0}, "inputs": ["a x z", "a x\nz", "a x a x z"], "tag": "corpus-eolterm-ws-leak"},
    {"grammar": "Model: 'h' s=Stmt 'body' ls+=Line;\nLine[ws=' \\t']: Stmt;\nStmt: 'set' name=ID '=' v=INT ';';\n", "opts": {},
     "rules": {"Line": {"ws": " \t"}}, "comment": None, "eol": {"Model": 0, "Line": 0, "Stmt": 0},
     "inputs": ["h set a = 1 ; body set b = 2 ; set c = 3 ;", "h set a\n= 1 ;\nbody set b = 2 ;", "h set a = 1 ; body set b\n= 2 ;"],
     "tag": "corpus-alias-modifier"},
    {"grammar": "Model: p=Pair t=Tight;\nTight[noskipws]: Pair;\nPair: '<' a=ID ':' b=ID '>';\n", "opts": {},
     "rules": {"Tight": {"skipws": False}}, "comment": None, "eol": {"Model": 0, "Tight": 0, "Pair": 0},
     "inputs": ["< a : b > <c:d>", "<a:b><c:d>", "< a : b > < c : d >"], "tag": "corpus-alias-noskipws"},
    {"grammar": "Model: xs+=X[','] ';' ys*=ID;\nX: 'x' | INT;\nComment: /\\/\\/.*?$/;\n", "opts": {}, "rules": {}, "comment": "line",
     "inputs": ["x, 1 ,x; a b", "x;", "x ,\n1;// c\n a"], "tag": "corpus-plain-comment"},
]


def gen_cases(chk, n, per):
    cases = [dict(c) for c in CORPUS]
    for i in range(n):
        r = chk.rng.split("g%d" % i)
        style = r.weighted([("plain", 3), ("modes", 4), ("wsonly", 2), ("plaincmt", 2)])
        feats = {"plain": dict(modifiers=False, eolterm=False, comment=True),
                 "plaincmt": dict(modifiers=False, eolterm=False, comment=False),
                 "modes": dict(),
                 "wsonly": dict(modifiers=True, eolterm=True, comment=True)}[style]
        g = peggen.gen_grammar(r, feats)
        if style == "plaincmt":
            # the class of the Comment-insertion theorem: one-regex Comment rule, no mode change
            g = {"rules": g["rules"], "comment": r.choice(["line", "hash"])}
        if style == "wsonly":
            # modes that keep skipping on: only ws= modifiers (the class of the theorem beyond the default mode)
            rules = []
            for name, params, body in g["rules"]:
                if params.get("skipws") is False:
                    params = {"ws": r.choice([" ", " \t", " \n"])}
                elif "ws" in params and params["ws"] == "":
                    params = dict(params, ws=" ")
                rules.append((name, params, body))
            g = {"rules": rules, "comment": g["comment"]}
        opts = {}
        if r.chance(0.08):
            opts["skipws"] = False
        if r.chance(0.15):
            opts["ws"] = r.choice([" ", " \t", "\n ", " \t\n"])
        inputs = []
        for k in range(per):
            inputs.append(peggen.gen_input(r.split("i%d" % k), g, opts))
        cases.append({"grammar": peggen.grammar_text(g), "opts": opts, "inputs": sorted(set(inputs)), "tag": style,
                      "rules": {nm: pr for nm, pr, _ in g["rules"] if pr}, "comment": g["comment"],
                      "eol": {nm: eol_count(body) for nm, _, body in g["rules"]}})
    return cases


def eol_count(e):
    """number of eolterm modifiers in a peggen AST expression"""
    k = e[0]
    if k in ("seq", "alt"):
        return sum(eol_count(x) for x in e[1])
    if k == "rep":
        return (1 if e[4] else 0) + eol_count(e[2])
    if k == "pred":
        return eol_count(e[2])
    if k == "sup":
        return eol_count(e[1])
    if k == "asg":
        return 1 if e[5] else 0
    return 0


def eol_tie(case, dump):
    """Oracle (3) for eolterm: per rule, the number of eolterm modifiers in the grammar text equals the number
    of eolterm repetitions among the parser-model nodes of that rule."""
    if "eol" not in case:
        return []
    names = set(case["eol"])
    nodes = dump["nodes"]
    got = {}
    for i, nd in enumerate(nodes):
        if not (nd["root"] and nd["rule"] in names):
            continue
        seen, todo, cnt = set(), [i], 0
        while todo:
            j = todo.pop()
            if j in seen:
                continue
            seen.add(j)
            n = nodes[j]
            if j != i and n["root"] and n["rule"] in names:
                continue
            if n["eolterm"]:
                cnt += 1
            todo += n["kids"] + ([n["sep"]] if n["sep"] is not None else [])
        got[nd["rule"]] = got.get(nd["rule"], 0) + cnt
    return ["rule %s has %d eolterm modifier(s) in the grammar but %d eolterm repetition(s) in the parser model" % (nm, case["eol"][nm], c)
            for nm, c in sorted(got.items()) if c != case["eol"][nm]]


def declared_mode(case, chain):
    skip = case["opts"].get("skipws", True)
    ws = case["opts"].get("ws", DEFAULT_WS)
    for name in chain:
        p = case["rules"].get(name)
        if p:
            if "ws" in p:
                ws = p["ws"]
            if "skipws" in p:
                skip = p["skipws"]
    return skip, ws


def gap_oracle(case, run, dump):
    """Oracle for the second half of the property on one accepted input. Returns list of (what, tags)."""
    bad = []
    text = run["text"]
    spans = run.get("comments") or []
    for t in run["tokens"]:
        if t["ambiguous"]:
            continue
        skip, ws = declared_mode(case, t["chain"])
        g0, g1 = t["gap_start"], t["pos"]
        gap_chars, in_comment = [], False
        for i in range(g0, g1):
            if any(a <= i < b for a, b in spans):
                in_comment = True
            else:
                gap_chars.append(text[i])
        active = ws if skip else ""
        extra = [c for c in gap_chars if c not in active]
        if extra:
            bad.append(("characters %r outside the declared active set %r (skipws=%s) were skipped before the token at %d (rule chain %s)"
                        % ("".join(extra), ws, skip, t["pos"], "/".join(t["chain"])),
                        # Arpeggio's comment_positions cache ignores the mode: a comment end recorded under another
                        # rule's whitespace set is reused here (known finding, only with comments AND mode changes)
                        ["mixed_ws_modes"] if in_comment and not mode_constant(dump) else []))
        elif in_comment and not skip:
            bad.append(("a comment was skipped before the token at %d although skipping is switched off there (rule chain %s)"
                        % (t["pos"], "/".join(t["chain"])), ["comment_under_noskipws"]))
        if True:
            a_skip, a_ws = t["skipws"], t["ws"]
            may_strip = "eol" not in case or any(case["eol"].get(nm, 0) for nm in t["chain"])
            ok = a_skip == skip and set(a_ws) <= set(ws) and (set(ws) - set(a_ws)) <= (set("\n\r") if may_strip else set())
            if not ok:
                # Arpeggio restores a rule-level ws from the EFFECTIVE set: a rule with a ws modifier used inside an
                # eolterm repetition leaves the line ends stripped for the rest of the parse (known finding)
                leak = (a_skip == skip and set(a_ws) <= set(ws) and (set(ws) - set(a_ws)) <= set("\n\r")
                        and any(nd["eolterm"] for nd in dump["nodes"]) and any(nd["ws"] is not None for nd in dump["nodes"]))
                bad.append(("the parser's whitespace mode at the token at %d is skipws=%s ws=%r, the grammar declares skipws=%s ws=%r (rule chain %s)"
                            % (t["pos"], a_skip, a_ws, skip, ws, "/".join(t["chain"])), ["eolterm_ws_leak"] if leak else []))
    return bad


def _same_ws(a, b):
    return (a is None) == (b is None) and (a is None or set(a) == set(b))


def static_tie(case, dump):
    """Declared rule modifiers must sit on a node of the live parser model that honours them."""
    bad = []
    for name, params in case["rules"].items():
        nodes = [nd for nd in dump["nodes"] if nd["rule"] == name and nd["root"]]
        if not nodes:
            continue        # rule unreachable from the root
        ok = any(nd["kind"] in ("KSeq", "KChoice") and _same_ws(nd["ws"], params.get("ws")) and nd["skipws"] == params.get("skipws")
                 for nd in nodes)
        if not ok:
            bad.append("rule %s declares %s but its parser-model node is %s" % (
                name, params, [(nd["kind"], nd["ws"], nd["skipws"]) for nd in nodes]))
    return bad


def model_equiv_impl(m, t):
    if m == t:
        return True
    if m.startswith("A:0") and t == "X:RecursionError":
        return True
    if m.startswith("A:1") and t.startswith("X:") and t != "X:RecursionError":
        return True
    return False


def run(chk):
    chk.prove([])
    n, per, mx = (420, 6, 8) if chk.thorough else (75, 6, 6)
    cases = gen_cases(chk, n, per)
    idx = [list(range(i, len(cases), core.NPROC)) for i in range(core.NPROC)]
    idx = [ix for ix in idx if ix]
    payloads = [{"cases": [{"grammar": cases[i]["grammar"], "opts": cases[i]["opts"], "inputs": cases[i]["inputs"],
                            "comment": cases[i]["comment"], "max_mut": mx, "pick": chk.rng.split("pick%d" % i).below(1 << 30)}
                           for i in ix]} for ix in idx]
    outs = core.run_impl_parallel("c22", payloads)
    results = [None] * len(cases)
    for ix, o in zip(idx, outs):
        for i, x in zip(ix, o):
            results[i] = x
    # ---- Coq side: one expression per mutated input
    defs, exprs, index = [DEFS], [], []
    for ci, res in enumerate(results):
        if res.get("dump") is None:
            continue
        d = res["dump"]
        used = False
        for ri, run_ in enumerate(res["runs"]):
            for mi, m in enumerate(run_.get("muts", [])):
                if m.get("timeout") or m.get("unsupported"):
                    continue
                text, k, ins = run_["text"], m["k"], m["ins"]
                w1, cc, w2 = m["parts"]
                assert w1 + cc + w2 == ins
                exprs.append("c22_case g%d c%d %s %s %d %s %s %s %s %s" % (
                    ci, ci, pegdump.coq_table(run_["table"]), pegdump.coq_table(m["table"]), FUEL,
                    pegdump.coq_str(text[:k]), pegdump.coq_str(w1), pegdump.coq_str(cc), pegdump.coq_str(w2),
                    pegdump.coq_str(text[k:])))
                index.append((ci, ri, mi))
                used = True
        if used:
            defs.append("Definition g%d : grammar := %s.\nDefinition c%d : config := %s." % (
                ci, pegdump.coq_grammar(d), ci, pegdump.coq_config(d)))
    vals, errs = core.coq_eval("C22", IMPORTS, exprs, defs="\n".join(defs), shard=120)
    disagreements, failures, static_failures, build_sample = [], [], [], []
    if errs:
        disagreements.append({"case": "coq evaluation", "model": errs[:2]})
    mvals = dict(zip(index, vals))
    # ---- per case
    for ci, (case, res) in enumerate(zip(cases, results)):
        if res["grammar_error"]:
            chk.stat("grammar rejected: " + res["grammar_error"].split(":")[0])
            continue
        d = res["dump"]
        chk.stat("grammars: %s" % ("mode-constant" if mode_constant(d) else "with mode changes"))
        ginfo = {"grammar": case["grammar"], "opts": case["opts"], "tag": case.get("tag")}
        for what in static_tie(case, d) + eol_tie(case, d):
            static_failures.append({"case": ginfo, "what": what, "tags": []})
        for ri, run_ in enumerate(res["runs"]):
            if run_.get("timeout") or run_.get("unsupported"):
                chk.stat("input skipped (timeout/unsupported)")
                continue
            text, t0, m0 = run_["text"], run_["tree"], run_["model"]
            accepted = t0.startswith("P:")
            chk.stat("original input: %s" % ("accepted" if accepted else "rejected"))
            # glue: textX level agrees with Arpeggio level on acceptance
            if accepted and not m0["ok"] and m0["err"] == "syntax" or (t0.startswith("E:") and m0["ok"]):
                disagreements.append({"case": dict(ginfo, input=text), "impl": [t0, m0], "model": "textX-level and Arpeggio-level acceptance differ"})
            if not accepted:
                chk.count(json.dumps([case["grammar"], case["opts"], text]), nontrivial=False)
                continue
            # ---- oracle (2): only the declared active set (and comments) is skipped
            # ---- oracle (4), the conclusion of C22_accepted_is_tiled on the implementation
            if d["comments"] is None and not tiled(d, text, run_["table"]):
                failures.append({"case": dict(ginfo, input=text), "tags": [], "impl": t0,
                                 "what": "accepted input is not a concatenation of whitespace-set characters and terminal matches"})
            elif d["comments"] is None:
                chk.stat("theorem C22_accepted_is_tiled applies (no Comment rule)")
            for what, tags in gap_oracle(case, run_, d):
                failures.append({"case": dict(ginfo, input=text), "what": what, "tags": tags, "impl": t0})
            if not run_.get("muts"):
                chk.count(json.dumps([case["grammar"], case["opts"], text]), nontrivial=True)
            for mi, m in enumerate(run_.get("muts", [])):
                if m.get("timeout") or m.get("unsupported"):
                    chk.stat("mutation skipped (timeout/unsupported)")
                    continue
                k, ins, kind = m["k"], m["ins"], m["kind"]
                n_ins = len(ins)
                t1, m1 = m["tree"], m["model"]
                chk.count(json.dumps([case["grammar"], case["opts"], text, k, ins]), nontrivial=True)
                chk.stat("insertion: %s%s" % (kind, " (empty gap)" if m["gap_empty"] else ""))
                cinfo = dict(ginfo, input=text, k=k, ins=ins, mutated=m["text"], kind=kind, gap_empty=m["gap_empty"], at_edge=m["at_edge"])
                # ---- correspondence
                mv = mvals.get((ci, ri, mi))
                wf = sok = None
                thm_applies = False
                py_sok = shift_ok(d, text, run_["table"], m["text"], m["table"], k, n_ins)
                if mv is None:
                    disagreements.append({"case": cinfo, "impl": [t0, t1], "model": None})
                else:
                    parts = mv.split(" | ")
                    mo, mm_, flags = parts[0], parts[1], parts[2]
                    wf, sok = flags[0] == "T", flags[1] == "T"
                    cwf, cok = flags[2] == "T", flags[3] == "T"
                    if flags[4] != "T":
                        disagreements.append({"case": cinfo, "impl": "textX wraps the root rule in Sequence(rule, EOF)", "model": "top_eof = false"})
                    if not (model_equiv_impl(mo, t0) and model_equiv_impl(mm_, t1)):
                        disagreements.append({"case": cinfo, "impl": [t0, t1], "model": [mo, mm_]})
                    if kind == "ws" and wf != ins_wf(d, ins):
                        disagreements.append({"case": cinfo, "impl": "python ins_wf=%s" % ins_wf(d, ins), "model": "Coq ins_wf=%s" % wf})
                    if sok != py_sok:
                        disagreements.append({"case": cinfo, "impl": "python shift_ok=%s" % py_sok, "model": "Coq shift_okb=%s" % sok})
                    if wf and sok:
                        thm_applies = True
                        chk.stat("theorem C22_invariant applies (ins_wf and shifted oracle hold)")
                        # the theorem's conclusion, checked on the model outcomes too
                        if not (mo.startswith("P:") and mm_ == shift_tree_str(mo, k, n_ins)):
                            disagreements.append({"case": cinfo, "impl": "theorem conclusion", "model": [mo, mm_]})
                    elif kind == "comment" and cwf and cok and sok and not (mo.startswith("A:") or mm_.startswith("A:")):
                        chk.stat("theorem C22_comment_invariant applies (cmt_wf, exact Comment match, shifted oracle)")
                        if not (mo.startswith("P:") and mm_ == shift_tree_str(mo, k, n_ins)):
                            disagreements.append({"case": cinfo, "impl": "comment theorem conclusion", "model": [mo, mm_]})
                        thm_applies = True
                    elif kind == "comment":
                        chk.stat("comment insertion outside the theorem: %s" % (
                            "cmt_wf fails" if not cwf else ("not an exact Comment match" if not cok else "shifted oracle fails")))
                    elif wf:
                        chk.stat("ins_wf holds, shifted oracle fails")
                    else:
                        chk.stat("outside ins_wf")
                if t1.startswith("P:") and not m1["ok"] and m1["err"] == "syntax" or (t1.startswith("E:") and m1["ok"]):
                    disagreements.append({"case": cinfo, "impl": [t1, m1], "model": "textX-level and Arpeggio-level acceptance differ"})
                if thm_applies and res.get("mm") is not None and not (set(case["opts"]) & {"auto_init_attributes", "use_regexp_group"}):
                    build_sample.append((ci, ri, mi))
                # ---- memoization on (C22_invariant_memo_partial): same statement with the packrat cache
                if kind == "ws" and thm_applies and ctx_constant(d) and not t0.startswith("X:"):
                    chk.stat("theorem C22_invariant_memo applies (ctx_constant)")
                    if m.get("tree_on") != shift_tree_str(run_.get("tree_on", ""), k, n_ins):
                        failures.append({"case": cinfo, "tags": [], "impl": [run_.get("tree_on"), m.get("tree_on")],
                                         "what": "with memoization=True the insertion changes the outcome"})
                # ---- oracle (1): same acceptance, same model, same tree up to the shift
                bad = None
                if not t1.startswith("P:"):
                    bad = "accepted input is rejected after the insertion: %s" % t1[:80]
                elif t1 != shift_tree_str(t0, k, n_ins):
                    bad = "parse tree changed (beyond positions): %s -> %s" % (t0[:150], t1[:150])
                elif m0 != m1:
                    bad = "model changed: %r -> %r" % (m0, m1)
                if bad:
                    chk.stat("impl: insertion changes the outcome")
                    tags = []
                    if thm_applies:
                        pass
                    elif kind == "ws":
                        if not ins_wf(d, ins):
                            tags.append("mixed_ws_modes")
                        elif not py_sok and m["at_edge"]:
                            tags.append("adjacency_retokenised")
                    else:
                        if not mode_constant(d):
                            tags.append("mixed_ws_modes")
                        elif not py_sok and m["at_edge"]:
                            tags.append("adjacency_retokenised")
                    failures.append({"case": cinfo, "what": bad, "tags": tags, "impl": [t0, t1], "model": mv})
                if chk.cov["evaluations"] % 170 == 11:
                    chk.sample({"grammar": case["grammar"], "input": text, "k": k, "ins": ins, "before": t0[:100], "after": t1[:100]})
    chk.cov["rule"] = ("generated textX grammars (2-6 rules; sequences, ordered choice, ? * + # with separators and eolterm, predicates, suppression, "
                       "assignments, base types, regex terminals incl. whitespace-consuming ones, rule modifiers noskipws/skipws/ws, optional Comment "
                       "rule (line / line+block / hash / sharing a rule with the grammar), metamodel options skipws/ws) x inputs derived from the grammar "
                       "x for every accepted input: insertions at the token boundaries of the accepting parse where skipping is active (left edge, "
                       "right edge, middle of the gap; every character of the active set, a mixed run, Comment texts with and without surrounding "
                       "whitespace), sampled per input; each original and mutated input parsed by the real parser (tree + textX model) and by the Coq "
                       "interpreter on the dumped parser model; non-trivial = an insertion into an accepted input (or an accepted input checked by the "
                       "gap oracle); distinct by (grammar, options, input, site, inserted text)")
    chk.assumptions += ["tools/pegdump.py dumps the live Arpeggio parser model faithfully (fail closed on unknown node types)",
                        "regex terminals: matched lengths supplied by Python's re for the concrete original and mutated input (oracle tables); the shifted-oracle "
                        "hypothesis of the theorem is evaluated in Coq on these tables for every case; theorems hold for every oracle",
                        "Arpeggio (dependency) is modelled (Model/Peg.v), validated by this correspondence and C19's, not verified",
                        "theorem C22_invariant_partial covers whitespace insertion with memoization off; Comment-text insertion and memoization on are "
                        "covered by correspondence and oracle only",
                        "the whitespace mode per token is observed by wrapping arpeggio.Match.parse inside the runner process"]
    # ---- the MODEL: Build.v on both parse results (Coq) vs the implementation's two model dumps, on a sample
    #      of the cases in which an invariance theorem applies (C22_model_unchanged_partial / _comment_)
    step = max(1, len(build_sample) // BUILD_SAMPLE)
    sample = build_sample[::step][:BUILD_SAMPLE]
    bdefs, bexprs, used = [BUILD_DEFS], [], set()
    for ci, ri, mi in sample:
        res = results[ci]
        run_, m = res["runs"][ri], res["runs"][ri]["muts"][mi]
        text, k, ins = run_["text"], m["k"], m["ins"]
        if ci not in used:
            used.add(ci)
            bdefs.append("Definition g%d : grammar := %s.\nDefinition c%d : config := %s.\nDefinition m%d : list ninfo := %s." % (
                ci, pegdump.coq_grammar(res["dump"]), ci, pegdump.coq_config(res["dump"]), ci, mmdump.coq_mm(res["mm"])))
        bexprs.append("c22_build g%d c%d m%d %s %s %d %s %s %s" % (
            ci, ci, ci, pegdump.coq_table(run_["table"]), pegdump.coq_table(m["table"]), FUEL,
            pegdump.coq_str(text[:k]), pegdump.coq_str(ins), pegdump.coq_str(text[k:])))
    bvals, berrs = core.coq_eval("C22b", BUILD_IMPORTS, bexprs, defs="\n".join(bdefs), shard=40) if bexprs else ([], [])
    if berrs:
        disagreements.append({"case": "coq evaluation (Build)", "model": berrs[:2]})

    def _nopos(v):
        if isinstance(v, dict):
            if "cls" in v:
                return {"cls": v["cls"], "attrs": [[a, _nopos(x)] for a, x in v["attrs"]]}
            if "l" in v:
                return {"l": [_nopos(x) for x in v["l"]]}
            if "ref" in v:          # pending reference of Build.v: name and class, not its position
                return {"ref": _nopos(v["ref"]), "refcls": v.get("refcls")}
            if "refto" in v:        # resolved reference of the implementation: target name and class
                return {"refto": {"name": v["refto"].get("name"), "cls": v["refto"].get("cls")}}
        return v

    for (ci, ri, mi), bv in zip(sample, bvals):
        res = results[ci]
        run_, m = res["runs"][ri], res["runs"][ri]["muts"][mi]
        cinfo = {"grammar": cases[ci]["grammar"], "opts": cases[ci]["opts"], "input": run_["text"], "k": m["k"], "ins": m["ins"]}
        if bv is None:
            disagreements.append({"case": cinfo, "impl": "Build sample", "model": None})
            continue
        p0, p1, fl = bv.split("@@")
        o0, o1 = bc.model_outcome(p0), bc.model_outcome(p1)
        if (not o0["ok"] and o0.get("err") == "unsup") or (not o1["ok"] and o1.get("err") == "unsup"):
            chk.stat("model sample: outside Build.v (references)")
            continue
        chk.stat("model sample: Build on both results vs the two implementation models")
        if not bc.outcomes_agree(o0, run_["full"]):
            disagreements.append({"case": cinfo, "impl": run_["full"], "model": ["Build(original)", o0]})
        if not bc.outcomes_agree(o1, m["full"]):
            disagreements.append({"case": dict(cinfo, mutated=m["text"]), "impl": m["full"], "model": ["Build(mutated)", o1]})
        fl, nel = fl[:-1], fl[-1] == "T"
        if nel and 0 < m["k"] < len(run_["text"]):
            # C22_fits_of_run: for an interior insertion the tree condition follows from grammar + oracle
            chk.stat("theorem C22_model_unchanged applies (table hypotheses: no '' literal, interior insertion)")
            if fl != "T":
                disagreements.append({"case": cinfo, "impl": "C22_fits_of_run", "model": "fits_res = %s" % fl})
        if fl == "T":
            chk.stat("theorem C22_model_unchanged_partial applies (fits)")
            same = (o0["ok"] == o1["ok"]) and (_nopos(o0.get("value")) == _nopos(o1.get("value")) if o0["ok"] else o0.get("err") == o1.get("err"))
            if not same:
                disagreements.append({"case": cinfo, "impl": "model theorem conclusion", "model": [o0, o1]})
            # the same statement on the implementation's two models
            i0, i1 = run_["full"], m["full"]
            if i0["ok"] != i1["ok"] or (i0["ok"] and _nopos(bc.strip_impl(i0["value"])) != _nopos(bc.strip_impl(i1["value"]))):
                failures.append({"case": dict(cinfo, mutated=m["text"]), "tags": [], "impl": [i0, i1],
                                 "what": "the model (object graph without positions) changed after the insertion"})
        else:
            chk.stat("model sample: tree condition fits fails")
    # behavioural failures (with a concrete failing input) first, then the static ones
    failures.sort(key=lambda f: 0 if "outside the declared active set" in f["what"] or "insertion" in f["what"] or "changed" in f["what"] else 1)
    decide(chk, failures + static_failures, disagreements)


def replay(rep):
    case = rep.get("case") or {}
    if "grammar" not in case:
        print(json.dumps(rep, indent=1))
        return 0
    payload = {"cases": [{"grammar": case["grammar"], "opts": case.get("opts", {}), "inputs": [case.get("input", "")],
                          "comment": None, "max_mut": 0, "pick": 1,
                          "explicit": [[case.get("input", ""), case["k"], case["ins"]]] if "k" in case else []}]}
    out = core.run_impl("c22", payload)[0]
    print("grammar:\n" + case["grammar"])
    print("what:", rep.get("what"))
    for r in out["runs"]:
        print("input %r -> %s %s" % (r["text"], r.get("tree"), r.get("model")))
        for m in r.get("muts", []):
            print("  insert %r at %d: %r -> %s %s" % (m["ins"], m["k"], m["text"], m.get("tree"), m.get("model")))
    return 1
