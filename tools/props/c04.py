"""C04 — built-in base types convert text to values faithfully.

prove:   Props/C04.v against Gen/SrcRegex.v (regex literals of lang.py through re._parser) and
         Gen/SrcBaseConv.v (default processors of metamodel.py).
tie:     (a) engine: Model/Rx.v against Python `re` (the compiled regex objects of textx.lang and
             extra patterns) on exhaustive small strings + random strings, at every position;
         (b) whole path: metamodel_from_str('Model: v*=T;').model_from_str(text).v against
             BaseTypes.load_many on the same texts.
oracle:  the property itself on the implementation: values written by the harness come back equal.
"""
import json
import re
import struct

from vt import core
from vt.main import decide
from translate import regex_tr, basetype_tr

BS = "\\"
ALPHA_S = ["a", " ", '"', "'", BS, "\n"]
ALPHA_N = ["1", "0", ".", "e", "-", "+", "a"]
ALPHA_B = ["t", "r", "u", "e", "1", "0", " ", "_"]
UNI = ["é", "ß", "Ω", "٣", "५", "\u00a0", "\u2028", "中", "\U0001d7d9", "ı", "K", "\u0300", "²"]
TYPES = ["INT", "FLOAT", "STRICTFLOAT", "NUMBER", "BOOL", "STRING"]
BT = {"ID": "TID", "BOOL": "TBOOL", "INT": "TINT", "FLOAT": "TFLOAT", "STRICTFLOAT": "TSTRICTFLOAT",
      "STRING": "TSTRING", "NUMBER": "TNUMBER", "BASETYPE": "TBASETYPE"}
BOOLS = [("True", True), ("true", True), ("False", False), ("false", False), ("0", False), ("1", True)]

# extra patterns that exercise the engine beyond the base types: (pattern, flags)
EXTRA = [
    (r"a*?b", 0), (r"(a|ab)(c|bcd)(d*)", 0), (r"a{2,3}?a", 0), (r"(?:ab){1,2}b?", 0), (r"x*(?<!a)b", 0),
    (r"^a+$", re.M), (r"^a+$", 0), (r"a.c", 0), (r"a.c", re.S), (r"\Ba\B", 0), (r"[a-c\s]+\b", 0),
    (r"(?=ab)a|b+", 0), (r"[^\S\n]+", 0), (r"(a+)+b", 0), (r"(?<=ab)c|.b", 0), (r"True|[b-d]+", re.I),
    (r"[^a]b", re.I), (r"ab\b", re.I), (r"Ab1\b", 0), (r"(?:ab|C)+\b.", re.I), (r"\d+\s\w", 0), (r"(\d*)?x", 0), (r"(a?){2}b", 0), (r".*?$", re.M), (r"(.|\n)*?b", 0),
]
ALPHA_X = ["a", "b", "c", "d", "\n", " "]


def all_strings(alpha, maxlen):
    out = [""]
    layer = [""]
    for _ in range(maxlen):
        layer = [s + c for s in layer for c in alpha]
        out += layer
    return out


def cstr(s):
    """Coq term (list N) for a text, through a string literal (much faster to parse than a list of numerals)"""
    return '(ps "%s")' % core.canon_text(s)


def quote(q, s):
    return q + s.replace(q, BS + q) + q


def uncanon(t):
    return re.sub(r"\\(\d+);", lambda m: chr(int(m.group(1))), t)


# ------------------------------------------------------------------ generators
def rand_text(r, alpha, n):
    return "".join(r.choice(alpha) for _ in range(n))


def gen_string(r):
    k = r.weighted([(0, 1), (1, 2), (2, 3), (3, 3), (5, 3), (8, 3), (14, 2), (30, 1)])
    pool = r.weighted([(ALPHA_S, 5), (ALPHA_S + ["b", "x", "/", "*", "1", "\t"], 2), (ALPHA_S + UNI, 2)])
    return rand_text(r, pool, k)


def gen_int(r):
    nd = r.weighted([(1, 3), (2, 3), (3, 2), (6, 2), (12, 2), (19, 1), (20, 1), (40, 1)])
    n = int("".join(str(r.below(10)) for _ in range(nd)))
    if r.chance(0.4):
        n = -n
    form = r.weighted([("str", 6), ("plus", 2), ("zeros", 1)])
    if form == "plus" and n >= 0:
        t = "+" + str(n)
    elif form == "zeros":
        t = ("-" if n < 0 else "") + "0" * r.range(1, 3) + str(abs(n))
    else:
        t = str(n)
    return t, n


SPECIAL_F = [0.0, -0.0, 1.0, 0.5, 1e22, 1e16, 1e21, 5e-324, 1.7976931348623157e308, 2.2250738585072014e-308,
             123456789.125, 1e-7, 0.1, 1 / 3.0, 1e5, 100.0]


def gen_float(r):
    kind = r.weighted([("dec", 4), ("bits", 3), ("special", 2), ("intlike", 1)])
    if kind == "dec":
        x = r.below(10 ** r.range(1, 9)) / float(10 ** r.range(0, 6))
    elif kind == "bits":
        while True:
            x = struct.unpack(">d", r._bytes(8))[0]
            if x == x and x not in (float("inf"), float("-inf")):
                break
    elif kind == "special":
        x = r.choice(SPECIAL_F)
    else:
        x = float(r.below(100000))
    if r.chance(0.3):
        x = -x
    form = r.weighted([("repr", 5), ("e", 2), ("E", 1), ("f", 1), ("g", 1), ("g17", 1), ("plus", 1), ("dot", 1), ("nolead", 1), ("eint", 1)])
    if form == "repr":
        t = repr(x)
    elif form == "e":
        t = "%e" % x
    elif form == "E":
        t = "%.3E" % x
    elif form == "f":
        t = "%.4f" % x if abs(x) < 1e15 else repr(x)
    elif form == "g":
        t = "%g" % x
    elif form == "g17":
        t = "%.17g" % x
    elif form == "plus":
        t = repr(x) if x < 0 or str(x)[0] == "-" else "+" + repr(x)
    elif form == "dot":
        t = repr(x)
        t = t[:-1] if t.endswith(".0") else t          # '5.'
    elif form == "nolead":
        t = repr(x)
        t = t.replace("0.", ".", 1) if (t.startswith("0.") or t.startswith("-0.")) else t     # '.5', '-.5'
    else:
        m = r.range(1, 999)
        t = "%d%s%s%d" % (m, r.choice("eE"), r.choice(["", "+", "-"]), r.range(0, 30))
    if not ("." in t or "e" in t or "E" in t):
        t = t + ".0"
    return t, float(t)


def seps(r, n, allow_empty=False):
    pool = [" ", " ", " ", "  ", "\n", "\t", " \n "] + ([""] if allow_empty else [])
    return [r.choice(pool) for _ in range(n)]


def join(r, lits, allow_empty=False):
    sp = seps(r, len(lits) + 1, allow_empty)
    lead = r.choice(["", "", " ", "\n"])
    tail = r.choice(["", "", " ", "\n"])
    out = lead
    for i, l in enumerate(lits):
        out += l + (sp[i] if i + 1 < len(lits) else "")
    return out + tail


def exp_val(v):
    if isinstance(v, bool):
        return ["b", v]
    if isinstance(v, int):
        return ["i", str(v)]
    if isinstance(v, float):
        return ["f", v.hex()]
    return ["s", v]


def mk(typ, text, expect, kind, nontrivial=True):
    return {"type": typ, "text": text, "expect": None if expect is None else [exp_val(v) for v in expect], "kind": kind, "nt": nontrivial}


def string_nontrivial(ss):
    return len(ss) > 1 or any(c in s for s in ss for c in ('"', "'", BS))


def corpus_cases():
    import os
    path = os.path.join(core.VERIF, "corpus", "C04", "cases.json")
    out = []
    for c in json.load(open(path)):
        out.append({"type": c["type"], "text": c["text"], "expect": c.get("expect"), "kind": "corpus", "nt": True})
    return out


def gen_load_cases(chk):
    cases = corpus_cases()      # corpus first
    r0 = chk.rng.split("load")
    # --- STRING, exhaustive: every s over ALPHA_S up to L, both quote characters, alone; and followed by another string on the same line
    L = 5 if chk.thorough else 3
    small = all_strings(ALPHA_S, L)
    if not chk.thorough:      # a deterministic sample of the longer ones
        rs = r0.split("exh-sample")
        small += [rand_text(rs.split(i), ALPHA_S, 4 + i % 3) for i in range(400)]
    followers = ["x", "a" + BS, '"', "'", BS + '"']
    for i, s in enumerate(small):
        for q in ('"', "'"):
            ok = not s.endswith(BS)
            cases.append(mk("STRING", quote(q, s), [s] if ok else None, "string-exh", string_nontrivial([s])))
            if len(s) <= (4 if chk.thorough else 2) or (not chk.thorough and i % 4 == 0):
                f = followers[(i + (q == "'")) % len(followers)]
                q2 = '"' if (i // 2) % 2 else "'"
                ok2 = ok and not f.endswith(BS)
                cases.append(mk("STRING", quote(q, s) + " " + quote(q2, f), [s, f] if ok2 else None, "string-exh-follow"))
    # --- STRING, random longer / unicode, sequences on one line
    n = 1500 if chk.thorough else 260
    for i in range(n):
        r = r0.split("s%d" % i)
        k = r.weighted([(1, 3), (2, 3), (3, 2), (5, 1)])
        ss = [gen_string(r) for _ in range(k)]
        qs = [r.choice(['"', "'"]) for _ in range(k)]
        ok = all(not s.endswith(BS) for s in ss)
        lits = [quote(q, s) for q, s in zip(qs, ss)]
        sameline = r.chance(0.6)
        text = " ".join(lits) if sameline else join(r, lits, allow_empty=True)
        cases.append(mk("STRING", text, ss if ok else None, "string-rand", string_nontrivial(ss)))
    # --- malformed / raw STRING texts (error paths, backtracking)
    raw = all_strings(ALPHA_S, 4 if chk.thorough else 3)
    for s in raw:
        cases.append(mk("STRING", s, None, "string-raw"))
    for i in range(600 if chk.thorough else 120):
        r = r0.split("sr%d" % i)
        cases.append(mk("STRING", rand_text(r, ALPHA_S + ["b"], r.range(4, 12)), None, "string-raw"))
    # --- ints
    n = 2500 if chk.thorough else 260
    for i in range(n):
        r = r0.split("i%d" % i)
        k = r.weighted([(1, 4), (2, 2), (4, 1)])
        items = [gen_int(r) for _ in range(k)]
        typ = r.choice(["INT", "NUMBER"])
        cases.append(mk(typ, join(r, [t for t, _ in items]), [v for _, v in items], "int"))
    # --- floats
    n = 4000 if chk.thorough else 420
    for i in range(n):
        r = r0.split("f%d" % i)
        k = r.weighted([(1, 4), (2, 2), (4, 1)])
        items = [gen_float(r) for _ in range(k)]
        typ = r.choice(["FLOAT", "STRICTFLOAT", "NUMBER"])
        cases.append(mk(typ, join(r, [t for t, _ in items]), [v for _, v in items], "float"))
    # --- NUMBER: mixed ints and floats (the choice must not split a literal)
    n = 1500 if chk.thorough else 160
    for i in range(n):
        r = r0.split("n%d" % i)
        items = [gen_int(r) if r.chance(0.5) else gen_float(r) for _ in range(r.range(1, 4))]
        cases.append(mk("NUMBER", join(r, [t for t, _ in items]), [v for _, v in items], "number-mixed"))
    # --- BOOL: every spelling alone, every ordered pair, random sequences
    for t, v in BOOLS:
        cases.append(mk("BOOL", t, [v], "bool"))
        for t2, v2 in BOOLS:
            cases.append(mk("BOOL", t + " " + t2, [v, v2], "bool"))
    for i in range(200 if chk.thorough else 40):
        r = r0.split("b%d" % i)
        items = [r.choice(BOOLS) for _ in range(r.range(1, 5))]
        cases.append(mk("BOOL", join(r, [t for t, _ in items]), [v for _, v in items], "bool"))
    # --- malformed numeric / bool texts for every type
    rawn = all_strings(ALPHA_N, 4 if chk.thorough else 3)
    for j, s in enumerate(rawn):
        for typ in ("INT", "FLOAT", "STRICTFLOAT", "NUMBER"):
            if chk.thorough or (j + len(typ)) % 4 == 0:
                cases.append(mk(typ, s, None, "num-raw"))
    for i in range(1500 if chk.thorough else 200):
        r = r0.split("nr%d" % i)
        typ = r.choice(["INT", "FLOAT", "STRICTFLOAT", "NUMBER", "BOOL"])
        alpha = ALPHA_B + ["T", "F", "a", "l", "s"] if typ == "BOOL" else ALPHA_N + [" ", "E", "5", "٣"]
        cases.append(mk(typ, rand_text(r, alpha, r.range(2, 10)), None, "num-raw"))
    return cases


def enum_strings(alpha, n):
    """all strings of length exactly n, in the order of Coq's strs_of_len (new character in front)"""
    layer = [""]
    for _ in range(n):
        layer = [c + s for s in layer for c in alpha]
    return layer


def group_strings(g):
    return enum_strings(g["alpha"], g["n"]) if g["kind"] == "enum" else g["strings"]


ALT_COMBOS = [["FLOAT", "ID"], ["STRICTFLOAT", "ID"], ["NUMBER", "ID"]]
ALPHA_A = ["1", ".", "e", "x", "-", " "]
JUNK = ["x", "e", ".method", ".5", "e5e", "_", ".", "..", "E", "e+", "e-x", ".e1", "f", "_1", ".x", "e5.", "é", "٣"]


def gen_alt_cases(chk):
    """numbers followed directly by identifier characters / dots, in `Model: v*=V; V: R0 | R1; R0: v=<number type>; R1: v=ID;`"""
    cases = []
    r0 = chk.rng.split("alts")
    # corpus: the motivating texts
    for t in ["1.5x", "1.e", "3.method", "1e5e", "1.5 x", "12abc 1.5", "1.5.2", "x1.5", "a-1.5", "1.e5x y", ".5.", "1. 2"]:
        for combo in ALT_COMBOS:
            cases.append({"types": combo, "text": t, "kind": "alt-corpus"})
    small = all_strings(ALPHA_A, 5 if chk.thorough else 4)
    for i, t in enumerate(small):
        for j, combo in enumerate(ALT_COMBOS):
            if chk.thorough or (i + j) % 3 == 0:
                cases.append({"types": combo, "text": t, "kind": "alt-exh"})
    for i in range(1500 if chk.thorough else 240):
        r = r0.split(i)
        parts = []
        for _ in range(r.range(1, 4)):
            lit = gen_float(r)[0] if r.chance(0.7) else gen_int(r)[0]
            kind = r.weighted([("junk", 5), ("plain", 3), ("id", 2)])
            if kind == "junk":
                parts.append(lit + r.choice(JUNK))
            elif kind == "plain":
                parts.append(lit)
            else:
                parts.append(r.choice(["x", "e5", "abc", "_a1"]) + r.choice(["", " " + lit, lit]))
        cases.append({"types": r.choice(ALT_COMBOS), "text": r.choice(["", " "]) + r.choice([" ", " ", "\n", ""]).join(parts), "kind": "alt-rand"})
    return cases


def alt_exprs(cases):
    by = {}
    for i, c in enumerate(cases):
        by.setdefault("|".join(c["types"]), []).append(i)
    exprs, owners = [], []
    for key, idxs in sorted(by.items()):
        ts = core.coq_list([BT[t] for t in key.split("|")])
        for ch in chunked(idxs, 40):
            exprs.append("a_batch E0 %s %s" % (ts, core.coq_list([cstr(cases[i]["text"]) for i in ch])))
            owners.append(ch)
    return exprs, owners, [3 * sum(len(cases[i]["text"]) + 2 for i in ch) for ch in owners]


def alt_model_vals(mv):
    if mv is None:
        return None
    if mv == "ERR":
        return "ERR"
    out = []
    for p in re.split(r"\\(?=\d+@\d+@\d+@)", mv[2:])[1:]:
        k, a, b, v = p.split("@", 3)
        out.append([int(k), model_vals("OK\\" + v)[0], int(a), int(b)])
    return out


def float_span_ok(text, item):
    """the theorem C04_float_match_delimited and conversion faithfulness, stated on one returned item"""
    _k, val, a, b = item
    if val[0] != "f":
        return None
    if b < len(text) and re.match(r"[\w.]", text[b]):
        return "the float taken from %r ends at %d, directly before %r" % (text[a:b], b, text[b])
    try:
        if float(text[a:b]).hex() != val[1]:
            return "the float %s is not float(%r)" % (val[1], text[a:b])
    except ValueError:
        return "the span %r of a float value is not a float literal" % text[a:b]
    return None


def gen_rx_groups(chk):
    """jobs: (name or None, pattern, flags, coq term); groups: dict(job, kind=enum|list, ...) -- one hash is compared per group"""
    jobs, groups = [], []
    r0 = chk.rng.split("rx")
    base, lang, _ = regex_tr.source_patterns()
    LS, LN = (6, 5) if chk.thorough else (4, 4)
    ascii1 = [chr(i) for i in range(128)] + ["a" + chr(i) for i in range(0, 128, 3)]

    def rnd(alpha, n, lo, hi, tag):
        return [rand_text(r0.split("%s%d" % (tag, i)), alpha, r0.split("%s%dl" % (tag, i)).range(lo, hi)) for i in range(n)]

    def add(job, alpha, maxlen, lists):
        ji = len(jobs)
        jobs.append(job)
        for n in range(maxlen + 1):
            groups.append({"job": ji, "kind": "enum", "alpha": alpha, "n": n})
        for l in lists:
            for ch in chunked(l, 100):
                groups.append({"job": ji, "kind": "list", "strings": ch})
    nr = 600 if chk.thorough else 60
    uni_s = rnd(ALPHA_S + UNI + ["b"], nr, 3, 24, "us")
    uni_n = rnd(ALPHA_N + UNI + [" ", "E", "7", "_"], nr, 3, 16, "un")
    long_s = rnd(ALPHA_S, nr, 8, 40, "ls")
    long_n = rnd(ALPHA_N + ["5", "E"], nr, 6, 20, "ln")
    for name in regex_tr.BASE_TYPES:
        job = (name, base[name], re.M, "rx_" + name)
        if name == "STRING":
            add(job, ALPHA_S, LS, [uni_s, long_s])
        elif name in ("BOOL", "ID"):
            add(job, ALPHA_B, LN if chk.thorough else 3, [uni_n, ascii1])
        else:
            add(job, ALPHA_N, LN, [uni_n, long_n, ascii1])
    for fn in sorted(lang):
        for pat in lang[fn]:
            try:
                term = regex_tr.coq_of_pattern(pat)
            except regex_tr.TranslateError:
                continue
            alpha = ALPHA_S + ["/", "*"] if ("'" in pat or '"' in pat or "/" in pat) else ALPHA_N + ["_", " "]
            add((None, pat, re.M, "(%s)" % term), alpha, 4 if chk.thorough else 3, [rnd(alpha + UNI, nr // 2, 3, 14, "lg" + fn)])
    xr = rnd(ALPHA_X + ["T", "r", "u", "e", "B", "1", "_", "A", "C"], nr, 3, 14, "xr")
    for pat, flags in EXTRA:
        add((None, pat, flags, "(%s)" % regex_tr.coq_of_pattern(pat)), ALPHA_X, 5 if chk.thorough else 3, [xr] + ([ascii1] if "\\" in pat else []))
    return jobs, groups


def rx_env(flags):
    return "E0" if flags == re.M else "(mkenv %s %s %s U)" % (core.coq_bool(flags & re.M), core.coq_bool(flags & re.I), core.coq_bool(flags & re.S))


def group_expr(jobs, g):
    _name, _pat, flags, term = jobs[g["job"]]
    if g["kind"] == "enum":
        return "h_enum %s %s %s %d" % (rx_env(flags), term, core.coq_str("".join(g["alpha"])), g["n"])
    return "h_list %s %s %s" % (rx_env(flags), term, core.coq_list([cstr(s) for s in g["strings"]]))


def engine_exprs(jobs, groups):
    costs = [(len(g["alpha"]) ** g["n"]) * (g["n"] + 1) if g["kind"] == "enum" else sum(len(x) + 1 for x in g["strings"]) * 3 for g in groups]
    return [group_expr(jobs, g) for g in groups], costs


def validate_engine(chk, jobs, groups, impl_hash, udef, disagreements, vals, errs):
    """compare one hash per group; on a mismatch re-run the group verbosely to name the strings"""
    if errs:
        disagreements.append({"case": "coq evaluation (engine)", "model": errs[:2]})
    bad = []
    n_pairs = 0
    for g, v, ih in zip(groups, vals, impl_hash):
        n_pairs += ih[1]
        chk.cov["evaluations"] += ih[1]
        chk.cov["distinct_nontrivial"] += ih[2]
        if v is not None and v != ih[0]:
            bad.append(g)
    chk.stat("engine: (pattern, string) pairs compared at every position", n_pairs)
    chk.stat("engine: patterns", len(jobs))
    shown = 0
    for g in bad[:4]:
        name, pat, flags, term = jobs[g["job"]]
        strs = group_strings(g)[:6000]
        rows = core.run_impl("c04", {"rx": [[name, pat, int(flags), strs]]})["rx"][0]
        exprs = ["m_batch %s %s %s" % (rx_env(flags), term, core.coq_list([cstr(s) for s in sub])) for sub in chunked(strs, 100)]
        mv, _ = core.coq_eval("C04rxv", IMPORTS + udef, exprs, shard=20)
        mrows = []
        for sub, v in zip(chunked(strs, 100), mv):
            mrows += (v.split(";") if v is not None else [None] * len(sub))
        found = False
        for s_, row, mrow in zip(strs, rows, mrows):
            want = ",".join("None" if x is None else str(x) for x in row)
            if mrow != want:
                found = True
                if shown < 10:
                    shown += 1
                    disagreements.append({"case": {"engine": True, "pattern": pat, "flags": int(flags), "text": s_}, "impl": want, "model": mrow})
        if not found:
            disagreements.append({"case": {"engine": True, "pattern": pat, "flags": int(flags), "group": g.get("n", "list")}, "impl": "hash differs", "model": "hash differs"})
    if len(bad) > 4:
        disagreements.append({"case": "engine: %d more groups differ" % (len(bad) - 4)})
    return n_pairs


IMPORTS = """From Coq Require Import Uint63.
From TxV Require Import Core.Base Core.Show Model.Rx Gen.SrcRegex Gen.SrcBaseConv Model.BaseTypes.
Open Scope string_scope.
Fixpoint ps_go (s : string) (acc : option N) : list N :=
  match s with
  | EmptyString => []
  | String a s' =>
      let c := Ascii.N_of_ascii a in
      match acc with
      | None => if N.eqb c 92 then ps_go s' (Some 0%N) else c :: ps_go s' None
      | Some n => if N.eqb c 59 then n :: ps_go s' None else ps_go s' (Some (n * 10 + (c - 48))%N)
      end
  end.
Definition ps (s : string) : list N := ps_go s None.   (* inverse of show_str: fast input of texts *)
Fixpoint splits_go (f : list N -> list N -> string) (pre rest : list N) : list string :=
  f pre rest :: match rest with [] => [] | c :: rest' => splits_go f (c :: pre) rest' end.
Definition m_all (E : rxenv) (r : rx) (s : list N) : string :=
  sjoin "," (splits_go (fun pre rest => show_opt show_nat (rx_match E r pre rest)) [] s).
Definition m_batch (E : rxenv) (r : rx) (ss : list (list N)) : string := sjoin ";" (map (m_all E r) ss).
Definition hmix (h v : Uint63.int) : Uint63.int :=
  PrimInt63.add (PrimInt63.add (PrimInt63.mul h 1000003%uint63) v) 1%uint63.
Fixpoint h_pos (E : rxenv) (r : rx) (pre rest : list N) (h : Uint63.int) : Uint63.int :=
  let h' := hmix h (match rx_match E r pre rest with None => 0%uint63 | Some n => Uint63.of_Z (Z.of_nat (S n)) end) in
  match rest with [] => h' | c :: rest' => h_pos E r (c :: pre) rest' h' end.
Definition h_strs (E : rxenv) (r : rx) (ss : list (list N)) : string :=
  show_Z (Uint63.to_Z (fold_left (fun h s => h_pos E r [] s (hmix h 7%uint63)) ss 0%uint63)).
Fixpoint strs_of_len (alpha : list N) (n : nat) : list (list N) :=
  match n with O => [[]] | S k => flat_map (fun s => map (fun c => c :: s) alpha) (strs_of_len alpha k) end.
Definition h_enum (E : rxenv) (r : rx) (alpha : list N) (n : nat) : string := h_strs E r (strs_of_len alpha n).
Definition h_list (E : rxenv) (r : rx) (ss : list (list N)) : string := h_strs E r ss.
Definition show_val (v : value) : string :=
  match v with VInt z => "i:" ++ show_Z z | VFloat l => "f:" ++ show_str l | VBool b => "b:" ++ show_bool b
             | VStr s => "s:" ++ show_str s | VBad x => "bad:" ++ show_str x end.
Definition show_load (o : option (list value)) : string :=
  match o with None => "ERR" | Some vs => "OK" ++ String.concat "" (map (fun v => "\\" ++ show_val v) vs) end.
Definition show_alt (x : nat * value * nat * nat) : string :=
  match x with (k, v, a, b) => "\\" ++ show_nat k ++ "@" ++ show_nat a ++ "@" ++ show_nat b ++ "@" ++ show_val v end.
Definition show_alts (o : option (list (nat * value * nat * nat))) : string :=
  match o with None => "ERR" | Some vs => "OK" ++ String.concat "" (map show_alt vs) end.
Definition a_batch (E : rxenv) (ts : list bt) (xs : list (list N)) : string :=
  String.concat "" (map (fun x => show_alts (load_alts E ts x) ++ "\\|") xs).
Definition l_batch (E : rxenv) (t : bt) (ts : list (list N)) : string :=
  String.concat "" (map (fun x => show_load (load_many E t x) ++ "\\|") ts).
"""


def ucls_def(chars):
    d, w, sp = re.compile(r"\d"), re.compile(r"\w"), re.compile(r"\s")
    tab = []
    for c in sorted(chars):
        if ord(c) >= 128:
            bits = (1 if d.match(c) else 0) | (2 if w.match(c) else 0) | (4 if sp.match(c) else 0)
            tab.append("(%d, %d)" % (ord(c), bits))
    return "Definition U : N -> N := ucls_of_table [%s]%%N.\nDefinition E0 := src_env U.\n" % "; ".join(tab)


def canon_impl_load(o):
    """implementation outcome -> the canonical text the model prints (floats: through the literal, see compare)"""
    if "err" in o:
        return "ERR" if o["err"] == "syntax" else "EXC " + o["err"]
    if o.get("empty"):
        return []        # textX returns '' for a model in which nothing matched (outside C04; see design/C04.md)
    return o["v"]


def model_vals(mv):
    """'OK\\s:...\\i:..' -> list of [kind, payload] comparable with the implementation's canon_val"""
    if mv is None:
        return None
    if mv == "ERR":
        return "ERR"
    assert mv.startswith("OK")
    out = []
    body = mv[2:]
    parts = re.split(r"\\(?=(?:s|i|f|b|bad):)", body)[1:] if body else []
    for p in parts:
        k, _, payload = p.partition(":")
        if k == "s":
            out.append(["s", uncanon(payload)])
        elif k == "i":
            out.append(["i", payload])
        elif k == "b":
            out.append(["b", payload == "T"])
        elif k == "f":
            try:
                out.append(["f", float(uncanon(payload)).hex()])
            except ValueError:
                out.append(["f", "float() raises on " + payload])
        else:
            out.append(["bad", payload])
    return out


def balanced_eval(tag, udef, exprs, costs):
    """coq_eval with one shard per process, expressions striped over the shards by decreasing cost"""
    n = len(exprs)
    if n == 0:
        return [], []
    k = min(core.NPROC, n)
    order = sorted(range(n), key=lambda i: -costs[i])
    per = -(-n // k)
    slots = [[] for _ in range(k)]
    for j, i in enumerate(order):
        slots[j % k].append(i)
    # pad so that every shard has exactly `per` expressions (coq_eval slices contiguously)
    flat, owner = [], []
    for sl in slots:
        for i in sl:
            flat.append(exprs[i])
            owner.append(i)
        for _ in range(per - len(sl)):
            flat.append('""')
            owner.append(None)
    vals, errs = core.coq_eval(tag, IMPORTS + udef, flat, shard=per)
    res = [None] * n
    for i, v in zip(owner, vals):
        if i is not None:
            res[i] = v
    return res, errs


def chunked(xs, n):
    return [xs[i:i + n] for i in range(0, len(xs), n)]


def load_exprs(cases):
    by = {}
    for i, c in enumerate(cases):
        by.setdefault(c["type"], []).append(i)
    exprs, owners = [], []
    for typ, idxs in sorted(by.items()):
        for ch in chunked(idxs, 40):
            exprs.append("l_batch E0 %s %s" % (BT[typ], core.coq_list([cstr(cases[i]["text"]) for i in ch])))
            owners.append(ch)
    return exprs, owners, [3 * sum(len(cases[i]["text"]) + 2 for i in ch) for ch in owners]


def run_model_load(cases, udef, tag="C04l"):
    exprs, owners, costs = load_exprs(cases)
    vals, errs = balanced_eval(tag, udef, exprs, costs)
    return load_results(cases, owners, vals, errs)


def load_results(cases, owners, vals, errs):
    errs = list(errs)
    res = [None] * len(cases)
    for ch, v in zip(owners, vals):
        if v is None:
            continue
        parts = v.split("\\|")[:-1]
        if len(parts) != len(ch):
            errs.append("batch size mismatch")
            continue
        for i, p in zip(ch, parts):
            res[i] = p
    return res, errs


def _t(chk, label):
    import os
    import time
    if os.environ.get("VERIF_TIMING"):      # developer aid only; not part of the evidence by default
        chk.cov.setdefault("phase_wall_s", {})[label] = round(time.time() - chk.t0, 1)


def rx_lit_then_text(lit, tail):
    out = tail
    for ch in reversed(lit):
        out = "(RSeq (RChr %d%%N) %s)" % (ord(ch), out)
    return out


def library_checks(chk, disagreements):
    """(1) the translator emits literal / keyword patterns in the shape of Rx.rx_lit / Rx.rx_kw (the shape the library
    theorems are about); (2) the cross-validation theorem with the C21 keyword model still builds and is closed."""
    import os
    for kw in ["if", "begin_x", "Ab9", "x"]:
        got = regex_tr.coq_of_pattern(re.escape(kw) + r"\b")
        want = rx_lit_then_text(kw, "(RWordB false)")
        if got != want:
            disagreements.append({"case": "translator shape of keyword pattern %r" % kw, "impl": got, "model": want})
        got = regex_tr.coq_of_pattern(re.escape(kw))
        want = rx_lit_then_text(kw[:-1], "(RChr %d%%N)" % ord(kw[-1]))
        if got != want:
            disagreements.append({"case": "translator shape of literal pattern %r" % kw, "impl": got, "model": want})
    if os.path.exists(os.path.join(core.COQ, "Model", "Kw.v")):
        ok, log = core.coq_make(["Proofs/RxKwProofs.vo"])
        if ok:
            # Print Assumptions output is in the log when the file was (re)compiled; an up-to-date .vo was checked when built
            closed = "Axioms:" not in log
            chk.cov["cross_validation_kw"] = "rx_kw_agrees_with_kw_match: proved" + (", closed" if closed else ", WITH AXIOMS")
            if not closed:
                disagreements.append({"case": "Proofs/RxKwProofs.v depends on axioms", "model": log[-1500:]})
        elif 'File "./Proofs/RxKwProofs.v"' in log:
            chk.cov["cross_validation_kw"] = "rx_kw_agrees_with_kw_match: FAILED"
            disagreements.append({"case": "Proofs/RxKwProofs.v (cross-validation with Model/Kw.v) no longer checks", "model": log[-1500:]})
        else:
            chk.cov["cross_validation_kw"] = "skipped: Model/Kw.v or its dependencies do not build on this tree"


def run(chk):
    chk.prove([regex_tr.translate, basetype_tr.translate])
    _t(chk, "prove")
    disagreements, failures = [], []
    library_checks(chk, disagreements)

    cases = gen_load_cases(chk)
    jobs, groups = gen_rx_groups(chk)
    acases = gen_alt_cases(chk)
    chars = set()
    for c in cases + acases:
        chars.update(c["text"])
    for g in groups:
        for s_ in (g["strings"] if g["kind"] == "list" else g["alpha"]):
            chars.update(s_)
    udef = ucls_def(chars)

    # ---- implementation: loads and regex objects
    nchunks = core.NPROC
    load_chunks = [cases[i::nchunks] for i in range(nchunks)]
    alt_chunks = [acases[i::nchunks] for i in range(nchunks)]
    order = sorted(range(len(groups)), key=lambda i: -(len(groups[i]["alpha"]) ** groups[i]["n"] if groups[i]["kind"] == "enum" else len(groups[i]["strings"])))
    grp_chunks = [order[i::nchunks] for i in range(nchunks)]
    payloads = []
    for k in range(nchunks):
        payloads.append({"load": [[c["type"], c["text"]] for c in load_chunks[k]],
                         "alts": [[c["types"], c["text"]] for c in alt_chunks[k]],
                         "rxh": [[jobs[groups[gi]["job"]][0], jobs[groups[gi]["job"]][1], int(jobs[groups[gi]["job"]][2]),
                                  {k2: v for k2, v in groups[gi].items() if k2 != "job"}] for gi in grp_chunks[k]]})
    _t(chk, "generate")
    outs = core.run_impl_parallel("c04", payloads)
    _t(chk, "impl")
    impl_load = {}
    impl_hash = [None] * len(groups)
    for k in range(nchunks):
        for c, o in zip(load_chunks[k], outs[k]["load"]):
            impl_load[id(c)] = o
        for c, o in zip(alt_chunks[k], outs[k]["alts"]):
            impl_load[id(c)] = o
        for gi, h in zip(grp_chunks[k], outs[k]["rxh"]):
            impl_hash[gi] = h

    # ---- (a) engine validation: Rx vs Python re
    e_exprs, e_costs = engine_exprs(jobs, groups)
    l_exprs, l_owners, l_costs = load_exprs(cases)
    a_exprs, a_owners, a_costs = alt_exprs(acases)
    allvals, allerrs = balanced_eval("C04", udef, e_exprs + l_exprs + a_exprs, e_costs + l_costs + a_costs)
    _t(chk, "coq-eval")
    n_rx = validate_engine(chk, jobs, groups, impl_hash, udef, disagreements, allvals[:len(e_exprs)], allerrs)

    # ---- (b) whole path: textX vs load_many
    mvals, errs = load_results(cases, l_owners, allvals[len(e_exprs):len(e_exprs) + len(l_exprs)], [])
    avals, aerrs = load_results(acases, a_owners, allvals[len(e_exprs) + len(l_exprs):], [])
    errs += aerrs
    # ---- (c) numbers glued to identifier characters / dots, in a grammar with a second alternative
    for c, mv in zip(acases, avals):
        o = impl_load[id(c)]
        iv = canon_impl_load(o)
        m = alt_model_vals(mv)
        nt = isinstance(iv, list) and any(x[1][0] in "fi" for x in iv)
        chk.count(("alts", "|".join(c["types"]), c["text"]), nontrivial=nt)
        chk.stat("alts %s %s" % (c["kind"], "error" if "err" in o else "ok"))
        if m is not None and m != iv:
            disagreements.append({"case": {"types": c["types"], "text": c["text"]}, "impl": iv, "model": m})
        if isinstance(iv, list):
            for item in iv:
                bad = float_span_ok(c["text"], item)
                if bad:
                    failures.append({"case": {"types": c["types"], "text": c["text"]}, "impl": iv, "model": m, "what": bad, "tags": []})
                    break
    if errs:
        disagreements.append({"case": "coq evaluation (load)", "model": errs[:2]})
    for c, mv in zip(cases, mvals):
        o = impl_load[id(c)]
        iv = canon_impl_load(o)
        m = model_vals(mv)
        chk.count((c["type"], c["text"]), nontrivial=c["expect"] is not None and c["nt"])
        chk.stat("load %s %s" % (c["kind"], "error" if "err" in o else "ok"))
        if m is not None and m != iv:
            disagreements.append({"case": {"type": c["type"], "text": c["text"]}, "impl": iv, "model": m})
        # property oracle
        if c["expect"] is not None and iv != c["expect"]:
            tags = []
            failures.append({"case": {"type": c["type"], "text": c["text"], "written": c["expect"]}, "impl": iv, "model": m,
                             "what": "values written %r came back as %r" % (c["expect"], iv), "tags": tags})
        if c["expect"] is not None and chk.cov["evaluations"] % 997 == 3:
            chk.sample({"type": c["type"], "text": c["text"], "impl": iv})
    chk.cov["disagreements_checked"] = n_rx + len(cases) + len(acases)
    chk.cov["rule"] = (
        "whole path: `Model: v*=T;` loaded by textX vs BaseTypes.load_many on (i) every string over {a,space,\",',\\,newline} up to length %d written "
        "(quick: + 400 sampled of length 4-6) between either quote with only that quote escaped, alone and followed by a second string on the same line, (ii) random longer/unicode strings in "
        "sequences, (iii) random ints (1-40 digits, sign, '+', leading zeros) through INT and NUMBER, (iv) random floats (decimal, random bit patterns, "
        "extremes) in repr/%%e/%%E/%%f/%%g/%%.17g/'+'/'5.'/'.5'/'1e5' forms through FLOAT, STRICTFLOAT, NUMBER, mixed int/float NUMBER sequences, "
        "(v) all BOOL spellings and pairs, (vi) raw/malformed texts for every type (error paths, backtracking), (vii) `V: R0 | R1; R0: v=FLOAT/STRICTFLOAT/NUMBER; "
        "R1: v=ID;` on every text over {1 . e x - space} up to a length bound and random literals glued to identifier characters/dots, compared with "
        "BaseTypes.load_alts including spans; oracle: a float value's span ends at a delimiter and the value is float(span). engine: Model/Rx.v vs the compiled regex "
        "objects of textx.lang (+ grammar-language terminals + %d extra patterns with lazy/bounded/look-around/anchors/flags) on every string up to a "
        "length bound over small alphabets and random unicode strings, at every start position. non-trivial = a written value the oracle checks (strings: "
        "contains a quote or backslash, or several strings) / a regex with at least one matching position; distinct by (type, text) / (pattern, flags, text)"
        % (5 if chk.thorough else 3, len(EXTRA)))
    chk.assumptions += [
        "translators regex_tr.py (pattern text by ast, structure by Python's own re._parser) and basetype_tr.py (processor lambdas by ast)",
        "Model/Rx.v engine and the `v*=T` loading loop of Model/BaseTypes.v are modelled, tied by the differential runs above",
        "float() and the classification of non-ASCII code points (\\d \\w \\s) are oracles supplied by Python; int() is modelled exactly for [+-]?[0-9]+ "
        "(Python's 4300-digit limit is not modelled)",
    ]
    decide(chk, failures, disagreements)


def replay(rep):
    case = rep.get("case") or {}
    if isinstance(case, dict) and case.get("engine"):
        out = core.run_impl("c04", {"rx": [[None, case["pattern"], case["flags"], [case["text"]]]]})
        print("pattern %r flags %d text %r" % (case["pattern"], case["flags"], case["text"]))
        print("implementation (re):", out["rx"][0][0])
        print("model:", rep.get("model_outcome") or rep.get("model"))
        return 0
    if not isinstance(case, dict) or "text" not in case:
        print(json.dumps(rep, indent=1))
        return 0
    if "types" in case:
        regex_tr.translate()
        basetype_tr.translate()
        out = core.run_impl("c04", {"alts": [[case["types"], case["text"]]]})
        iv = canon_impl_load(out["alts"][0])
        exprs, owners, costs = alt_exprs([case])
        vals, errs = balanced_eval("C04replay", ucls_def(set(case["text"])), exprs, costs)
        mv, _ = load_results([case], owners, vals, errs)
        print("grammar: Model: v*=V; V: R0 | R1; " + " ".join("R%d: v=%s;" % (i, t) for i, t in enumerate(case["types"])))
        print("text %r" % case["text"])
        print("implementation:", iv)
        print("model:         ", alt_model_vals(mv[0]) if not errs else errs)
        bad = None
        if isinstance(iv, list):
            for item in iv:
                bad = bad or float_span_ok(case["text"], item)
        print("property:", "VIOLATED: " + bad if bad else "holds")
        return 1 if bad else 0
    regex_tr.translate()
    basetype_tr.translate()
    out = core.run_impl("c04", {"load": [[case["type"], case["text"]]]})
    iv = canon_impl_load(out["load"][0])
    c = mk(case["type"], case["text"], None, "replay")
    mv, errs = run_model_load([c], ucls_def(set(case["text"])), tag="C04replay")
    print("type %s text %r" % (case["type"], case["text"]))
    print("implementation:", iv)
    print("model:         ", model_vals(mv[0]) if not errs else errs)
    if case.get("written") is not None:
        ok = iv == case["written"]
        print("written:       ", case["written"])
        print("property:", "holds" if ok else "VIOLATED")
        return 0 if ok else 1
    return 0
