"""C14 — user classes are constructed once with exactly the grammar attributes."""
import json
from vt import core
from vt.main import decide
from translate import usercls_tr, repo_tr
from props import usercls_common as uc


def corpus_cases(pid):
    import os
    d = os.path.join(core.VERIF, "corpus", pid)
    out = []
    if os.path.isdir(d):
        for f in sorted(os.listdir(d)):
            if f.endswith(".json"):
                out.append(json.load(open(os.path.join(d, f)))["scenario"])
    return out


def run(chk, pid="C14"):
    import time
    t0 = time.time()
    chk.prove([usercls_tr.translate] + ([repo_tr.translate] if pid == "C15" else []))
    t1 = time.time()
    n = 1200 if chk.thorough else 70
    cases = corpus_cases(pid)
    ncorpus = len(cases)
    for i in range(n):
        cases.append(uc.gen_scenario(chk.rng.split(i), i))
    results, errs = uc.run_cases(chk, cases, pid)
    chk.cov["stage_seconds"] = {"prove": round(t1 - t0, 1), "implementation+model": round(time.time() - t1, 1)}
    failures, disagreements = [], []
    if errs:
        disagreements.append({"case": "coq evaluation", "model": errs[:2]})
    for sc, obs, model, ops, tops_ok, info, dis in results:
        if "harness_error" in obs:
            disagreements.append({"case": uc.describe(sc), "impl": obs["harness_error"][-600:], "model": None})
            continue
        multi = any(o.startswith("Begin false") for o in ops)
        nested = sum(1 for o in ops if o.startswith("Begin true")) > len(sc["tops"])
        failing = any(not x for x in tops_ok) or any(not i["ok"] for i in info)
        chk.count(json.dumps([sc["classes"], sc["shape"], ops]), nontrivial=(multi or nested) and failing)
        uc.scenario_stats(chk, sc, obs, tops_ok, info, ops)
        if dis:
            disagreements.append({"case": uc.describe(sc), "ops": ops, "impl": {"events": obs.get("events"), "tops": obs.get("tops")},
                                  "model": model, "what": dis})
        bad = uc.oracle_c14(sc, obs, tops_ok, info) if pid == "C14" else uc.oracle_c15(sc, obs)
        if sc.get("oracle_only") and pid == "C15":
            # the class of the known finding: a callback-started load sharing the global repository
            bad = [(w, t + ["shared_repo_reentrant_load"]) if t[0] in ("reachable", "next_load") else (w, t) for w, t in bad]
        for what, tags in bad[:1]:
            failures.append({"case": uc.describe(sc), "what": what, "tags": tags, "impl": {"tops": obs["tops"], "events": obs["events"][:60]},
                             "model": {"ops": ops}})
        if chk.cov["evaluations"] % 40 == 5:
            chk.sample({"classes": sc["classes"], "shape": sc["shape"], "ops": ops[:40], "outcomes": [t["outcome"] for t in obs["tops"]]})
    chk.cov["rule"] = ("%d corpus + %d generated scenarios: user classes for a random subset of the rules Model/Item/Sub/Ref in one of %d shapes "
                       "(plain, __slots__, frozen __setattr__, own __setattr__/__getattribute__/__delattr__, own __getattr__); 1-3 top-level loads per scenario, "
                       "each a file tree with up to 3 imports (incl. repeated/cyclic imports), failure points: syntax error in any file, exception in a match-rule "
                       "processor during the build, unknown reference, scope-provider exception, unresolvable postponed reference, exception in a user __init__, "
                       "in an object processor, in a model processor (of an imported or the main model); callbacks (match-rule processor, __init__, object "
                       "processor) start further complete loads, caught or propagating; optional metamodel-global repository. non-trivial = a failing load with "
                       "imported models or a callback-started load; distinct by classes, shape and operation sequence" % (ncorpus, n, len(uc.SHAPES)))
    chk.cov["exhaustive"] = False
    chk.assumptions += [
        "the UserCls load machine is hand-written; it is tied to textx/model.py by the fail-closed translator (method-name tuples; shape of replace/restore/"
        "discard, of the failure handlers and of _end_model_construction) and by this correspondence (event log with _tx_instrumented and len(_tx_obj_attrs) "
        "at every allocation, __init__, object processor and load end)",
        "all user classes of a metamodel are replaced/restored together, so one class state stands for each (the runner checks they agree)",
        "loads started from callbacks do not share a metamodel-global repository with the running load (not generated)",
        "imported models are found through the shared model repository (built-in ImportURI providers)",
        "object identity (id) of live objects is unique: the model draws object ids from a counter",
    ]
    decide(chk, failures, disagreements)


def replay(rep):
    sc = rep.get("case") or rep.get("scenario")
    if not isinstance(sc, dict) or "loads" not in sc:
        print(json.dumps(rep, indent=1)[:4000])
        return 0
    sc = dict(sc, gc_check=True, next_check=True)
    obs = core.run_impl("c14", {"scenarios": [sc]})[0]
    ops, tops_ok, info = uc.compile_scenario(sc)
    print("operations:", ops)
    print("outcomes:", [t["outcome"] for t in obs.get("tops", [])])
    bad = uc.oracle_c14(sc, obs, tops_ok, info) + uc.oracle_c15(sc, obs)
    for what, tags in bad:
        print("FAIL:", what, tags)
    return 1 if bad else 0
