"""C26 — the language and generator registries behave as case-insensitive maps."""
import fnmatch
import itertools
import json
from vt import core
from vt.main import decide
from translate import registry_tr

NAMES = ["La", "LA", "la", "Lb", "lB", "EpL", "epl", "any"]
PATTERNS = ["*.a", "*.b", "*.?", "x.a", None]
FILES = ["x.a", "y.b", "x.ab", "*.a", "z"]
TARGETS = ["T", "t", "U"]
EP_LANGS = [{"name": "EpL", "pattern": "*.a", "src": ["F", 90], "tag": 900}, {"name": "Ep2", "pattern": None, "src": ["I", 91], "tag": 901}]
EP_GENS = [{"lang": "any", "target": "t", "tag": 950}, {"lang": "EpL", "target": "U", "tag": 951}]
# entry points with a duplicate name (case-insensitively): discovery registers the ones before it and raises
EP_LANGS_DUP = EP_LANGS + [{"name": "epl", "pattern": "*.b", "src": ["I", 92], "tag": 902}, {"name": "Ep3", "pattern": "*.a", "src": ["F", 93], "tag": 903}]
EP_GENS_DUP = EP_GENS + [{"lang": "ANY", "target": "T", "tag": 952}, {"lang": "Lb", "target": "T", "tag": 953}]
EP_SETS = {0: ([], []), 1: (EP_LANGS, EP_GENS), 2: (EP_LANGS_DUP, EP_GENS_DUP), 3: (EP_LANGS_DUP, EP_GENS), 4: (EP_LANGS, EP_GENS_DUP)}


def rand_op(r, tagc):
    k = r.weighted([("RegLang", 6), ("ClearLangs", 1), ("RegGen", 4), ("ClearGens", 1), ("LangDescription", 3), ("GenDescription", 3),
                    ("LangsForFile", 3), ("LangForFile", 2), ("MMForLang", 5), ("MMForFile", 2), ("MMsForFile", 1), ("LangDescs", 1), ("GenDescs", 1)])
    if k == "RegLang":
        tagc[0] += 1
        src = r.weighted([(["I", r.below(3)], 3), (["F", r.below(3)], 4), (["B"], 1)])
        return {"op": k, "d": {"name": r.choice(NAMES), "pattern": r.choice(PATTERNS), "src": src, "tag": tagc[0]}, "positional": r.chance(0.3)}
    if k == "RegGen":
        tagc[0] += 1
        return {"op": k, "d": {"lang": r.choice(NAMES), "target": r.choice(TARGETS), "tag": tagc[0]}}
    if k == "LangDescription":
        return {"op": k, "n": r.choice(NAMES)}
    if k == "GenDescription":
        return {"op": k, "l": r.choice(NAMES), "t": r.choice(TARGETS), "any": r.chance(0.5)}
    if k in ("LangsForFile", "LangForFile", "MMsForFile"):
        return {"op": k, "f": r.choice(FILES)}
    if k == "MMForLang":
        return {"op": k, "n": r.choice(NAMES), "kw": r.chance(0.35)}
    if k == "MMForFile":
        return {"op": k, "f": r.choice(FILES), "kw": r.chance(0.35)}
    return {"op": k}


def small_alphabet():
    ops = []
    t = [0]

    def rl(n, p, s):
        t[0] += 1
        return {"op": "RegLang", "d": {"name": n, "pattern": p, "src": s, "tag": t[0]}}
    ops += [rl("La", "*.a", ["F", 1]), rl("LA", "*.b", ["I", 1]), rl("Lb", "*.a", ["I", 2]), rl("epl", None, ["B"])]
    ops += [{"op": "ClearLangs"}, {"op": "ClearGens"}]
    for l, tg in (("La", "T"), ("la", "t"), ("any", "T")):
        t[0] += 1
        ops.append({"op": "RegGen", "d": {"lang": l, "target": tg, "tag": t[0]}})
    ops += [{"op": "LangDescription", "n": "lA"}, {"op": "GenDescription", "l": "LA", "t": "t", "any": True},
            {"op": "GenDescription", "l": "Lb", "t": "T", "any": False}, {"op": "LangsForFile", "f": "x.a"}, {"op": "LangForFile", "f": "x.a"},
            {"op": "MMForLang", "n": "la", "kw": False}, {"op": "MMForLang", "n": "LA", "kw": True}, {"op": "MMForLang", "n": "EPL", "kw": False},
            {"op": "MMForFile", "f": "x.a", "kw": False}, {"op": "MMsForFile", "f": "x.a"}, {"op": "LangDescs"}, {"op": "GenDescs"}]
    return ops


# ---- Coq encoding
def c_src(s):
    return {"I": lambda: "(Instance %d)" % s[1], "F": lambda: "(Factory %d)" % s[1], "B": lambda: "BadFactory"}[s[0]]()


def c_ld(d):
    return "{| lname := %s; lpattern := %s; lsrc := %s; ltag := %d |}" % (
        core.coq_str(d["name"]), core.coq_opt(None if d["pattern"] is None else core.coq_str(d["pattern"])), c_src(d["src"]), d["tag"])


def c_gd(d):
    return "{| glang := %s; gtarget := %s; gtag := %d |}" % (core.coq_str(d["lang"]), core.coq_str(d["target"]), d["tag"])


def c_op(o):
    k = o["op"]
    S = core.coq_str
    B = core.coq_bool
    if k == "RegLang":
        return "RegLang " + c_ld(o["d"])
    if k == "RegGen":
        return "RegGen " + c_gd(o["d"])
    if k == "LangDescription":
        return "LangDescription " + S(o["n"])
    if k == "GenDescription":
        return "GenDescription %s %s %s" % (S(o["l"]), S(o["t"]), B(o["any"]))
    if k in ("LangsForFile", "LangForFile", "MMsForFile"):
        return "%s %s" % (k, S(o["f"]))
    if k == "MMForLang":
        return "MMForLang %s %s" % (S(o["n"]), B(o["kw"]))
    if k == "MMForFile":
        return "MMForFile %s %s" % (S(o["f"]), B(o["kw"]))
    return k


def imports():
    table = [(f, p) for f in FILES for p in PATTERNS if p is not None and fnmatch.fnmatch(f, p)]
    fnm = "Definition fnm (f p : list N) : bool := existsb (fun fp => str_eqb f (fst fp) && str_eqb p (snd fp)) %s." % core.coq_list(
        ["(%s, %s)" % (core.coq_str(f), core.coq_str(p)) for f, p in table])
    return """From TxV Require Import Core.Base Core.Show Model.Registry.
Open Scope string_scope.
%s
Definition epl : list ldesc := %s.
Definition epg : list gdesc := %s.
Definition epl_dup : list ldesc := %s.
Definition epg_dup : list gdesc := %s.
Definition show_mm (m : mm) : string := match m with MMInst i => "M:i" ++ show_nat i
  | MMFresh f s kw => "M:f" ++ show_nat f ++ "." ++ show_nat s ++ "." ++ show_bool kw end.
Definition show_res (r : result) : string := match r with
  | RUnit => "ok" | RErr => "err" | RLang d => "L" ++ show_nat (ltag d)
  | RLangs l => "Ls[" ++ sjoin "," (map (fun d => show_nat (ltag d)) l) ++ "]"
  | RGen d => "G" ++ show_nat (gtag d) | RGens l => "Gs[" ++ sjoin "," (map (fun d => show_nat (gtag d)) l) ++ "]"
  | RMM m => show_mm m | RMMs l => "Ms[" ++ sjoin "," (map show_mm l) ++ "]" | RCrash => "EXC:TypeError" end.
Definition go (ops : list op) : string := sjoin " " (map show_res (run fnm epl epg init ops)).
Definition gow (l : list ldesc) (g : list gdesc) (ops : list op) : string := sjoin " " (map show_res (run fnm l g init ops)).
""" % (fnm, core.coq_list([c_ld(d) for d in EP_LANGS]), core.coq_list([c_gd(d) for d in EP_GENS]),
       core.coq_list([c_ld(d) for d in EP_LANGS_DUP]), core.coq_list([c_gd(d) for d in EP_GENS_DUP]))


# ---- documented behaviour (property oracle, independent of the Coq model)
def oracle(case):
    """Documented behaviour, written independently of the Coq model: case-insensitive maps that refuse
    duplicates; discovery of the entry points happens on the first use after start / clearing; when two
    entry points collide, that first use reports the registration error and the map keeps the entry points
    discovered before the collision."""
    def load_l():
        t = {}
        for d in case["ep_langs"]:
            if d["name"].lower() in t:
                return t, True
            t[d["name"].lower()] = d
        return t, False

    def load_g():
        t = {}
        for d in case["ep_gens"]:
            if (d["lang"].lower(), d["target"].lower()) in t:
                return t, True
            t[(d["lang"].lower(), d["target"].lower())] = d
        return t, False
    (L, Lbad), (G, Gbad), C = load_l(), load_g(), {}
    serial = 0
    out = []

    def matches(f, d):
        return d["pattern"] is not None and (f == d["pattern"] or fnmatch.fnmatch(f, d["pattern"]))

    def mm(n, kw):
        nonlocal serial
        k = n.lower()
        if k in C and not kw:
            return C[k]
        if k not in L:
            return None
        s = L[k]["src"]
        if s[0] == "I":
            C[k] = "M:i%d" % s[1]
        elif s[0] == "F":
            C[k] = "M:f%d.%d.%s" % (s[1], serial, "T" if kw else "F")
            serial += 1
        else:
            serial += 1
            return None
        return C[k]
    LANG_OPS = ("RegLang", "LangDescription", "LangsForFile", "LangForFile", "MMForFile", "MMsForFile", "LangDescs")
    GEN_OPS = ("RegGen", "GenDescription", "GenDescs")
    for o in case["ops"]:
        k = o["op"]
        uses_l = k in LANG_OPS or (k == "MMForLang" and (o["kw"] or o["n"].lower() not in C))
        if uses_l and Lbad:
            Lbad = False
            out.append("err")
            continue
        if k in GEN_OPS and Gbad:
            Gbad = False
            out.append("err")
            continue
        if k == "RegLang":
            key = o["d"]["name"].lower()
            if key in L:
                r = "err"
            else:
                L[key] = o["d"]
                r = "ok"
        elif k == "ClearLangs":
            (L, Lbad), C = load_l(), {}
            r = "ok"
        elif k == "RegGen":
            key = (o["d"]["lang"].lower(), o["d"]["target"].lower())
            if key in G:
                r = "err"
            else:
                G[key] = o["d"]
                r = "ok"
        elif k == "ClearGens":
            G, Gbad = load_g()
            r = "ok"
        elif k == "LangDescription":
            r = "L%d" % L[o["n"].lower()]["tag"] if o["n"].lower() in L else "err"
        elif k == "GenDescription":
            d = G.get((o["l"].lower(), o["t"].lower())) or (G.get(("any", o["t"].lower())) if o["any"] else None)
            r = "G%d" % d["tag"] if d else "err"
        elif k == "LangsForFile":
            r = "Ls[%s]" % ",".join(str(d["tag"]) for d in L.values() if matches(o["f"], d))
        elif k == "LangForFile":
            ds = [d for d in L.values() if matches(o["f"], d)]
            r = "L%d" % ds[0]["tag"] if len(ds) == 1 else "err"
        elif k == "MMForLang":
            r = mm(o["n"], o["kw"]) or "err"
        elif k == "MMForFile":
            ds = [d for d in L.values() if matches(o["f"], d)]
            r = (mm(ds[0]["name"], o["kw"]) or "err") if len(ds) == 1 else "err"
        elif k == "MMsForFile":
            ms = []
            for d in [d for d in L.values() if matches(o["f"], d)]:
                m = mm(d["name"], False)
                if m is None:
                    ms = None
                    break
                ms.append(m)
            r = "err" if ms is None else "Ms[%s]" % ",".join(ms)
        elif k == "LangDescs":
            r = "Ls[%s]" % ",".join(str(d["tag"]) for d in L.values())
        elif k == "GenDescs":
            # grouped by language in first-registration order
            order = []
            for (l, t) in G:
                if l not in order:
                    order.append(l)
            r = "Gs[%s]" % ",".join(str(G[(l, t)]["tag"]) for lang in order for (l, t) in G if l == lang)
        out.append(r)
    return out


def run(chk):
    chk.prove([registry_tr.translate])
    cases = []
    alpha = small_alphabet()
    depth = 3 if chk.thorough else 2
    sub = alpha if not chk.thorough else [alpha[i] for i in (0, 1, 3, 4, 6, 7, 9, 10, 12, 13, 14, 15, 16, 17, 18)]
    for seq in itertools.product(sub, repeat=depth):
        cases.append({"ops": list(seq), "ep_langs": EP_LANGS, "ep_gens": EP_GENS, "eps": 1, "kind": "enum"})
    # entry points with colliding names: every pair of operations, and every triple after a clearing
    dup_alpha = [alpha[i] for i in (0, 3, 4, 5, 6, 9, 10, 12, 13, 14, 16, 17, 18, 19, 20)]
    for seq in itertools.product(dup_alpha, repeat=2):
        cases.append({"ops": list(seq) + [{"op": "LangDescs"}, {"op": "GenDescs"}], "ep_langs": EP_LANGS_DUP, "ep_gens": EP_GENS_DUP, "eps": 2, "kind": "enum-dup"})
    nrand = 3000 if chk.thorough else 400
    for i in range(nrand):
        r = chk.rng.split(i)
        tagc = [0]
        n = r.range(3, 14)
        k = r.weighted([(1, 12), (0, 2), (2, 3), (3, 2), (4, 1)])
        eps = EP_SETS[k]
        cases.append({"ops": [rand_op(r, tagc) for _ in range(n)], "ep_langs": eps[0], "ep_gens": eps[1], "eps": k, "kind": "random" if k < 2 else "random-dup"})
    chunks = [cases[i::core.NPROC] for i in range(core.NPROC)]
    chunks = [c for c in chunks if c]
    outs = core.run_impl_parallel("c26", [{"cases": ch} for ch in chunks])
    impl = {}
    for ch, o in zip(chunks, outs):
        for c, x in zip(ch, o):
            impl[id(c)] = x
    # model: entry-point sets differ per case -> pass them as arguments
    exprs = []
    for c in cases:
        ops = core.coq_list([c_op(o) for o in c["ops"]])
        if c["eps"] == 1:
            exprs.append("go %s" % ops)
        else:
            exprs.append("gow %s %s %s" % ({0: "[]", 1: "epl", 2: "epl_dup", 3: "epl_dup", 4: "epl"}[c["eps"]],
                                           {0: "[]", 1: "epg", 2: "epg_dup", 3: "epg", 4: "epg_dup"}[c["eps"]], ops))
    vals, errs = core.coq_eval("C26", imports(), exprs, shard=300)
    disagreements, failures = [], []
    if errs:
        disagreements.append({"case": "coq evaluation", "model": errs[:2]})
    for c, mv in zip(cases, vals):
        o = impl[id(c)]
        key = json.dumps([c["ops"], c["eps"]], sort_keys=True)
        lookups_after_mut = any(x["op"] in ("RegLang", "RegGen", "ClearLangs", "ClearGens") for x in c["ops"][:-1]) and \
            any(x["op"] not in ("RegLang", "RegGen", "ClearLangs", "ClearGens") for x in c["ops"][1:])
        chk.count(key, nontrivial=lookups_after_mut)
        chk.stat(c["kind"])
        for r in o:
            chk.stat("result:" + (r.split("[")[0].rstrip("0123456789") if not r.startswith("M:") else "M"))
        if mv is not None and " ".join(o) != mv:
            disagreements.append({"case": c["ops"], "entry_points": c["eps"], "impl": o, "model": mv})
        doc = oracle(c)
        if o != doc:
            i = next(i for i, (a, b) in enumerate(zip(o, doc)) if a != b)
            failures.append({"case": {"ops": c["ops"], "entry_points": c["eps"], "ep_langs": c["ep_langs"], "ep_gens": c["ep_gens"]}, "impl": o, "model": doc,
                             "what": "step %d (%s) answered %s, a case-insensitive map answers %s" % (i, c["ops"][i]["op"], o[i], doc[i]), "tags": []})
        if chk.cov["evaluations"] % 400 == 7:
            chk.sample({"ops": c["ops"], "results": o})
    chk.cov["rule"] = ("all operation sequences of length %d over a %d-operation alphabet (case variants of 3 names, entry-point names, patterns incl. None, kwargs on/off) plus %d random "
                       "sequences of length 3-14 over 13 operation kinds, with a faked entry-point set (present, empty, or containing colliding language / generator names, so that discovery fails on first use), plus all pairs over a 15-operation alphabet under colliding entry points; non-trivial = a lookup/metamodel request follows a mutation; "
                       "distinct by operation sequence" % (depth, len(sub), nrand))
    chk.cov["exhaustive"] = False
    chk.assumptions += ["fnmatch.fnmatch is an oracle (table computed by Python for the file/pattern universe)",
                        "importlib entry points are replaced by a fake entry-point set in the runner (registration.entry_points patched)",
                        "the step function of the Registry model is instantiated with the facts tools/translate/registry_tr.py reads from textx/registration.py "
                        "(Gen/SrcRegistry.v); the statements around them are compared as text; the correspondence validates the transcription"]
    decide(chk, failures, disagreements)
