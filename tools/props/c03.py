"""C03 — rule kinds determine what objects a model contains.

Proof: Props/C03.v over Model/Kinds.v (the multi-pass fixpoint of _determine_rule_types, the
inheritance walk, textx_isinstance with its visited set, the abstract / match / common branch
of process_node).  Tie: differential correspondence on generated grammars (reference graphs
with chains and cycles of abstract rules, aliases, mixed match / common alternatives,
optional and repeated references) and derived inputs.  Property oracle: the documented rule
kinds, object classes, abstract-rule results and the isinstance characterisation, stated
directly in Python on the grammar source and applied to the implementation's outputs.
"""
import json
import os
import re

from vt import core
from vt.main import decide
from translate import kinds_tr

BASE = ["ID", "STRING", "BOOL", "INT", "FLOAT", "STRICTFLOAT", "NUMBER", "BASETYPE"]
BASE_BODY = {"NUMBER": ["alt", [["r", "STRICTFLOAT"], ["r", "INT"]]],
             "BASETYPE": ["alt", [["r", "NUMBER"], ["r", "FLOAT"], ["r", "BOOL"], ["r", "ID"], ["r", "STRING"]]]}
CORPUS = os.path.join(core.VERIF, "corpus", "C03")


# ------------------------------------------------------------------ grammar AST helpers
# node: ["t", text] | ["r", rule] | ["seq", [..]] | ["alt", [..]] | ["opt", n] | ["star", n] | ["plus", n]
#       | ["asg", attr, op, rule]
def norm(n):
    """What the textX visitor builds: one-element sequences / choices collapse."""
    k = n[0]
    if k in ("seq", "alt"):
        xs = [norm(x) for x in n[1]]
        return xs[0] if len(xs) == 1 else [k, xs]
    if k in ("opt", "star", "plus"):
        return [k, norm(n[1])]
    return n


def pr(n, top=False):
    k = n[0]
    if k == "t":
        return "'%s'" % n[1]
    if k == "r":
        return n[1]
    if k == "asg":
        return "%s%s%s" % (n[1], n[2], n[3])
    if k == "seq":
        return " ".join(pr(x) for x in n[1])
    if k == "alt":
        s = " | ".join(pr(x) for x in n[1])
        return s if top else "(" + s + ")"
    op = {"opt": "?", "star": "*", "plus": "+"}[k]
    inner = pr(n[1])
    if n[1][0] in ("t", "r") or (n[1][0] == "alt"):
        return inner + op
    return "(" + inner + ")" + op


def grammar_text(g):
    return "\n".join("%s: %s;" % (r["name"], pr(r["body"], top=True)) for r in g["rules"]) + "\n"


def walk(n):
    yield n
    if n[0] in ("seq", "alt"):
        for x in n[1]:
            yield from walk(x)
    elif n[0] in ("opt", "star", "plus"):
        yield from walk(n[1])


def has_asg(n):
    return any(x[0] == "asg" for x in walk(n))


def refs(n):
    return [x[1] for x in walk(n) if x[0] == "r"]


# ------------------------------------------------------------------ documented semantics (oracle)
def spec_kinds(g):
    """common iff the rule has assignments; otherwise abstract iff it references (anywhere in its
    body) at least one abstract or common rule (least fixpoint); otherwise match."""
    rules = {r["name"]: r for r in g["rules"]}
    nonmatch = {n for n, r in rules.items() if has_asg(r["body"])}
    ch = True
    while ch:
        ch = False
        for n, r in rules.items():
            if n not in nonmatch and any(y in nonmatch for y in refs(r["body"])):
                nonmatch.add(n)
                ch = True
    kinds = {b: "match" for b in BASE}
    for n, r in rules.items():
        kinds[n] = "common" if has_asg(r["body"]) else ("abstract" if n in nonmatch else "match")
    return kinds


def skippable(n, kinds):
    """the node can match without producing an abstract / common rule node"""
    k = n[0]
    if k == "t":
        return True
    if k == "r":
        return kinds[n[1]] == "match"
    if k == "seq":
        return all(skippable(x, kinds) for x in n[1])
    if k == "alt":
        return any(skippable(x, kinds) for x in n[1])
    if k in ("opt", "star"):
        return True
    return skippable(n[1], kinds)


def first_refs(n, kinds):
    """rules that can be the first non-match reference of a match of the node"""
    k = n[0]
    if k == "t" or k == "asg":
        return []
    if k == "r":
        return [n[1]] if kinds[n[1]] != "match" else []
    if k == "alt":
        return [y for x in n[1] for y in first_refs(x, kinds)]
    if k == "seq":
        out = []
        for x in n[1]:
            out += first_refs(x, kinds)
            if not skippable(x, kinds):
                break
        return out
    return first_refs(n[1], kinds)


def nm_refs(n, kinds):
    return [y for y in refs(n) if kinds[y] != "match"]


def closure(g, kinds, edges):
    """inst[R] = classes K with K = R or reachable from R through edges of abstract rules"""
    rules = {r["name"]: r for r in g["rules"]}
    inst = {}
    for r in rules:
        seen, todo = set(), [r]
        while todo:
            x = todo.pop()
            if x in seen:
                continue
            seen.add(x)
            if x in rules and kinds[x] == "abstract":
                todo += edges(rules[x]["body"], kinds)
        inst[r] = seen
    return inst


def abstract_cycle(g, kinds):
    rules = {r["name"]: r for r in g["rules"]}
    abs_ = [n for n in rules if kinds[n] == "abstract"]
    for a in abs_:
        seen, todo = set(), [y for y in refs(rules[a]["body"]) if kinds.get(y) == "abstract"]
        while todo:
            x = todo.pop()
            if x == a:
                return True
            if x in seen:
                continue
            seen.add(x)
            todo += [y for y in refs(rules[x]["body"]) if kinds.get(y) == "abstract"]
    return False


def skippable_first(g, kinds):
    """some sequence of an abstract rule has an element that holds a non-match reference yet can be
    skipped, followed by another element holding a non-match reference"""
    for r in g["rules"]:
        if kinds[r["name"]] != "abstract":
            continue
        for n in walk(r["body"]):
            if n[0] != "seq":
                continue
            xs = n[1]
            for i, x in enumerate(xs):
                if nm_refs(x, kinds) and skippable(x, kinds) and any(nm_refs(y, kinds) for y in xs[i + 1:]):
                    return True
    return False


def py_recorded(g, kinds):
    """_tx_inh_by as a pure function of the final kinds: the early-exit walk of _add_reffered_classes over the
    resolved body (aliases followed, one-element sequences / choices collapsed), reading documented kinds"""
    rules = {r["name"]: r for r in g["rules"]}

    def walk(n, acc):
        k = n[0]
        if k == "t":
            return False
        if k == "r":
            y = resolve_alias(n[1], rules)
            if kinds[y] != "match" and y not in acc:
                acc.append(y)
                return True
            return False
        if k == "seq":
            for x in n[1]:
                if walk(x, acc):
                    return True
            return False
        if k == "alt":
            added = False
            for x in n[1]:
                added = walk(x, acc) or added
            return added
        return walk(n[1], acc)
    out = {}
    for name, r in rules.items():
        if kinds[name] != "abstract":
            continue
        b = norm(r["body"])
        acc = []
        if b[0] == "r":
            y = resolve_alias(b[1], rules)
            acc = [y] if kinds[y] != "match" else []
        else:
            walk(b, acc)
        out[name] = acc
    return out


def tree_flat(t):
    if t[0] == "T":
        return t[1]
    return "".join(tree_flat(k) for k in t[-1])


def doc_value(t, kinds, notes):
    """the documented result of a parse node"""
    if t[0] == "T":
        return "s:" + core.canon_text(t[1])
    if t[0] == "A":
        return "None"
    name, kids = t[1], t[2]
    kd = kinds[name]
    if kd == "match":
        return "s:" + core.canon_text(tree_flat(t))
    if kd == "abstract":
        nm = [k for k in kids if k[0] == "N" and kinds[k[1]] != "match"]
        if nm:
            return doc_value(nm[0], kinds, notes)
        if len(kids) > 1 and any(k[0] == "N" for k in kids):
            notes.add("all_match_with_match_node")
        return "s:" + core.canon_text(tree_flat(t))
    vals = []
    for k in kids:
        if k[0] == "A":
            vals += [doc_value(x, kinds, notes) for x in k[1]]
    return "%s(%s)" % (name, ",".join(vals))


# ------------------------------------------------------------------ translation to the Coq model
def resolve_alias(name, rules):
    seen = set()
    while name in rules and name not in seen:
        seen.add(name)
        b = norm(rules[name]["body"])
        if b[0] != "r":
            break
        name = b[1]
    return name


def coq_expr(n, idx, rules):
    k = n[0]
    if k == "t":
        return "Term"
    if k == "r":
        return "Ref %d" % idx[resolve_alias(n[1], rules)]
    if k == "seq":
        return "Seq [%s]" % "; ".join(coq_expr(x, idx, rules) for x in n[1])
    if k == "alt":
        return "Choice [%s]" % "; ".join(coq_expr(x, idx, rules) for x in n[1])
    if k in ("opt", "star"):
        return "Opt (%s)" % coq_expr(n[1], idx, rules)
    if k == "plus":
        return "Plus (%s)" % coq_expr(n[1], idx, rules)
    raise ValueError(k)


def coq_grammar(g):
    rules = {r["name"]: r for r in g["rules"]}
    names = [r["name"] for r in g["rules"]] + BASE
    idx = {n: i for i, n in enumerate(names)}
    out = []
    for r in g["rules"]:
        if has_asg(r["body"]):
            out.append("{| r_attrs := true; r_body := Body Term |}")
            continue
        b = norm(r["body"])
        if b[0] == "r":
            out.append("{| r_attrs := false; r_body := Alias %d |}" % idx[resolve_alias(b[1], rules)])
        else:
            out.append("{| r_attrs := false; r_body := Body (%s) |}" % coq_expr(b, idx, rules))
    for b in BASE:
        body = coq_expr(BASE_BODY[b], idx, rules) if b in BASE_BODY else "Term"
        out.append("{| r_attrs := false; r_body := Body (%s) |}" % body)
    return "[%s]" % ";\n ".join(out), idx


def coq_tree(t, idx):
    if t[0] == "T":
        return "TT %s" % core.coq_str(t[1])
    if t[0] == "A":
        return "TA [%s]" % "; ".join(coq_tree(k, idx) for k in t[1])
    return "TN %d [%s]" % (idx[t[1]], "; ".join(coq_tree(k, idx) for k in t[2]))


IMPORTS = """From TxV Require Import Core.Base Core.Show Model.Kinds.
Open Scope string_scope.
Definition show_kind (k : kind) : string := match k with KMatch => "m" | KAbstract => "a" | KCommon => "c" end.
Definition show_ob (o : option bool) : string := match o with None => "?" | Some true => "T" | Some false => "F" end.
Fixpoint show_value (v : value) : string :=
  match v with
  | VStr s => "s:" ++ show_str s
  | VNone => "None"
  | VObj c vs => "#" ++ show_nat c ++ "(" ++ sjoin "," ((fix go (l : list value) : list string := match l with [] => [] | x :: l' => show_value x :: go l' end) vs) ++ ")"
  end.
Definition show_case (g : list rule) (nu : nat) (trees : list tree) : string :=
  match determine_types g with
  | None => "OOF"
  | Some s =>
      let n := List.length g in
      show_nat (pass_count g) ++ "|" ++
      sjoin "" (map (fun x => show_kind (types s x)) (seq 0 nu)) ++ "|" ++
      sjoin ";" (map (fun x => sjoin "," (map show_nat (inh s x))) (seq 0 nu)) ++ "|" ++
      sjoin ";" (map (fun k => sjoin "" (map (fun r => show_ob (isinstance n (inh s) k (Some r))) (seq 0 nu))
                             ++ show_ob (isinstance n (inh s) k None)) (seq 0 nu)) ++ "|" ++
      (if inh_is_recorded g s then "R" else "r") ++ "|" ++
      (if forallb (fun x => match types s x, r_body (rule_of g x) with
                            | KAbstract, Body e => seq_ok (types s) e
                            | _, _ => true end) (seq 0 n) then "S" else "s") ++ "|" ++
      sjoin "@" (map (fun t => show_value (process (types s) t)) trees)
  end."""


# ------------------------------------------------------------------ generator
def kw(i):
    a = "abcdefghijklmnopqrstuvwxyz"
    return a[(i // 26) % 26] + a[i % 26] + "q"


class Gen:
    def __init__(self, r):
        self.r = r
        self.kwn = 0

    def newkw(self):
        self.kwn += 1
        return ["t", kw(self.kwn * 7 + 3)]

    def grammar(self):
        r = self.r
        n = r.range(3, 7)
        cats = []
        for i in range(n):
            cats.append(r.weighted([("C", 3), ("M", 2), ("X", 5)]))
        if "C" not in cats:
            cats[r.below(n)] = "C"
        names = ["%s%d" % (c, i + 1) for i, c in enumerate(cats)]
        level = {nm: lv for nm, lv in zip(names, r.shuffle(list(range(n))))}
        self.names, self.cats, self.level = names, dict(zip(names, cats)), level
        rules = []
        tops = r.sample([x for x in names if self.cats[x] != "M"] or names, 2)
        body = [["asg", "xs", "+=", tops[0]]]
        if len(tops) > 1 and r.chance(0.5):
            body += [["t", "also"], ["asg", "ys", "+=", tops[1]]]
        rules.append({"name": "Model", "body": ["seq", body]})
        for nm in names:
            rules.append({"name": nm, "body": getattr(self, "body_" + self.cats[nm])(nm)})
        return {"rules": rules}

    def anyref(self, cur, first):
        """a rule that may be referenced from cur; at a position where nothing is consumed yet only
        rules of a higher level (no left recursion)"""
        r = self.r
        cands = [x for x in self.names if (not first) or self.level[x] > self.level[cur]]
        if not cands or r.chance(0.08):
            return r.choice(["INT", "ID"])
        w = [(x, {"C": 4, "M": 2, "X": 5}[self.cats[x]]) for x in cands]
        return r.weighted(w)

    def body_C(self, nm):
        r = self.r
        k = self.newkw()
        shape = r.weighted([("v", 4), ("vx", 3), ("list", 2), ("xy", 2)])
        if shape == "v":
            return ["seq", [k, ["asg", "v", "=", "INT"]]]
        if shape == "vx":
            return ["seq", [k, ["asg", "v", "=", "INT"], ["asg", "x", "=", self.anyref(nm, False)]]]
        if shape == "list":
            return ["seq", [k, ["asg", "xs", "+=", self.anyref(nm, False)], self.newkw()]]
        return ["seq", [k, ["asg", "x", "=", self.anyref(nm, False)], ["asg", "y", "=", self.anyref(nm, False)]]]

    def mref(self, cur, first):
        cands = [x for x in self.names if self.cats[x] == "M" and ((not first) or self.level[x] > self.level[cur])]
        if not cands or self.r.chance(0.3):
            return ["r", self.r.choice(["INT", "ID"])]
        return ["r", self.r.choice(cands)]

    def body_M(self, nm):
        r = self.r
        shape = r.weighted([("kk", 3), ("k", 2), ("kint", 3), ("kref", 3), ("alt", 2), ("alias", 1), ("kopt", 1)])
        if shape == "kk":
            return ["seq", [self.newkw(), self.newkw()]]
        if shape == "k":
            return self.newkw()
        if shape == "kint":
            return ["seq", [self.newkw(), ["r", "INT"]]]
        if shape == "kref":
            return ["seq", [self.newkw(), self.mref(nm, False)]]
        if shape == "alt":
            return ["alt", [["seq", [self.newkw(), self.mref(nm, False)]], self.newkw()]]
        if shape == "kopt":
            return ["seq", [self.newkw(), ["opt", self.mref(nm, False)]]]
        return self.mref(nm, True)

    def elem(self, cur, first):
        """one sequence element; returns (node, consumes)"""
        r = self.r
        shape = r.weighted([("t", 3), ("r", 6), ("opt", 2), ("star", 1), ("plus", 1), ("alt", 2)])
        if shape == "t":
            return self.newkw(), True
        if shape == "r":
            return ["r", self.anyref(cur, first)], True
        if shape in ("opt", "star"):
            inner = ["r", self.anyref(cur, first)] if r.chance(0.8) else self.newkw()
            return [shape, inner], False
        if shape == "plus":
            if r.chance(0.5):
                return ["plus", ["r", self.anyref(cur, first)]], True
            return ["plus", ["alt", [["r", self.anyref(cur, first)], self.newkw()]]], True
        a = ["r", self.anyref(cur, first)]
        b = ["r", self.anyref(cur, first)] if r.chance(0.6) else self.newkw()
        return ["alt", [a, b]], True

    def alternative(self, cur):
        r = self.r
        if r.chance(0.45):
            return ["r", self.anyref(cur, True)]
        k = r.weighted([(2, 5), (3, 4), (4, 1)])
        out, consumed = [], False
        for _ in range(k):
            e, c = self.elem(cur, not consumed)
            out.append(e)
            consumed = consumed or c
        if not consumed:
            out.append(self.newkw())
        return ["seq", out]

    def body_X(self, nm):
        r = self.r
        k = r.weighted([(1, 2), (2, 5), (3, 3)])
        alts = [self.alternative(nm) for _ in range(k)]
        return ["alt", alts] if len(alts) > 1 else alts[0]


def linked_cycles(r):
    """Reference graphs made of 2-4 linked cycles of assignment-free rules: cycle 0 has one exit to a
    common rule, cycle i > 0 one exit into cycle i-1, every other exit is a match rule or a keyword.
    Edges inside a cycle are keyword-guarded (no left recursion) and are back edges for whichever
    member is defined first; definition order and alternative order are random, so a rule's kind may
    only become known after several passes of the kind fixpoint (stale reads of rules that are still
    being resolved)."""
    kwn = [0]

    def k():
        kwn[0] += 1
        return ["t", kw(kwn[0] * 7 + 3)]
    d = r.range(2, 4)
    rules, cycles = [], []
    commons = ["K1"] + (["K2"] if r.chance(0.4) else [])
    matches = ["Mm1"] + (["Mm2"] if r.chance(0.5) else [])
    n = 0
    for i in range(d):
        size = r.weighted([(1, 1), (2, 5), (3, 2)]) if i else r.weighted([(2, 5), (3, 2)])
        members = []
        for _ in range(size):
            n += 1
            members.append("X%d" % n)
        cycles.append(members)
    bodies = {}
    for i, members in enumerate(cycles):
        exit_at = r.below(len(members))
        for j, m in enumerate(members):
            nxt = members[(j + 1) % len(members)]
            edge = ["seq", [k(), ["r", nxt]] + ([k()] if r.chance(0.5) else [])]
            if j == exit_at:
                if i == 0:
                    ex = ["r", r.choice(commons)]
                else:
                    tgt = r.choice(cycles[i - 1])
                    ex = ["r", tgt] if r.chance(0.3) else ["seq", [k(), ["r", tgt]] + ([k()] if r.chance(0.5) else [])]
            else:
                ex = r.weighted([(["r", r.choice(matches)], 3), (k(), 1), (["seq", [k(), ["r", r.choice(matches)]]], 1)])
            alts = [edge, ex]
            if r.chance(0.25):
                alts.append(r.weighted([(["seq", [k(), ["r", r.choice(matches)]]], 2), (["r", r.choice(commons)], 1)]))
            bodies[m] = ["alt", r.shuffle(alts) if r.chance(0.5) else alts]
    order = r.shuffle([m for c in cycles for m in c])
    top = r.choice(cycles[-1])
    body = [["asg", "xs", "+=", top]]
    if r.chance(0.6):
        body += [["t", "also"], ["asg", "ys", "+=", r.choice(order)]]
    rules.append({"name": "Model", "body": ["seq", body]})
    extra = [{"name": c, "body": ["seq", [k(), ["asg", "v", "=", "INT"]]]} for c in commons]
    extra += [{"name": m, "body": r.choice([["seq", [k(), k()]], ["seq", [k(), ["r", "INT"]]], k()])} for m in matches]
    rest = [{"name": m, "body": bodies[m]} for m in order]
    if r.chance(0.5):
        rules += rest + extra
    else:
        rules += r.shuffle(rest + extra)
    return {"rules": rules}


def nested_back_edges(r):
    """A tree of assignment-free rules whose edges go both ways (child <-> parent, all keyword-guarded):
    only the root has an exit to a common rule, so every other rule is abstract only through its
    parent, which is still being resolved when the child reads it.  With the child edges tried first
    and the rules defined from the root down, each tree level costs one more pass of the kind
    fixpoint; alternative order, definition order, fillers and cross edges are randomised."""
    kwn = [0]

    def k():
        kwn[0] += 1
        return ["t", kw(kwn[0] * 7 + 3)]

    def guarded(x):
        return ["seq", [k(), ["r", x]] + ([k()] if r.chance(0.4) else [])]
    n = r.range(3, 7)
    names = ["X%d" % (i + 1) for i in range(n)]
    parent = {}
    for i in range(1, n):
        parent[names[i]] = names[i - 1] if r.chance(0.65) else names[r.below(i)]
    kids = {x: [c for c in names if parent.get(c) == x] for x in names}
    commons = ["K1"] + (["K2"] if r.chance(0.3) else [])
    matches = ["Mm1"] + (["Mm2"] if r.chance(0.4) else [])
    bodies = {}
    for x in names:
        down = [guarded(c) for c in kids[x]]
        up = [guarded(parent[x])] if x in parent else [["r", r.choice(commons)] if r.chance(0.7) else ["seq", [k(), ["r", r.choice(commons)]]]]
        fill = []
        if r.chance(0.5) or (not down and x in parent):
            fill.append(r.weighted([(["r", r.choice(matches)], 3), (["seq", [k(), ["r", r.choice(matches)]]], 1), (k(), 1)]))
        if r.chance(0.12):
            fill.append(guarded(r.choice(names)))          # a cross edge
        alts = down + up + fill if r.chance(0.7) else r.shuffle(down + up + fill)
        bodies[x] = ["alt", alts] if len(alts) > 1 else ["seq", [alts[0], k()]] if alts[0][0] == "r" else alts[0]
    order = names if r.chance(0.6) else r.shuffle(names)
    body = [["asg", "xs", "+=", r.choice(names)]]
    if r.chance(0.6):
        body += [["t", "also"], ["asg", "ys", "+=", names[-1]]]
    rules = [{"name": "Model", "body": ["seq", body]}]
    extra = [{"name": c, "body": ["seq", [k(), ["asg", "v", "=", "INT"]]]} for c in commons]
    extra += [{"name": m, "body": r.choice([["seq", [k(), k()]], ["seq", [k(), ["r", "INT"]]], k()])} for m in matches]
    rest = [{"name": m, "body": bodies[m]} for m in order]
    rules += (rest + extra) if r.chance(0.6) else r.shuffle(rest + extra)
    return {"rules": rules}


def derive(g, r, maxdepth=3):
    """a token list derived from the grammar (the PEG may still parse it differently or reject it)"""
    rules = {x["name"]: x for x in g["rules"]}
    INF = 10 ** 6
    cost = {n: INF for n in rules}

    def c_node(n):
        k = n[0]
        if k == "t":
            return 0
        if k == "r" or k == "asg":
            y = n[1] if k == "r" else n[3]
            return 0 if y in BASE else cost[y] + 1
        if k == "seq":
            return max([c_node(x) for x in n[1]] + [0])
        if k == "alt":
            return min(c_node(x) for x in n[1])
        if k in ("opt", "star"):
            return 0
        return c_node(n[1])
    for _ in range(len(rules) + 2):
        for n, x in rules.items():
            cost[n] = min(cost[n], c_node(x["body"]))
    out = []

    def go(n, depth):
        k = n[0]
        if k == "t":
            out.append(n[1])
        elif k == "r" or k == "asg":
            y = n[1] if k == "r" else n[3]
            reps = 1
            if k == "asg" and n[2] == "+=":
                reps = r.range(1, 3) if depth < 1 else 1
            for _ in range(reps):
                if y == "INT":
                    out.append(str(r.range(1, 99)))
                elif y == "ID":
                    out.append("V%d" % r.range(1, 9))
                else:
                    go(rules[y]["body"], depth + 1)
        elif k == "seq":
            for x in n[1]:
                go(x, depth)
        elif k == "alt":
            xs = [x for x in n[1] if c_node(x) < INF]
            if depth >= maxdepth:
                best = min(c_node(x) for x in xs)
                xs = [x for x in xs if c_node(x) == best]
            go(r.choice(xs), depth)
        elif k == "opt":
            if depth < maxdepth and c_node(n[1]) < INF and r.chance(0.5):
                go(n[1], depth)
        elif k == "star":
            if depth < maxdepth and c_node(n[1]) < INF:
                for _ in range(r.below(3)):
                    go(n[1], depth)
        elif k == "plus":
            for _ in range(1 if depth >= maxdepth else r.range(1, 2)):
                go(n[1], depth)
    if cost["Model"] >= INF:
        return None
    go(rules["Model"]["body"], 0)
    return " ".join(out)


def load_corpus():
    cases = []
    if os.path.isdir(CORPUS):
        for f in sorted(os.listdir(CORPUS)):
            if f.endswith(".json"):
                c = json.load(open(os.path.join(CORPUS, f)))
                c["origin"] = "corpus/C03/" + f
                cases.append(c)
    return cases


def enum_cases():
    """thorough: every grammar with two assignment-free rules R1, R2 over the references
    {R1, R2, C (common), M (match)} and the body shapes a | a|b | 'k' a | a? b | 'k' a b, except alias
    cycles (which textX rejects with a RecursionError while resolving rule references); no inputs:
    kinds, _tx_inh_by and textx_isinstance only."""
    names = ["R1", "R2", "C", "M"]
    bodies = []
    for a in names:
        bodies.append(["r", a])
        bodies.append(["seq", [["t", "k"], ["r", a]]])
        for b in names:
            bodies.append(["alt", [["r", a], ["r", b]]])
            bodies.append(["seq", [["opt", ["r", a]], ["r", b]]])
            bodies.append(["seq", [["t", "k"], ["r", a], ["r", b]]])
    out = []
    for i, b1 in enumerate(bodies):
        for j, b2 in enumerate(bodies):
            g = {"rules": [{"name": "Model", "body": ["seq", [["asg", "xs", "+=", "R1"]]]},
                           {"name": "R1", "body": b1}, {"name": "R2", "body": b2},
                           {"name": "C", "body": ["seq", [["t", "c"], ["asg", "v", "=", "INT"]]]},
                           {"name": "M", "body": ["seq", [["t", "m"], ["t", "n"]]]}]}
            rules = {r["name"]: r for r in g["rules"]}
            cyc = False
            for start in ("R1", "R2"):
                if norm(rules[start]["body"])[0] == "r":
                    end = resolve_alias(start, rules)
                    if end in ("R1", "R2") and norm(rules[end]["body"])[0] == "r":
                        cyc = True
            if not cyc:
                out.append({"g": g, "inputs": [], "origin": "enum:%d:%d" % (i, j)})
    return out


def enum_cycles():
    """thorough: every grammar with three assignment-free rules R1..R3, each `a | b` with
    a in {Rj (j <> i), 'k' Rj} and b in {'j' Rj, C}, at least one exit to the common rule C: all small
    multi-cycle reference graphs with back edges in every definition / alternative order (kinds that
    need up to four passes).  No inputs."""
    rs = ["R1", "R2", "R3"]
    second = [["seq", [["t", "j"], ["r", x]]] for x in rs] + [["r", "C"]]

    def bodies_of(me):
        first = [["r", x] for x in rs if x != me] + [["seq", [["t", "k"], ["r", x]]] for x in rs]
        return [["alt", [a, b]] for a in first for b in second]
    out = []
    for i, b1 in enumerate(bodies_of("R1")):
        for j, b2 in enumerate(bodies_of("R2")):
            for l, b3 in enumerate(bodies_of("R3")):
                if not any(b[1][1] == ["r", "C"] for b in (b1, b2, b3)):
                    continue
                g = {"rules": [{"name": "Model", "body": ["seq", [["asg", "xs", "+=", "R1"]]]},
                               {"name": "R1", "body": b1}, {"name": "R2", "body": b2}, {"name": "R3", "body": b3},
                               {"name": "C", "body": ["seq", [["t", "c"], ["asg", "v", "=", "INT"]]]},
                               {"name": "M", "body": ["seq", [["t", "m"], ["t", "n"]]]}]}
                out.append({"g": g, "inputs": [], "origin": "enum3:%d:%d:%d" % (i, j, l)})
    return out


def make_case(r, i):
    g = linked_cycles(r) if i % 8 == 3 else nested_back_edges(r) if i % 4 == 1 else Gen(r).grammar()
    inputs = []
    for j in range(3):
        t = derive(g, r.split("in%d" % j))
        if t is not None and t not in inputs:
            inputs.append(t)
    return {"g": g, "inputs": inputs, "origin": "gen:%d" % i}


# ------------------------------------------------------------------ the check
def evaluate(chk, cases):
    """runs implementation, model and oracle on the cases; returns (failures, disagreements)"""
    payload = []
    for c in cases:
        c["names"] = [x["name"] for x in c["g"]["rules"]]
        c["text"] = grammar_text(c["g"])
        payload.append({"grammar": c["text"], "rules": c["names"], "inputs": c["inputs"]})
    nchunks = max(1, min(core.NPROC, len(payload)))
    chunks = [list(range(k, len(payload), nchunks)) for k in range(nchunks)]
    outs = core.run_impl_parallel("c03", [{"cases": [payload[i] for i in ch]} for ch in chunks])
    for ch, o in zip(chunks, outs):
        for i, x in zip(ch, o):
            cases[i]["impl"] = x
    exprs, withmodel = [], []
    for c in cases:
        o = c["impl"]
        if o["error"]:
            continue
        gtxt, idx = coq_grammar(c["g"])
        c["idx"] = idx
        trees = [run["tree"] for run in o["runs"] if not run["error"]]
        exprs.append("show_case %s %d [%s]" % (gtxt, len(c["names"]), "; ".join(coq_tree(t, idx) for t in trees)))
        withmodel.append(c)
    vals, errs = core.coq_eval("C03", IMPORTS, exprs, shard=60)
    failures, disagreements = [], []
    if errs:
        disagreements.append({"case": "coq evaluation", "model": errs[:2]})
    for c, mv in zip(withmodel, vals):
        c["model"] = mv
    for c in cases:
        check_case(chk, c, failures, disagreements)
    return failures, disagreements


def check_case(chk, c, failures, disagreements):
    g, o, names = c["g"], c["impl"], c["names"]
    kinds = spec_kinds(g)
    brief = {"origin": c["origin"], "grammar": c["text"], "inputs": c["inputs"]}
    nabs = sum(1 for n in names if kinds[n] == "abstract")
    cyc = abstract_cycle(g, kinds)
    skf = skippable_first(g, kinds)
    chk.count(c["text"], nontrivial=nabs > 0)
    chk.stat("grammars")
    chk.stat("abstract rules", nabs)
    if cyc:
        chk.stat("grammars with a cycle through abstract rules")
    if skf:
        chk.stat("grammars with a skippable first non-match element")
    if o["error"]:
        chk.stat("metamodel error " + o["error"].split(":")[0])
        failures.append({"case": brief, "what": "the meta-model of a generated grammar is not built: " + o["error"],
                         "impl": o["error"], "tags": []})
        return

    def fail(what, tags=(), **kw):
        failures.append(dict({"case": brief, "what": what, "tags": list(tags), "model": c.get("model")}, **kw))

    # ---- correspondence with the Coq model
    mv = c.get("model")
    if mv is None:
        disagreements.append({"case": brief, "impl": "evaluated", "model": None})
    else:
        letter = {"match": "m", "abstract": "a", "common": "c"}
        idx = c["idx"]
        i_k = "".join(letter[o["kinds"][n]] for n in names)
        i_inh = ";".join(",".join(str(idx[y]) for y in o["inh"][n]) for n in names)
        i_is = ";".join("".join(("T" if o["isinst"][k][r] is True else "F" if o["isinst"][k][r] is False else "?")
                                for r in names + ["OBJECT"]) for k in names)
        back = {v: k for k, v in idx.items()}
        runs_ok = [run for run in o["runs"] if not run["error"]]
        i_vals = "@".join(run["dump"] for run in runs_ok)
        m_vals = re.sub(r"#(\d+)\(", lambda m: back[int(m.group(1))] + "(", mv.split("|", 6)[6]) if mv.count("|") >= 6 else mv
        m_rec = mv.split("|", 6)[4] if mv.count("|") >= 6 else "?"
        # the 5th field ties the finding's classifier to the theorem's hypothesis: seq_ok of every abstract body (Coq)
        # against skippable_first on the grammar source (Python)
        # 5th field: the model's lists equal the declarative `recorded` (pure walk on final kinds) - required whenever
        # no cycle runs through abstract rules; 6th field: seq_ok (Coq) against skippable_first (Python)
        impl_s = "|".join([str(o.get("passes")), i_k, i_inh, i_is, m_rec if cyc else "R", "s" if skf else "S", i_vals])
        model_s = "|".join(mv.split("|", 6)[:6] + [m_vals]) if mv.count("|") >= 6 else mv
        if mv.count("|") >= 6:
            np_ = mv.split("|", 1)[0]
            chk.stat("grammars resolved in %s passes" % (np_ if np_ in ("1", "2", "3") else ">=4"))
        chk.cov["disagreements_checked"] += 1
        if impl_s != model_s:
            disagreements.append({"case": brief, "impl": impl_s, "model": model_s})

    # ---- property oracle on the implementation
    # (a) kinds
    for n in names:
        if o["kinds"][n] != kinds[n]:
            fail("rule %s has kind %s, documented %s" % (n, o["kinds"][n], kinds[n]), impl=o["kinds"])
            break
    # (e) textx_isinstance: lower (first non-match references) <= implementation <= upper (any reference)
    lower = closure(g, kinds, first_refs)
    upper = closure(g, kinds, nm_refs)
    inc_tags = ["inh_by_incomplete"] if (cyc or skf) else []
    bad_low = bad_up = None
    for k in names:
        if kinds[k] != "common":
            continue
        for r in names:
            v = o["isinst"][k][r]
            if v not in (True, False):
                fail("textx_isinstance(%s object, %s) raised %s" % (k, r, v), impl=o["isinst"][k])
                continue
            if k in lower[r] and not v:
                bad_low = bad_low or (k, r)
            if v and k not in upper[r]:
                bad_up = bad_up or (k, r)
        if o["isinst"][k]["OBJECT"] is not True:
            fail("textx_isinstance(%s object, OBJECT) is %s" % (k, o["isinst"][k]["OBJECT"]))
    if bad_low:
        fail("textx_isinstance(%s object, %s) is False although %s can yield %s objects (first non-match reference)"
             % (bad_low[0], bad_low[1], bad_low[1], bad_low[0]), inc_tags, impl=o["inh"])
    if bad_up:
        fail("textx_isinstance(%s object, %s) is True although %s is not reachable from %s through abstract rules"
             % (bad_up[0], bad_up[1], bad_up[0], bad_up[1]), impl=o["inh"])
    # (g) without a cycle through abstract rules _tx_inh_by is exactly the early-exit walk over the final kinds
    if not cyc and all(o["kinds"][n] == kinds[n] for n in names):
        rec = py_recorded(g, kinds)
        for n in names:
            if kinds[n] == "abstract" and o["inh"][n] != rec[n]:
                fail("_tx_inh_by of %s is %r, the walk over the final kinds gives %r" % (n, o["inh"][n], rec[n]), impl=o["inh"])
                break
        chk.stat("grammars whose _tx_inh_by is checked against the declarative walk")
    # per input: (b)(c) object classes, (d) documented value, (f) declared abstract class holds
    for text, run in zip(c["inputs"], o["runs"]):
        if run["error"]:
            chk.stat("input " + run["error"])
            if run["error"] not in ("TextXSyntaxError",):
                fail("loading %r raised %s" % (text, run["error"]))
            continue
        chk.stat("input accepted")
        chk.stat("objects", len(run["objs"]))
        for cls in run["objs"]:
            if kinds.get(cls) != "common":
                fail("the model of %r contains an instance of %s, which is a %s rule" % (text, cls, kinds.get(cls)),
                     impl=run["dump"])
                break
        notes = set()
        doc = doc_value(run["tree"], kinds, notes)
        if doc != run["dump"]:
            fail("the model of %r is %s, documented %s" % (text, run["dump"], doc),
                 ["all_match_with_match_node"] if notes else [], impl=run["dump"])
        elif notes:
            chk.stat("inputs with an all-match alternative holding a match-rule node (agree)")
        for k, r, v in run["dyn"]:
            if v is not True:
                fail("in the model of %r a %s object sits where %s is declared but textx_isinstance says %s"
                     % (text, k, r, v), inc_tags, impl=run["dump"])
                break
    if chk.cov["evaluations"] % 40 == 2:
        chk.sample({"grammar": c["text"], "kinds": o["kinds"], "inh_by": o["inh"], "inputs": c["inputs"][:1],
                    "models": [run["dump"] for run in o["runs"][:1]]})


def run(chk):
    chk.prove([kinds_tr.translate])
    n = 400 if chk.thorough else 160
    cases = []
    for c in load_corpus():
        cases.append({"g": c["grammar"], "inputs": c["inputs"], "origin": c["origin"]})
    for i in range(n):
        cases.append(make_case(chk.rng.split(i), i))
    if chk.thorough:
        cases += enum_cases() + enum_cycles()
    failures, disagreements = evaluate(chk, cases)
    chk.cov["rule"] = ("generated grammars: a common root with list attributes over 3-7 rules drawn as common (keyword + INT / contained "
                       "references / lists), match (keywords, base types, references to match rules, aliases) and assignment-free rules whose "
                       "1-3 alternatives mix bare references, keywords, optional / repeated / nested-choice references in any order, so that "
                       "chains, aliases and cycles of abstract rules occur (back references only after a consumed token: no left recursion); "
                       "1/4 of the grammars are trees of assignment-free rules with guarded edges in both directions and one exit to a common "
                       "rule, 1/8 are 2-4 linked cycles, so that kinds need 3-7 passes of the fixpoint (see distribution); "
                       "up to 3 inputs derived from each grammar; observed: _tx_type, _tx_inh_by, textx_isinstance for every (rule, rule) pair, "
                       "the number of passes of the kind fixpoint, type names and canonical dump of every loaded model, the captured parse tree; non-trivial = the grammar has at least "
                       "one abstract rule; distinct by grammar text")
    chk.assumptions += ["translator kinds_tr.py (ast): text of _determine_rule_types, textx_isinstance and the abstract/match branch of "
                        "process_node compared with the transcription; has_change / resolved_classes / abstract-result test / visited test "
                        "extracted as facts into Gen/SrcKinds.v, on which the model and the theorems depend",
                        "Model/Kinds.v transcribes _determine_rule_types, _textx_isinstance and the abstract/match/common branch of "
                        "process_node by hand; validated by the correspondence on every case",
                        "the grammar handed to the model is the parser model after _resolve_rule_refs (aliases resolved by "
                        "props/c03.py: resolve_alias, validated by the correspondence on _tx_inh_by)",
                        "Arpeggio's parse tree is taken as given (captured from the implementation run)",
                        "INT values are generated without sign or leading zeros so that conversion is the identity on text"]
    decide(chk, failures, disagreements)


def replay(rep):
    case = rep.get("case") or {}
    print(json.dumps(rep, indent=1)[:4000])
    if isinstance(case, dict) and case.get("grammar"):
        out = core.run_impl("c03", {"cases": [{"grammar": case["grammar"],
                                               "rules": re.findall(r"^(\w+):", case["grammar"], re.M),
                                               "inputs": case.get("inputs", [])}]})
        print(json.dumps(out, indent=1)[:6000])
    return 0
